use serde_json::{json, Value};

/// Same deterministic filler as `fill` in Model/Codec.v: byte i = (seed + 131*i + i/251) mod 256.
pub fn fill(n: u64, seed: u64) -> Vec<u8> {
  (0..n).map(|i| ((seed + i * 131 + i / 251) % 256) as u8).collect()
}

/// Same digest as `digest` in Model/Codec.v, flattened: [len, adler, first8.., last8..]
pub fn digest(l: &[u8]) -> Vec<u64> {
  let (mut a, mut b) = (1u64, 0u64);
  for &x in l {
    a = (a + x as u64) % 65521;
    b = (b + a) % 65521;
  }
  let mut out = vec![l.len() as u64, b * 65536 + a];
  out.extend(l.iter().take(8).map(|&x| x as u64));
  let start = l.len().saturating_sub(8);
  out.extend(l[start..].iter().map(|&x| x as u64));
  out
}

pub fn payload_of(v: &Value) -> Vec<u8> {
  if let Some(b) = v.get("bytes") {
    b.as_array().unwrap().iter().map(|x| x.as_u64().unwrap() as u8).collect()
  } else {
    fill(v["len"].as_u64().unwrap(), v["seed"].as_u64().unwrap())
  }
}

pub fn bytes_of(v: &Value) -> Vec<u8> {
  v.as_array().unwrap().iter().map(|x| x.as_u64().unwrap() as u8).collect()
}

pub fn rows(r: Vec<Vec<u64>>) -> Value {
  json!(r)
}

pub fn u(v: &Value, k: &str) -> u64 {
  v[k].as_u64().unwrap_or_else(|| panic!("missing u64 field {k} in {v}"))
}
pub fn b(v: &Value, k: &str) -> bool {
  v[k].as_bool().unwrap_or(false)
}

/// cut `data` into chunks of the given lengths; the remainder forms the last chunk.
/// A zero length yields an empty chunk. Mirrors `cut` in the Coq drivers.
pub fn cut(data: &[u8], lens: &[u64]) -> Vec<Vec<u8>> {
  let mut out = Vec::new();
  let mut pos = 0usize;
  for &l in lens {
    let end = (pos + l as usize).min(data.len());
    out.push(data[pos..end].to_vec());
    pos = end;
  }
  out.push(data[pos..].to_vec());
  out
}
