//! C09: dropping a send()/recv()/send_multipart()/recv_multipart() future at every `Pending`.
//!
//! One case = one scenario on real sockets on a current-thread runtime (the socket actors only
//! run while the controller awaits, so every poll of the future under test sees a settled world):
//!   1. set-up (subject socket + scripted peers; pipes of capacity 1: SNDHWM = RCVHWM = 1; optional
//!      SNDTIMEO/RCVTIMEO; back-pressure = the whole path to a peer that does not read is full),
//!   2. the operation under test is polled by hand (`futures::poll!`); after the i-th `Pending` the
//!      i-th script step is applied to the world (peer reads one message / peer sends / peer answers /
//!      subject connects / wait for the time-out / nothing) and the world is left to settle; the future
//!      is DROPPED right after its n-th `Pending` (n = 0: never),
//!   3. accounting: the follow-up calls an application would make (retry / next valid call), then the
//!      peers read everything that is on its way and the subject reads everything queued for it.
//! Frames carry (message id, index, count); a received message is `whole` iff all its frames carry
//! the same id, indices 0..count-1 and count = number of frames.
//!
//! rows (compared with the model's outcome set, see Corr/C09Corr.v):
//!   [1, result of the operation under test]          0 dropped, 1 Ok, 2 Timeout/ResourceLimitReached,
//!                                                    3 InvalidState, 4 HostUnreachable, 5 other error, 7 never completed
//!   [2, results of the follow-up calls ...]
//!   [3, what peer 0 received, one code per message]  message id if whole, 900 otherwise
//!   [4, what peer 1 received ...]                    (PUB only; rows 3/4 sorted)
//!   [5, what the application received, per call]     recv(): 1000*id + 10*index + count per frame; recv_multipart(): id / 900
//! "detail" (not compared): number of Pending polls seen, prefill count, raw logs.
use crate::stack::{apply_opts, stype_of};
use rzmq::{Context, Msg, MsgFlags, Socket, ZmqError};
use serde_json::{json, Value};
use std::future::Future;
use std::pin::Pin;
use std::sync::atomic::{AtomicU64, Ordering};
use std::task::Poll;
use std::time::Duration;
use tokio::time::{sleep, timeout};

const SETTLE: Duration = Duration::from_millis(12);
const QUIET: Duration = Duration::from_millis(150);
const TMO_MS: i64 = 200; // SNDTIMEO / RCVTIMEO when the case asks for a time-out
const WAIT_TMO: Duration = Duration::from_millis(450); // script step "w": let the time-out expire
static EP: AtomicU64 = AtomicU64::new(0);

fn tagged(mid: u64, idx: u64, cnt: u64, more: bool) -> Msg {
  let mut m = Msg::from_vec(vec![b'T', mid as u8, idx as u8, cnt as u8, 0xAA, 0x55]);
  if more {
    m.set_flags(MsgFlags::MORE);
  }
  m
}

fn frames_of(mid: u64, cnt: u64) -> Vec<Msg> {
  (0..cnt).map(|i| tagged(mid, i, cnt, i + 1 < cnt)).collect()
}

fn tag_of(d: &[u8]) -> Option<(u64, u64, u64)> {
  if d.len() == 6 && d[0] == b'T' && d[4] == 0xAA && d[5] == 0x55 {
    Some((d[1] as u64, d[2] as u64, d[3] as u64))
  } else {
    None
  }
}

/// message id if the frames are exactly one whole tagged message, 900 otherwise
fn classify(frames: &[Vec<u8>]) -> u64 {
  if frames.is_empty() {
    return 900;
  }
  let mut mid = None;
  for (i, f) in frames.iter().enumerate() {
    match tag_of(f) {
      Some((m, idx, cnt)) => {
        if idx != i as u64 || cnt != frames.len() as u64 || mid.map_or(false, |x| x != m) {
          return 900;
        }
        mid = Some(m);
      }
      None => return 900,
    }
  }
  mid.unwrap_or(900)
}

fn frame_code(d: &[u8]) -> u64 {
  match tag_of(d) {
    Some((m, i, c)) => 1000 * m + 10 * i + c,
    None => {
      if d.is_empty() {
        901 // empty frame (a delimiter that reached the application)
      } else {
        902 // untagged frame (an identity)
      }
    }
  }
}

fn rc<T>(r: &Result<T, ZmqError>) -> u64 {
  match r {
    Ok(_) => 1,
    Err(ZmqError::Timeout) | Err(ZmqError::ResourceLimitReached) => 2,
    Err(ZmqError::InvalidState(_)) => 3,
    Err(ZmqError::HostUnreachable(_)) => 4,
    Err(_) => 5,
  }
}

fn bytes_of_msgs(v: &[Msg]) -> Vec<Vec<u8>> {
  v.iter().map(|m| m.data().unwrap_or(&[]).to_vec()).collect()
}

struct Env {
  subj: Socket,
  ep: String,
  peers: Vec<Socket>,
  ptype: Vec<String>,
  plog: Vec<Vec<u64>>,
  raw: Vec<Value>,
  next_mid: u64, // ids of the messages the peers send
  connected: bool,
  subj_id: Vec<u8>,
}

impl Env {
  /// peer `k` reads one message (waits at most QUIET); ROUTER peers drop the identity frame
  async fn peer_recv(&mut self, k: usize) -> bool {
    match timeout(QUIET, self.peers[k].recv_multipart()).await {
      Ok(Ok(fs)) => {
        let mut b = bytes_of_msgs(&fs);
        if self.ptype[k] == "ROUTER" && !b.is_empty() {
          b.remove(0);
        }
        self.raw.push(json!({"peer": k, "frames": b}));
        self.plog[k].push(classify(&b));
        true
      }
      _ => false,
    }
  }

  async fn peer_send(&mut self, k: usize, cnt: u64) {
    let mid = self.next_mid;
    self.next_mid += 1;
    let mut fs = frames_of(mid, cnt);
    if self.ptype[k] == "ROUTER" {
      let mut idm = Msg::from_vec(self.subj_id.clone());
      idm.set_flags(MsgFlags::MORE);
      fs.insert(0, idm);
    }
    if self.ptype[k] == "REQ" {
      // REQ has no send_multipart: a request is one frame
      let _ = timeout(Duration::from_millis(400), self.peers[k].send(tagged(mid, 0, 1, false))).await;
      return;
    }
    let _ = timeout(Duration::from_millis(400), self.peers[k].send_multipart(fs)).await;
  }

  async fn step(&mut self, st: &str) {
    match st {
      "-" => {}
      "r" | "r0" => {
        self.peer_recv(0).await;
      }
      "r1" => {
        self.peer_recv(1).await;
      }
      "ra" => {
        for k in 0..self.peers.len() {
          self.peer_recv(k).await;
        }
      }
      "s1" => self.peer_send(0, 1).await,
      "s3" => self.peer_send(0, 3).await,
      "a" | "a2" => {
        // REP peer: take the request, answer it
        if let Ok(Ok(fs)) = timeout(QUIET, self.peers[0].recv_multipart()).await {
          let b = bytes_of_msgs(&fs);
          self.plog[0].push(classify(&b));
          let mid = self.next_mid;
          self.next_mid += 1;
          let cnt = if st == "a2" { 2 } else { 1 };
          let _ = timeout(Duration::from_millis(400), self.peers[0].send_multipart(frames_of(mid, cnt))).await;
        }
      }
      "w" => sleep(WAIT_TMO).await,
      "c" => self.connect().await,
      other => panic!("unknown script step {other}"),
    }
  }

  async fn connect(&mut self) {
    if !self.connected {
      self.connected = true;
      let _ = self.subj.connect(&self.ep).await;
      sleep(Duration::from_millis(40)).await;
    }
  }

  async fn drain_peers(&mut self) {
    for k in 0..self.peers.len() {
      while self.peer_recv(k).await {}
    }
  }
}

/// poll `fut` by hand; after the i-th Pending apply script[i-1] (or `auto`); drop it after the n-th Pending
async fn drive<'a, T>(
  mut fut: Pin<Box<dyn Future<Output = T> + 'a>>, n: usize, script: &[String], auto: &str, env: &mut Env,
) -> (Option<T>, u64) {
  let mut p = 0usize;
  loop {
    match futures::poll!(fut.as_mut()) {
      Poll::Ready(r) => return (Some(r), p as u64),
      Poll::Pending => {
        p += 1;
        if n != 0 && p == n {
          drop(fut);
          return (None, p as u64);
        }
        if p > 16 {
          drop(fut);
          return (None, 99);
        }
        let st = script.get(p - 1).map(|s| s.as_str()).unwrap_or(auto);
        env.step(st).await;
        sleep(SETTLE).await;
      }
    }
  }
}

fn code<T>(r: &(Option<Result<T, ZmqError>>, u64)) -> u64 {
  match r {
    (Some(x), _) => rc(x),
    (None, 99) => 7,
    (None, _) => 0,
  }
}

/// the send-type calls of the scenarios
#[derive(Clone)]
enum SOp {
  Send(Msg),
  Mp(Vec<Msg>),
}

fn sfut<'a>(s: &'a Socket, op: SOp) -> Pin<Box<dyn Future<Output = Result<(), ZmqError>> + 'a>> {
  match op {
    SOp::Send(m) => Box::pin(async move { s.send(m).await }),
    SOp::Mp(fs) => Box::pin(async move { s.send_multipart(fs).await }),
  }
}

/// run a send-type call to completion, the peers reading one message per Pending
async fn complete_send(s: &Socket, op: SOp, env: &mut Env) -> u64 {
  let r = drive(sfut(s, op), 0, &[], "ra", env).await;
  code(&r)
}

/// saturate the path subject -> peers: send prefill messages (ids from `first`) until one parks, then let
/// the peers read until it completes.  Afterwards every stage is full.  Returns the number sent.
async fn fill(s: &Socket, env: &mut Env, first: u64, mk: &dyn Fn(u64) -> SOp) -> u64 {
  let mut k = 0u64;
  loop {
    let mut fut = sfut(s, mk(first + k));
    k += 1;
    match futures::poll!(fut.as_mut()) {
      Poll::Ready(_) => {
        sleep(SETTLE).await;
        if k >= 40 {
          return k;
        }
      }
      Poll::Pending => {
        let r = drive(fut, 0, &[], "ra", env).await;
        let _ = r;
        sleep(SETTLE).await;
        return k;
      }
    }
  }
}

fn with_id(id: &[u8], mut fs: Vec<Msg>) -> Vec<Msg> {
  let mut idm = Msg::from_vec(id.to_vec());
  idm.set_flags(MsgFlags::MORE);
  fs.insert(0, idm);
  fs
}

fn strs(v: &Value) -> Vec<String> {
  v.as_array().map(|a| a.iter().map(|x| x.as_str().unwrap().to_string()).collect()).unwrap_or_default()
}

async fn mk_socket(ctx: &Context, ty: &str, opts: Value) -> Socket {
  let s = ctx.socket(stype_of(ty)).expect("socket");
  apply_opts(&s, &opts).await;
  s
}

fn endpoint(tr: &str) -> String {
  let n = EP.fetch_add(1, Ordering::Relaxed);
  match tr {
    "tcp" => format!("tcp://127.0.0.1:{}", crate::stack::free_port()),
    "ipc" => format!("ipc:///var/tmp/vh_c09_{}_{}.sock", std::process::id(), n),
    _ => format!("inproc://c09_{}_{}", std::process::id(), n),
  }
}

/// app-side receive call, result as (code, frame/message codes)
async fn app_recv(s: &Socket, mp: bool) -> (u64, Vec<u64>) {
  if mp {
    match s.recv_multipart().await {
      Ok(fs) => (1, vec![classify_app(&bytes_of_msgs(&fs))]),
      Err(e) => (rc::<()>(&Err(e)), vec![]),
    }
  } else {
    match s.recv().await {
      Ok(m) => (1, vec![frame_code(m.data().unwrap_or(&[]))]),
      Err(e) => (rc::<()>(&Err(e)), vec![]),
    }
  }
}

/// ROUTER applications see [identity, payload..]: an untagged first frame is dropped before judging
fn classify_app(b: &[Vec<u8>]) -> u64 {
  if !b.is_empty() && tag_of(&b[0]).is_none() && !b[0].is_empty() && b.len() > 1 {
    classify(&b[1..])
  } else {
    classify(b)
  }
}

fn rfut<'a>(s: &'a Socket, mp: bool) -> Pin<Box<dyn Future<Output = Result<Vec<u64>, ZmqError>> + 'a>> {
  if mp {
    Box::pin(async move { s.recv_multipart().await.map(|fs| vec![classify_app(&bytes_of_msgs(&fs))]) })
  } else {
    Box::pin(async move { s.recv().await.map(|m| vec![frame_code(m.data().unwrap_or(&[]))]) })
  }
}

async fn scenario(c: &Value) -> Value {
  let kind = c["kind"].as_str().unwrap();
  let op = c["op"].as_str().unwrap_or("");
  let var = c["var"].as_str().unwrap_or("");
  let tmo = c["tmo"].as_u64().unwrap_or(0) != 0;
  let n = c["n"].as_u64().unwrap_or(0) as usize;
  let script = strs(&c["script"]);
  let tr = c["transport"].as_str().unwrap_or("inproc");
  let mand = c["mand"].as_u64().unwrap_or(1);
  let ctx = Context::new().expect("ctx");
  let ep = endpoint(tr);
  let sto = if tmo { TMO_MS } else { -1 };
  let mut rows: Vec<Vec<u64>> = Vec::new();
  let mut detail = json!({});

  // ---- set-up: subject + peers
  let (sty, ptys, subj_binds): (&str, Vec<&str>, bool) = match kind {
    "push" => ("PUSH", vec!["PULL"], false),
    "pub" => ("PUB", vec!["SUB", "SUB"], true),
    "req" => ("REQ", vec!["REP"], false),
    "rep" => ("REP", vec![if op == "send" || op == "mp" { "DEALER" } else { "REQ" }], true),
    "dealer" => ("DEALER", vec!["ROUTER"], false),
    "router" => ("ROUTER", vec!["DEALER"], true),
    "pull" => ("PULL", vec!["PUSH"], true),
    "sub" => ("SUB", vec!["PUB"], false),
    other => panic!("kind {other}"),
  };
  let subj_id = b"SUBJ".to_vec();
  let mut sopts = json!({"SNDHWM": 1, "RCVHWM": 1, "SNDTIMEO": sto, "RCVTIMEO": sto, "LINGER": 0});
  if sty == "ROUTER" {
    sopts["ROUTER_MANDATORY"] = json!(mand);
  }
  if sty == "DEALER" || sty == "REQ" {
    sopts["ROUTING_ID"] = json!(subj_id.iter().map(|&b| b as u64).collect::<Vec<_>>());
  }
  if sty == "SUB" {
    sopts["SUBSCRIBE"] = json!([]);
  }
  let subj = mk_socket(&ctx, sty, sopts).await;
  let mut peers = Vec::new();
  for (i, pt) in ptys.iter().enumerate() {
    let mut po = json!({"SNDHWM": 50, "RCVHWM": 1, "LINGER": 0});
    if *pt == "DEALER" {
      po["ROUTING_ID"] = json!([80, 49 + i as u64]); // "P1"
    }
    if *pt == "SUB" {
      po["SUBSCRIBE"] = json!([]);
    }
    if *pt == "ROUTER" {
      po["ROUTER_MANDATORY"] = json!(1);
    }
    peers.push(mk_socket(&ctx, pt, po).await);
  }
  let late_connect = var == "nopeer";
  if subj_binds {
    subj.bind(&ep).await.expect("bind");
    for p in &peers {
      p.connect(&ep).await.expect("connect");
    }
  } else {
    peers[0].bind(&ep).await.expect("bind");
    if !late_connect {
      subj.connect(&ep).await.expect("connect");
    }
  }
  sleep(Duration::from_millis(if tr == "inproc" { 40 } else { 120 })).await;
  let mut env = Env {
    subj: subj.clone(),
    ep: ep.clone(),
    plog: vec![Vec::new(); peers.len()],
    ptype: ptys.iter().map(|s| s.to_string()).collect(),
    peers,
    raw: Vec::new(),
    next_mid: 100,
    connected: !late_connect,
    subj_id: subj_id.clone(),
  };
  let pid = b"P1".to_vec();
  let mut app: Vec<u64> = Vec::new(); // row 5
  let mut fol: Vec<u64> = Vec::new(); // row 2
  let r_op: u64;
  let mut pend = 0u64;

  match (kind, op) {
    // ------------------------------------------------------------ one-way senders
    ("push", _) | ("pub", _) | ("dealer", "send") | ("dealer", "mp") => {
      let single = op == "send";
      let mk = move |mid: u64| if single { SOp::Send(tagged(mid, 0, 1, false)) } else { SOp::Mp(frames_of(mid, 3)) };
      if var == "bp" {
        let k = fill(&subj, &mut env, 1, &|m| SOp::Mp(frames_of(m, 2))).await;
        detail["prefill"] = json!(k);
      } else if var == "nopeer" && kind == "dealer" {
        // SNDHWM = 1: the first message sits in the pending queue, the next one has to wait for room
        let r = complete_send(&subj, SOp::Mp(frames_of(1, 2)), &mut env).await;
        detail["prefill_rc"] = json!(r);
      }
      let r = drive(sfut(&subj, mk(100)), n, &script, "ra", &mut env).await;
      pend = r.1;
      r_op = code(&r);
      env.connect().await;
      // follow-up: the application sends the next message (a retry carries a new id)
      fol.push(complete_send(&subj, mk(101), &mut env).await);
    }
    ("dealer", "waiter") => {
      // two application tasks share the socket: task A sends a message part by part, task B's
      // send_multipart() has to wait for A's transaction.  A's LAST part parks on the full pipe and is
      // dropped after its n-th Pending (n = 0: it completes).  B must get its turn either way.
      if var == "bp" {
        let k = fill(&subj, &mut env, 1, &|m| SOp::Mp(frames_of(m, 2))).await;
        detail["prefill"] = json!(k);
      }
      fol.push(complete_send(&subj, SOp::Send(tagged(100, 0, 2, true)), &mut env).await);
      let mut fb = sfut(&subj, SOp::Mp(frames_of(150, 2)));
      let b_first = matches!(futures::poll!(fb.as_mut()), Poll::Pending);
      detail["b_parked"] = json!(b_first);
      let r = drive(sfut(&subj, SOp::Send(tagged(100, 1, 2, false))), n, &script, "ra", &mut env).await;
      pend = r.1;
      r_op = code(&r);
      // B is polled while the peer reads: it must complete (the transaction is over)
      let rb = drive(fb, 0, &[], "ra", &mut env).await;
      fol.push(code(&rb));
      fol.push(complete_send(&subj, SOp::Mp(frames_of(101, 3)), &mut env).await);
    }
    ("dealer", "parts") => {
      // p0, p1 with MORE are buffered; the last part is the call under test
      if var == "bp" {
        let k = fill(&subj, &mut env, 1, &|m| SOp::Mp(frames_of(m, 2))).await;
        detail["prefill"] = json!(k);
      }
      fol.push(complete_send(&subj, SOp::Send(tagged(100, 0, 3, true)), &mut env).await);
      fol.push(complete_send(&subj, SOp::Send(tagged(100, 1, 3, true)), &mut env).await);
      let r = drive(sfut(&subj, SOp::Send(tagged(100, 2, 3, false))), n, &script, "ra", &mut env).await;
      pend = r.1;
      r_op = code(&r);
      if r_op != 1 {
        // the application retries the call that did not complete
        fol.push(complete_send(&subj, SOp::Send(tagged(100, 2, 3, false)), &mut env).await);
      }
      fol.push(complete_send(&subj, SOp::Mp(frames_of(101, 3)), &mut env).await);
    }
    // ------------------------------------------------------------ REQ
    ("req", "send") => {
      let r = drive(sfut(&subj, SOp::Send(tagged(150, 0, 1, false))), n, &script, "c", &mut env).await;
      pend = r.1;
      r_op = code(&r);
      env.connect().await; // make sure the peer is there for the follow-up
      if r_op != 1 {
        fol.push(complete_send(&subj, SOp::Send(tagged(151, 0, 1, false)), &mut env).await);
      }
      env.step("a").await; // REP takes the request and answers with id 100
      sleep(SETTLE).await;
      let (rcode, got) = match timeout(QUIET, app_recv(&subj, true)).await {
        Ok(x) => x,
        Err(_) => (7, vec![]),
      };
      fol.push(rcode);
      app.extend(got);
    }
    ("req", "recv") | ("req", "mp") => {
      let mp = op == "mp";
      fol.push(complete_send(&subj, SOp::Send(tagged(150, 0, 1, false)), &mut env).await);
      sleep(SETTLE).await;
      let r = drive(rfut(&subj, mp), n, &script, "a", &mut env).await;
      pend = r.1;
      r_op = code(&r);
      if let (Some(Ok(v)), _) = &r {
        app.extend(v.iter());
      }
      if r_op != 1 {
        // next valid call: the reply is still owed -> recv again (the peer answers if it has not yet)
        let r2 = drive(rfut(&subj, mp), 0, &[], "a", &mut env).await;
        fol.push(code(&r2));
        if let (Some(Ok(v)), _) = &r2 {
          app.extend(v.iter());
        }
      }
      // a second round trip shows the socket is usable: request 51, reply (next id), recv
      fol.push(complete_send(&subj, SOp::Send(tagged(151, 0, 1, false)), &mut env).await);
      sleep(SETTLE).await;
      let r3 = drive(rfut(&subj, true), 0, &[], "a", &mut env).await;
      fol.push(code(&r3));
      if let (Some(Ok(v)), _) = &r3 {
        app.extend(v.iter());
      }
    }
    // ------------------------------------------------------------ REP
    ("rep", "recv") | ("rep", "rmp") => {
      let mp = op == "rmp";
      let r = drive(rfut(&subj, mp), n, &script, "s1", &mut env).await;
      pend = r.1;
      r_op = code(&r);
      if let (Some(Ok(v)), _) = &r {
        app.extend(v.iter());
      }
      if r_op != 1 {
        let r2 = drive(rfut(&subj, mp), 0, &[], "s1", &mut env).await;
        fol.push(code(&r2));
        if let (Some(Ok(v)), _) = &r2 {
          app.extend(v.iter());
        }
      }
      // answer it; the REQ peer must get the reply
      fol.push(complete_send(&subj, SOp::Send(tagged(160, 0, 1, false)), &mut env).await);
      sleep(SETTLE).await;
    }
    ("rep", "send") | ("rep", "mp") => {
      // DEALER peer sends requests and does not read the replies
      let single = op == "send";
      let reply = move |mid: u64| if single { SOp::Send(tagged(mid, 0, 1, false)) } else { SOp::Mp(frames_of(mid, 3)) };
      let mut k = 0u64;
      if var == "bp" {
        // replies 1, 2, .. until one parks; that one is completed with the peer reading
        while k < 40 {
          env.peer_send(0, 1).await;
          sleep(SETTLE).await;
          if !matches!(timeout(QUIET, subj.recv_multipart()).await, Ok(Ok(_))) {
            break;
          }
          k += 1;
          let mut fut = sfut(&subj, SOp::Mp(frames_of(k, 2)));
          match futures::poll!(fut.as_mut()) {
            Poll::Ready(_) => sleep(SETTLE).await,
            Poll::Pending => {
              let _ = drive(fut, 0, &[], "ra", &mut env).await;
              sleep(SETTLE).await;
              break;
            }
          }
        }
        detail["prefill"] = json!(k);
      }
      env.peer_send(0, 1).await;
      sleep(SETTLE).await;
      let got = timeout(QUIET, subj.recv_multipart()).await;
      detail["request_taken"] = json!(matches!(got, Ok(Ok(_))));
      let r = drive(sfut(&subj, reply(200)), n, &script, "ra", &mut env).await;
      pend = r.1;
      r_op = code(&r);
      if r_op != 1 {
        // the reply did not go out: the application retries it
        fol.push(complete_send(&subj, SOp::Mp(frames_of(201, 2)), &mut env).await);
      }
      // next request / reply: the socket must still serve
      env.peer_send(0, 1).await;
      sleep(SETTLE).await;
      let g = match timeout(QUIET, app_recv(&subj, true)).await {
        Ok(x) => x.0,
        Err(_) => 7,
      };
      fol.push(g);
      fol.push(complete_send(&subj, SOp::Mp(frames_of(202, 2)), &mut env).await);
    }
    // ------------------------------------------------------------ ROUTER sends
    ("router", _) if op == "mp" || op.starts_with("parts") => {
      // learn the peer: it says hello
      env.peer_send(0, 1).await;
      sleep(SETTLE).await;
      let _ = timeout(QUIET, subj.recv_multipart()).await;
      let pid2 = pid.clone();
      if var == "bp" {
        let k = fill(&subj, &mut env, 1, &|m| SOp::Mp(with_id(&pid2, frames_of(m, 2)))).await;
        detail["prefill"] = json!(k);
      }
      let free = c["free"].as_u64().unwrap_or(0);
      for _ in 0..free {
        env.peer_recv(0).await;
        sleep(SETTLE).await;
      }
      let idm = || {
        let mut m = Msg::from_vec(pid.clone());
        m.set_flags(MsgFlags::MORE);
        m
      };
      match op {
        "mp" => {
          let r = drive(sfut(&subj, SOp::Mp(with_id(&pid, frames_of(100, 3)))), n, &script, "ra", &mut env).await;
          pend = r.1;
          r_op = code(&r);
        }
        "parts_first" => {
          let r = drive(sfut(&subj, SOp::Send(idm())), n, &script, "ra", &mut env).await;
          pend = r.1;
          r_op = code(&r);
          if r_op == 1 {
            // the envelope is open: finish the message
            fol.push(complete_send(&subj, SOp::Send(tagged(100, 0, 2, true)), &mut env).await);
            fol.push(complete_send(&subj, SOp::Send(tagged(100, 1, 2, false)), &mut env).await);
          }
        }
        "parts_mid" => {
          fol.push(complete_send(&subj, SOp::Send(idm()), &mut env).await);
          let r = drive(sfut(&subj, SOp::Send(tagged(100, 0, 2, true))), n, &script, "ra", &mut env).await;
          pend = r.1;
          r_op = code(&r);
          if r_op == 0 {
            // dropped: the application retries the part and finishes the message
            fol.push(complete_send(&subj, SOp::Send(tagged(100, 0, 2, true)), &mut env).await);
            fol.push(complete_send(&subj, SOp::Send(tagged(100, 1, 2, false)), &mut env).await);
          } else if r_op == 1 {
            fol.push(complete_send(&subj, SOp::Send(tagged(100, 1, 2, false)), &mut env).await);
          }
        }
        "parts_last" => {
          fol.push(complete_send(&subj, SOp::Send(idm()), &mut env).await);
          fol.push(complete_send(&subj, SOp::Send(tagged(100, 0, 2, true)), &mut env).await);
          let r = drive(sfut(&subj, SOp::Send(tagged(100, 1, 2, false))), n, &script, "ra", &mut env).await;
          pend = r.1;
          r_op = code(&r);
          if r_op == 0 {
            fol.push(complete_send(&subj, SOp::Send(tagged(100, 1, 2, false)), &mut env).await);
          }
        }
        other => panic!("router op {other}"),
      }
      // the next message to the same peer, sent whole
      fol.push(complete_send(&subj, SOp::Mp(with_id(&pid, frames_of(101, 3))), &mut env).await);
    }
    // ------------------------------------------------------------ receivers
    ("pull", _) | ("sub", _) | ("dealer", "recv") | ("dealer", "rmp") | ("router", "recv") | ("router", "rmp") => {
      let mp = op == "mp" || op == "rmp";
      let nfr = c["frames"].as_u64().unwrap_or(1);
      let total = c["msgs"].as_u64().unwrap_or(2);
      if kind == "dealer" || kind == "router" {
        // the ROUTER side has to know its peer before it can address it
        if kind == "dealer" {
          let _ = complete_send(&subj, SOp::Send(tagged(9, 0, 1, false)), &mut env).await;
          sleep(SETTLE).await;
          env.peer_recv(0).await;
        }
      }
      let auto = if nfr == 3 { "s3" } else { "s1" };
      let r = drive(rfut(&subj, mp), n, &script, auto, &mut env).await;
      pend = r.1;
      r_op = code(&r);
      if let (Some(Ok(v)), _) = &r {
        app.extend(v.iter());
      }
      // make sure `total` messages have been sent in all, then read everything
      while env.next_mid < 100 + total {
        env.step(auto).await;
        sleep(SETTLE).await;
      }
      loop {
        match timeout(Duration::from_millis(450), app_recv(&subj, mp)).await {
          Ok((1, v)) => {
            fol.push(1);
            app.extend(v);
          }
          Ok((e, _)) => {
            if e != 2 {
              fol.push(e);
            }
            break;
          }
          Err(_) => break,
        }
        if fol.len() > 12 {
          break;
        }
      }
    }
    other => panic!("unknown scenario {other:?}"),
  }

  // ---- accounting: everything on its way arrives
  sleep(SETTLE).await;
  env.drain_peers().await;
  if kind == "rep" && (op == "recv" || op == "rmp") {
    // the REQ peer reads the reply
  }
  rows.push(vec![1, r_op]);
  let mut r2 = vec![2];
  r2.extend(fol);
  rows.push(r2);
  let mut plogs: Vec<Vec<u64>> = env.plog.clone();
  for l in plogs.iter_mut() {
    // prefill messages (ids < 100) that arrived whole are not part of the outcome
    l.retain(|&x| x >= 100);
  }
  if kind == "pub" {
    plogs.sort();
  }
  for (i, l) in plogs.iter().enumerate() {
    let mut r = vec![3 + i as u64];
    r.extend(l.iter());
    rows.push(r);
  }
  let mut r5 = vec![5];
  r5.extend(app);
  rows.push(r5);
  detail["pendings"] = json!(pend);
  detail["raw"] = json!(env.raw);
  for p in env.peers.iter() {
    let _ = timeout(Duration::from_millis(300), p.close()).await;
  }
  let _ = timeout(Duration::from_millis(300), subj.close()).await;
  let _ = timeout(Duration::from_millis(800), ctx.term()).await;
  json!({"rows": rows, "pendings": pend, "detail": detail})
}

/// Failing-input search for "dropping a send() is a no-op", REQ at its pipe-write await: a REQ only reaches a full
/// path through a sequence - the REP never reads (RCVHWM=1), SNDHWM=1, each recv() of the REQ times out (RCVTIMEO)
/// and ends the cycle. Requests are issued until a send() is still pending after `drop_ms` and is dropped there;
/// then the next send() is probed, the REP drains and a send() must complete.
/// rows: [[80, dropped_seen, accepted_before, code of the next send (0 Ok, 1 still pending, 2 InvalidState, 9 other),
///         a send completes after the REP drained]]
async fn req_backpressure(c: &Value) -> Value {
  let drop_ms = c["drop_ms"].as_u64().unwrap_or(300);
  let ctx = Context::new().expect("ctx");
  let ep = endpoint(c["transport"].as_str().unwrap_or("inproc"));
  let rep = mk_socket(&ctx, "REP", json!({"RCVHWM": 1, "SNDHWM": 1, "LINGER": 0, "RCVTIMEO": 300})).await;
  rep.bind(&ep).await.expect("bind");
  let req = mk_socket(&ctx, "REQ", json!({"SNDHWM": 1, "RCVHWM": 1, "RCVTIMEO": 50, "LINGER": 0})).await;
  req.connect(&ep).await.expect("connect");
  sleep(Duration::from_millis(120)).await;
  let big = if ep.starts_with("inproc") { 32 } else { 200 * 1024 };
  let code = |r: Result<Result<(), ZmqError>, tokio::time::error::Elapsed>| -> u64 {
    match r {
      Ok(Ok(())) => 0,
      Err(_) => 1,
      Ok(Err(ZmqError::InvalidState(_))) => 2,
      Ok(Err(_)) => 9,
    }
  };
  let mut accepted = 0u64;
  let mut dropped = 0u64;
  let mut next = 9u64;
  for i in 0..60u64 {
    let r = timeout(Duration::from_millis(drop_ms), req.send(Msg::from_vec(vec![i as u8; big]))).await;
    match r {
      Ok(Ok(())) => {
        accepted += 1;
        let _ = timeout(Duration::from_millis(2000), req.recv()).await; // nobody answers: RCVTIMEO ends the cycle
      }
      Err(_) => {
        // the send() future was still pending and has just been dropped
        dropped = 1;
        next = code(timeout(Duration::from_millis(300), req.send(Msg::from_vec(vec![0xEE; big]))).await);
        break;
      }
      Ok(Err(_)) => break,
    }
  }
  // the REP drains (and answers) what is queued; afterwards a send must get through
  let mut completes = 0u64;
  if dropped == 1 {
    for _ in 0..40 {
      if let Ok(Ok(_)) = timeout(Duration::from_millis(100), rep.recv()).await {
        let _ = timeout(Duration::from_millis(100), rep.send(Msg::from_vec(b"ok".to_vec()))).await;
      }
      let _ = timeout(Duration::from_millis(100), req.recv()).await;
      if let Ok(Ok(())) = timeout(Duration::from_millis(100), req.send(Msg::from_vec(vec![0xAB; 16]))).await {
        completes = 1;
        break;
      }
    }
  }
  let _ = timeout(Duration::from_millis(300), req.close()).await;
  let _ = timeout(Duration::from_millis(300), rep.close()).await;
  json!({"rows": [[80, dropped, accepted, next, completes]], "pendings": dropped})
}

/// Failing-input search for "a dropped recv() loses nothing", inside a REAL tokio task (where the cooperative budget
/// applies): `n` messages are queued on a PULL/DEALER socket, then one task polls each recv() exactly once and drops
/// the future when it is Pending (yielding before the next try).
/// rows: [[81, sent, received, in order]]
async fn poll_once_drain(c: &Value) -> Value {
  let n = c["n"].as_u64().unwrap_or(200);
  let tr = c["transport"].as_str().unwrap_or("inproc").to_string();
  let ctx = Context::new().expect("ctx");
  let ep = endpoint(&tr);
  let pull = mk_socket(&ctx, "PULL", json!({"RCVHWM": 1000, "LINGER": 0})).await;
  pull.bind(&ep).await.expect("bind");
  let push = mk_socket(&ctx, "PUSH", json!({"SNDHWM": 1000, "LINGER": 0})).await;
  push.connect(&ep).await.expect("connect");
  sleep(Duration::from_millis(150)).await;
  for i in 0..n {
    let _ = timeout(Duration::from_secs(2), push.send(Msg::from_vec((i as u32).to_be_bytes().to_vec()))).await;
  }
  sleep(Duration::from_millis(300)).await; // everything is queued at the receiver
  let p2 = pull.clone();
  let h = tokio::spawn(async move {
    let mut got: Vec<u32> = Vec::new();
    let mut idle = 0u32;
    while (got.len() as u64) < n && idle < 400 {
      let fut = p2.recv();
      tokio::pin!(fut);
      match futures::poll!(fut.as_mut()) {
        Poll::Ready(Ok(m)) => {
          let d = m.data().unwrap_or(&[]);
          if d.len() == 4 {
            got.push(u32::from_be_bytes([d[0], d[1], d[2], d[3]]));
          }
          idle = 0;
        }
        Poll::Ready(Err(_)) => break,
        Poll::Pending => {
          // the future is dropped here, still pending
          idle += 1;
          tokio::task::yield_now().await;
          if idle % 50 == 0 {
            sleep(Duration::from_millis(5)).await;
          }
        }
      }
    }
    got
  });
  let got = timeout(Duration::from_secs(15), h).await.ok().and_then(|r| r.ok()).unwrap_or_default();
  let in_order = got.windows(2).all(|w| w[0] < w[1]);
  let _ = timeout(Duration::from_millis(300), push.close()).await;
  let _ = timeout(Duration::from_millis(300), pull.close()).await;
  let missing: Vec<u64> = (0..n as u32).filter(|x| !got.contains(x)).take(6).map(|x| x as u64).collect();
  json!({"rows": [[81, n, got.len() as u64, in_order as u64]], "pendings": 0, "missing": missing})
}

pub fn run_case(c: &Value) -> Value {
  let rt = tokio::runtime::Builder::new_current_thread().enable_all().build().unwrap();
  let c2 = c.clone();
  let res = std::panic::catch_unwind(std::panic::AssertUnwindSafe(|| {
    rt.block_on(async move {
      let fut = async {
        if c2["kind"].as_str() == Some("reqbp") {
          req_backpressure(&c2).await
        } else if c2["kind"].as_str() == Some("pollonce") {
          poll_once_drain(&c2).await
        } else {
          scenario(&c2).await
        }
      };
      match timeout(Duration::from_secs(25), fut).await {
        Ok(v) => v,
        Err(_) => json!({"rows": [[96]], "pendings": 0}),
      }
    })
  }));
  match res {
    Ok(v) => v,
    Err(_) => json!({"rows": [[97]], "pendings": 0}),
  }
}
