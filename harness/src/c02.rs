//! C02: multipart messages stay whole - executed on the real code.
//!
//! case kinds
//!   fb    : op history on the public `FrameBatch` (push/insert/remove/pop/extend/from vec/with_capacity),
//!           every op under catch_unwind; the case stops at the first panic (the batch is torn afterwards)
//!   ing   : op history on the real `AnonymousIngressEngine` (facade): register / enqueue / recv / recv_multipart /
//!           deregister / close, RCVTIMEO = 0 so that an empty queue answers immediately
//!   seq   : one sender, one receiver over real sockets; all messages come from one connection, so the order in the
//!           receiver's queue is fixed; a script of recv / recv_multipart calls is replayed (DEALER/ROUTER
//!           `frame_recv_buffer`, PULL local cache, REQ/REP first-frame recv)
//!   stack : 1..3 sending peers, one receiver, tcp or inproc, frames carrying (sender, msg id, index, count),
//!           receive styles frames / multipart / mixed, idle peers attached / detached while a message is half
//!           read, messages of up to 300 frames sent with send_multipart or part by part
//!   fanout: one bound PUSH / DEALER, two receivers; messages sent part by part or with send_multipart
use crate::util::*;
use rzmq::socket::options::{AUTO_DELIMITER, LAST_ENDPOINT, LINGER, RCVHWM, RCVTIMEO, ROUTING_ID, SNDHWM, SNDTIMEO, SUBSCRIBE};
use rzmq::verif::ingress::{VAnonIngress, VPipeSender};
use rzmq::{Context, FrameBatch, Msg, MsgFlags, Socket, SocketType, ZmqError};
use serde_json::{json, Value};
use std::panic::{catch_unwind, AssertUnwindSafe};
use std::sync::atomic::{AtomicUsize, Ordering};
use std::sync::Mutex;
use std::time::Duration;

/// panics seen on threads named "c02-<case index>" (each socket scenario runs on its own runtime with such threads)
static PANIC_LOG: Mutex<Vec<(usize, String)>> = Mutex::new(Vec::new());

fn install_hook() {
  std::panic::set_hook(Box::new(|info| {
    let name = std::thread::current().name().map(|s| s.to_string()).unwrap_or_default();
    if let Some(i) = name.strip_prefix("c02-").and_then(|x| x.parse::<usize>().ok()) {
      let loc = info.location().map(|l| format!("{}:{}", l.file(), l.line())).unwrap_or_default();
      if let Ok(mut g) = PANIC_LOG.lock() {
        g.push((i, loc));
      }
    }
  }));
}
fn panics_of(i: usize) -> Vec<String> {
  PANIC_LOG.lock().map(|g| g.iter().filter(|(k, _)| *k == i).map(|(_, l)| l.clone()).collect()).unwrap_or_default()
}

// ------------------------------------------------------------------ FrameBatch histories

fn el(id: u64) -> Msg {
  Msg::from_vec(vec![(id >> 8) as u8, (id & 255) as u8])
}
fn el_id(m: &Msg) -> u64 {
  match m.data() {
    Some(d) if d.len() == 2 => ((d[0] as u64) << 8) | d[1] as u64,
    _ => 70000,
  }
}
/// [len, is_empty, first, last, sum((i+1)*id) mod 1000003]
fn fb_digest(b: &FrameBatch) -> Vec<u64> {
  let n = b.len();
  let mut s = 0u64;
  for (i, m) in b.iter().enumerate() {
    s = (s + (i as u64 + 1) * el_id(m)) % 1_000_003;
  }
  let first = if n > 0 { el_id(&b[0]) } else { 0 };
  let last = if n > 0 { el_id(&b[n - 1]) } else { 0 };
  vec![n as u64, b.is_empty() as u64, first, last, s]
}

fn run_fb(c: &Value) -> Value {
  let mut rows: Vec<Vec<u64>> = Vec::new();
  let mut fb = FrameBatch::new();
  for op in c["ops"].as_array().unwrap() {
    let k = op["o"].as_str().unwrap();
    let a = op["a"].as_u64().unwrap_or(0);
    let x = op["x"].as_u64().unwrap_or(0);
    // (code, returned element + 1 or 0)
    let res = catch_unwind(AssertUnwindSafe(|| -> (u64, u64) {
      match k {
        "new" => {
          fb = FrameBatch::new();
          (0, 0)
        }
        "cap" => {
          fb = FrameBatch::with_capacity(a as usize);
          (1, 0)
        }
        "from" => {
          let v: Vec<Msg> = (0..a).map(|i| el(x + i)).collect();
          fb = FrameBatch::from(v);
          (2, 0)
        }
        "push" => {
          fb.push(el(x));
          (3, 0)
        }
        "insert" => {
          fb.insert(a as usize, el(x));
          (4, 0)
        }
        "remove" => {
          let m = fb.remove(a as usize);
          (5, el_id(&m) + 1)
        }
        "pop" => match fb.pop() {
          Some(m) => (6, el_id(&m) + 1),
          None => (6, 0),
        },
        "extend" => {
          fb.extend((0..a).map(|i| el(x + i)));
          (7, 0)
        }
        "index" => (8, el_id(&fb[a as usize]) + 1),
        other => panic!("unknown fb op {other}"),
      }
    }));
    match res {
      Ok((code, ret)) => {
        let mut r = vec![code, 0, ret];
        r.extend(fb_digest(&fb));
        rows.push(r);
      }
      Err(_) => {
        let code = match k {
          "new" => 0,
          "cap" => 1,
          "from" => 2,
          "push" => 3,
          "insert" => 4,
          "remove" => 5,
          "pop" => 6,
          "extend" => 7,
          _ => 8,
        };
        rows.push(vec![code, 1]);
        break;
      }
    }
  }
  json!({ "rows": rows })
}

// ------------------------------------------------------------------ AnonymousIngressEngine histories

fn small_frame(v: &Value) -> Msg {
  let mut m = Msg::from_vec(bytes_of(&v["d"]));
  if b(v, "m") {
    m.set_flags(MsgFlags::MORE);
  }
  m
}
fn frame_row(tag: u64, m: &Msg) -> Vec<u64> {
  let mut r = vec![tag, m.is_more() as u64];
  r.extend(m.data().unwrap_or(&[]).iter().map(|&x| x as u64));
  r
}

fn run_ing(c: &Value) -> Value {
  let rt = tokio::runtime::Builder::new_current_thread().enable_all().build().unwrap();
  let mut rows: Vec<Vec<u64>> = Vec::new();
  let eng = VAnonIngress::new(64);
  let mut senders: Vec<VPipeSender> = Vec::new();
  let zero = Some(Duration::ZERO);
  for op in c["ops"].as_array().unwrap() {
    match op["o"].as_str().unwrap() {
      "reg" => {
        senders.push(eng.register_pipe(u(op, "p") as usize, 4096, 1));
        rows.push(vec![4]);
      }
      "enq" => {
        let h = u(op, "h") as usize;
        // shape 0: pushes; shape 1: FrameBatch::with_capacity(n + 3) then pushes (a `Many` even when short)
        let frames: Vec<Msg> = op["f"].as_array().unwrap().iter().map(small_frame).collect();
        let mut fb = if u(op, "shape") == 1 { FrameBatch::with_capacity(frames.len() + 3) } else { FrameBatch::new() };
        for m in frames {
          fb.push(m);
        }
        let code = senders[h].try_send_sync(fb);
        rows.push(vec![3, (code == 0) as u64]);
      }
      "recv" => {
        let r = catch_unwind(AssertUnwindSafe(|| rt.block_on(eng.recv(zero))));
        match r {
          Ok(Ok(m)) => {
            rows.push(vec![1, 0]);
            rows.push(frame_row(7, &m));
          }
          Ok(Err(ZmqError::ResourceLimitReached)) => rows.push(vec![1, 1]),
          Ok(Err(_)) => rows.push(vec![1, 3]),
          Err(_) => rows.push(vec![1, 2]),
        }
      }
      "recvmp" => {
        let r = catch_unwind(AssertUnwindSafe(|| rt.block_on(eng.recv_multipart(zero))));
        match r {
          Ok(Ok(fb)) => {
            rows.push(vec![2, 0, fb.len() as u64]);
            for m in fb.iter() {
              rows.push(frame_row(7, m));
            }
          }
          Ok(Err(ZmqError::ResourceLimitReached)) => rows.push(vec![2, 1]),
          Ok(Err(_)) => rows.push(vec![2, 3]),
          Err(_) => rows.push(vec![2, 2]),
        }
      }
      "dereg" => {
        eng.deregister_pipe(u(op, "p") as usize);
        rows.push(vec![5]);
      }
      "close" => {
        eng.close();
        rows.push(vec![5]);
      }
      other => panic!("unknown ing op {other}"),
    }
  }
  json!({ "rows": rows })
}

// ------------------------------------------------------------------ real sockets: helpers

fn stype(s: &str) -> SocketType {
  crate::stack::stype_of(s)
}
async fn opt_i32(s: &Socket, o: i32, v: i32) {
  let _ = s.set_option_raw(o, &v.to_ne_bytes()).await;
}
async fn mk_socket(ctx: &Context, ty: &str, rid: Option<&[u8]>, rcvtimeo: i32) -> Socket {
  let s = ctx.socket(stype(ty)).expect("socket");
  opt_i32(&s, RCVTIMEO, rcvtimeo).await;
  opt_i32(&s, SNDTIMEO, 3000).await;
  opt_i32(&s, LINGER, 0).await;
  opt_i32(&s, SNDHWM, 4000).await;
  opt_i32(&s, RCVHWM, 4000).await;
  if let Some(r) = rid {
    let _ = s.set_option_raw(ROUTING_ID, r).await;
  }
  if ty == "SUB" {
    let _ = s.set_option_raw(SUBSCRIBE, b"").await;
  }
  s
}
async fn bind_any(s: &Socket, tcp: bool, tag: &str) -> Option<String> {
  if tcp {
    s.bind("tcp://127.0.0.1:0").await.ok()?;
    let le = s.get_option(LAST_ENDPOINT).await.ok()?;
    Some(String::from_utf8_lossy(&le).to_string())
  } else {
    let e = format!("inproc://c02-{}-{}", std::process::id(), tag);
    s.bind(&e).await.ok()?;
    Some(e)
  }
}

/// frame payload: empty, or [sender, msgid(2), idx(2), count(2), 0xC2, fill...] (len >= 8)
fn tagged(sender: u64, msgid: u64, idx: u64, count: u64, len: u64, more: bool) -> Msg {
  let mut m = if len == 0 {
    Msg::new()
  } else {
    let mut d = vec![
      sender as u8,
      (msgid >> 8) as u8,
      msgid as u8,
      (idx >> 8) as u8,
      idx as u8,
      (count >> 8) as u8,
      count as u8,
      0xC2,
    ];
    d.extend(fill(len.max(8) - 8, sender * 7 + msgid + idx));
    Msg::from_vec(d)
  };
  if more {
    m.set_flags(MsgFlags::MORE);
  }
  m
}
/// [7, more, len] for empty; [7, more, len, 1, sender, msgid, idx, count] for a tagged frame;
/// [7, more, len, 0, first bytes (<= 8)...] otherwise (identity frames)
fn tagged_row(m: &Msg) -> Vec<u64> {
  let d = m.data().unwrap_or(&[]);
  let mut r = vec![7, m.is_more() as u64, d.len() as u64];
  if d.len() >= 8 && d[7] == 0xC2 {
    r.extend([
      1,
      d[0] as u64,
      ((d[1] as u64) << 8) | d[2] as u64,
      ((d[3] as u64) << 8) | d[4] as u64,
      ((d[5] as u64) << 8) | d[6] as u64,
    ]);
  } else if !d.is_empty() {
    r.push(0);
    r.extend(d.iter().take(8).map(|&x| x as u64));
  }
  r
}
/// message spec {"id":n, "sizes":[...], "flags": "ok"|"none"|"all"} -> frames
fn build_message(sender: u64, m: &Value) -> Vec<Msg> {
  let sizes: Vec<u64> = m["sizes"].as_array().unwrap().iter().map(|x| x.as_u64().unwrap()).collect();
  let n = sizes.len() as u64;
  let id = u(m, "id");
  let style = m["flags"].as_str().unwrap_or("ok");
  sizes
    .iter()
    .enumerate()
    .map(|(i, &l)| tagged(sender, id, i as u64, n, l, match style { "none" => false, "all" => true, _ => (i as u64) + 1 < n }))
    .collect()
}
fn err_code(e: &ZmqError) -> u64 {
  match e {
    ZmqError::Timeout => 1,
    ZmqError::ResourceLimitReached => 2,
    ZmqError::InvalidState(_) => 3,
    ZmqError::InvalidMessage(_) => 4,
    ZmqError::HostUnreachable(_) => 5,
    ZmqError::ConnectionClosed => 6,
    ZmqError::UnsupportedFeature(_) => 7,
    _ => 9,
  }
}

/// send one message; `via` = "mp" (send_multipart) or "parts" (send frame by frame); panics are caught per call.
/// returns (code 0 ok / 2 err / 3 panic, detail)
async fn send_message(s: &Socket, frames: Vec<Msg>, parts: bool) -> (u64, u64) {
  use futures::FutureExt;
  if parts {
    for f in frames {
      match AssertUnwindSafe(s.send(f)).catch_unwind().await {
        Ok(Ok(())) => {}
        Ok(Err(e)) => return (2, err_code(&e)),
        Err(_) => return (3, 0),
      }
    }
    (0, 0)
  } else {
    match AssertUnwindSafe(s.send_multipart(frames)).catch_unwind().await {
      Ok(Ok(())) => (0, 0),
      Ok(Err(e)) => (2, err_code(&e)),
      Err(_) => (3, 0),
    }
  }
}

/// one receive call, logged: [20, kind, result, nframes] + frame rows. result: 0 ok, 1 timeout/would-block, 2 error, 3 panic
async fn recv_call(s: &Socket, multipart: bool, rows: &mut Vec<Vec<u64>>) -> (u64, Vec<bool>) {
  use futures::FutureExt;
  if multipart {
    match AssertUnwindSafe(s.recv_multipart()).catch_unwind().await {
      Ok(Ok(fs)) => {
        rows.push(vec![20, 1, 0, fs.len() as u64]);
        for m in &fs {
          rows.push(tagged_row(m));
        }
        (0, fs.iter().map(|m| m.is_more()).collect())
      }
      Ok(Err(ZmqError::Timeout)) | Ok(Err(ZmqError::ResourceLimitReached)) => {
        rows.push(vec![20, 1, 1, 0]);
        (1, vec![])
      }
      Ok(Err(e)) => {
        rows.push(vec![20, 1, 2, err_code(&e)]);
        (2, vec![])
      }
      Err(_) => {
        rows.push(vec![20, 1, 3, 0]);
        (3, vec![])
      }
    }
  } else {
    match AssertUnwindSafe(s.recv()).catch_unwind().await {
      Ok(Ok(m)) => {
        rows.push(vec![20, 0, 0, 1]);
        rows.push(tagged_row(&m));
        (0, vec![m.is_more()])
      }
      Ok(Err(ZmqError::Timeout)) | Ok(Err(ZmqError::ResourceLimitReached)) => {
        rows.push(vec![20, 0, 1, 0]);
        (1, vec![])
      }
      Ok(Err(e)) => {
        rows.push(vec![20, 0, 2, err_code(&e)]);
        (2, vec![])
      }
      Err(_) => {
        rows.push(vec![20, 0, 3, 0]);
        (3, vec![])
      }
    }
  }
}

async fn teardown(ctx: Context, socks: Vec<Socket>) {
  for s in socks {
    let _ = tokio::time::timeout(Duration::from_secs(2), s.close()).await;
  }
  let _ = tokio::time::timeout(Duration::from_secs(3), ctx.term()).await;
}

// ------------------------------------------------------------------ seq: one connection, scripted receive calls

/// pattern: "push_pull" | "dealer_router" | "router_dealer" | "dealer_dealer" | "dealer_rep" | "rep_req" | "pub_sub"
async fn run_seq(idx: usize, c: Value) -> Value {
  let mut rows: Vec<Vec<u64>> = Vec::new();
  let ctx = match Context::new() {
    Ok(c) => c,
    Err(_) => return json!({"rows": [[99, 0]]}),
  };
  let tcp = c["transport"].as_str() == Some("tcp");
  let pat = c["pattern"].as_str().unwrap();
  let (sty, rty) = match pat {
    "push_pull" => ("PUSH", "PULL"),
    "dealer_router" => ("DEALER", "ROUTER"),
    "router_dealer" => ("ROUTER", "DEALER"),
    "dealer_dealer" => ("DEALER", "DEALER"),
    "dealer_rep" => ("DEALER", "REP"),
    "rep_req" => ("REP", "REQ"),
    "pub_sub" => ("PUB", "SUB"),
    other => panic!("pattern {other}"),
  };
  // the first receive call waits long enough for the first message to arrive; later calls use the case's RCVTIMEO
  let recv_to = c["rcvtimeo"].as_i64().unwrap_or(1500) as i32;
  let receiver = mk_socket(&ctx, rty, if rty == "DEALER" || rty == "REQ" { Some(b"RX") } else { None }, 5000).await;
  let sender = mk_socket(&ctx, sty, if sty == "DEALER" { Some(b"D1") } else { None }, 5000).await;
  if b(&c, "sender_manual") {
    opt_i32(&sender, AUTO_DELIMITER, 0).await;
  }
  if b(&c, "receiver_manual") {
    opt_i32(&receiver, AUTO_DELIMITER, 0).await;
  }
  // the side that can accept many peers binds; for rep_req the REP binds
  let sender_binds = matches!(pat, "router_dealer" | "rep_req" | "pub_sub");
  let ep = if sender_binds { bind_any(&sender, tcp, &format!("q{idx}")).await } else { bind_any(&receiver, tcp, &format!("q{idx}")).await };
  let ep = match ep {
    Some(e) => e,
    None => return json!({"rows": [[99, 1]]}),
  };
  let cr = if sender_binds { receiver.connect(&ep).await } else { sender.connect(&ep).await };
  if cr.is_err() {
    return json!({"rows": [[99, 2]]});
  }
  tokio::time::sleep(Duration::from_millis(if tcp { 250 } else { 80 })).await;

  // warm-up: one throw-away message end to end, so that the connection is attached on both sides (a DEALER
  // sender would otherwise park the first messages in its pending queue, a ROUTER sender would not know "RX" yet)
  let hello = || Msg::from_vec(b"HELLO".to_vec());
  match pat {
    "rep_req" => {
      // REQ must ask first; the REP (sender of the multipart reply) receives the request
      let _ = receiver.send(Msg::from_vec(b"ask".to_vec())).await;
      let _ = sender.recv().await;
    }
    "router_dealer" => {
      let _ = receiver.send(hello()).await;
      let _ = sender.recv_multipart().await;
      let mut idm = Msg::from_vec(b"RX".to_vec());
      idm.set_flags(MsgFlags::MORE);
      let _ = sender.send_multipart(vec![idm, hello()]).await;
      let _ = receiver.recv_multipart().await;
    }
    "dealer_rep" => {
      let _ = sender.send(hello()).await;
      let _ = receiver.recv_multipart().await;
      let _ = receiver.send(hello()).await;
      let _ = sender.recv_multipart().await;
    }
    "pub_sub" => {
      tokio::time::sleep(Duration::from_millis(150)).await;
      let _ = sender.send(hello()).await;
      opt_i32(&receiver, RCVTIMEO, 700).await;
      let _ = receiver.recv_multipart().await;
      opt_i32(&receiver, RCVTIMEO, 5000).await;
    }
    _ => {
      let _ = sender.send(hello()).await;
      let _ = receiver.recv_multipart().await;
    }
  }
  // optional bystander: another peer of the SENDING socket that goes away in the middle of a part-wise send
  let mut bystander: Option<Socket> = None;
  if b(&c, "bystander") && sender_binds {
    let by = mk_socket(&ctx, "DEALER", Some(b"BY"), 2000).await;
    if by.connect(&ep).await.is_ok() {
      tokio::time::sleep(Duration::from_millis(if tcp { 250 } else { 80 })).await;
      let _ = by.send(hello()).await;
      let _ = sender.recv_multipart().await;
      bystander = Some(by);
    }
  }
  // ROUTER sender learns the DEALER's identity from ROUTING_ID "RX"
  for m in c["messages"].as_array().unwrap() {
    let mut frames = build_message(1, m);
    if sty == "ROUTER" {
      let mut idm = Msg::from_vec(b"RX".to_vec());
      idm.set_flags(MsgFlags::MORE);
      frames.insert(0, idm);
    }
    let (code, det) = if let (Some(k), true) = (m.get("by_close_after").and_then(|v| v.as_u64()), m["via"].as_str() == Some("parts")) {
      // part by part; the bystander closes after the k-th part
      let mut res = (0u64, 0u64);
      for (i, f) in frames.into_iter().enumerate() {
        if i as u64 == k {
          if let Some(by) = bystander.take() {
            let _ = tokio::time::timeout(Duration::from_secs(2), by.close()).await;
            tokio::time::sleep(Duration::from_millis(400)).await;
          }
        }
        res = send_message(&sender, vec![f], true).await;
        if res.0 != 0 {
          break;
        }
      }
      res
    } else {
      send_message(&sender, frames, m["via"].as_str() == Some("parts")).await
    };
    rows.push(vec![30, 1, u(m, "id"), code, det]);
  }
  for (k, op) in c["script"].as_array().unwrap().iter().enumerate() {
    let mp = op.as_str() == Some("mp");
    let _ = recv_call(&receiver, mp, &mut rows).await;
    if k == 0 {
      opt_i32(&receiver, RCVTIMEO, recv_to).await;
    }
  }
  teardown(ctx, vec![sender, receiver]).await;
  json!({ "rows": rows })
}


// ------------------------------------------------------------------ repenv: REP answers a request that arrived with an envelope
/// A DEALER with AUTO_DELIMITER off sends `request` (frames; MORE on all but the last), the REP receives it and answers with
/// `reply` through send_multipart; everything the DEALER then receives is logged: one row [40, n, len0, more0, len1, more1, ..]
/// per received message.  rows [41, code] = the REP's recv / send result.
async fn run_repenv(idx: usize, c: Value) -> Value {
  let mut rows: Vec<Vec<u64>> = Vec::new();
  let ctx = match Context::new() {
    Ok(c) => c,
    Err(_) => return json!({"rows": [[99, 0]]}),
  };
  let tcp = c["transport"].as_str() == Some("tcp");
  let rep = mk_socket(&ctx, "REP", None, 3000).await;
  let dealer = mk_socket(&ctx, "DEALER", Some(b"D1"), 3000).await;
  opt_i32(&dealer, AUTO_DELIMITER, 0).await;
  let ep = match bind_any(&rep, tcp, &format!("re{idx}")).await {
    Some(e) => e,
    None => return json!({"rows": [[99, 1]]}),
  };
  if dealer.connect(&ep).await.is_err() {
    return json!({"rows": [[99, 2]]});
  }
  tokio::time::sleep(Duration::from_millis(if tcp { 250 } else { 80 })).await;
  let mk = |spec: &Value| -> Vec<Msg> {
    let fs = spec.as_array().unwrap();
    let n = fs.len();
    fs.iter()
      .enumerate()
      .map(|(i, f)| {
        let mut m = Msg::from_vec(bytes_of(f));
        if i + 1 < n {
          m.set_flags(MsgFlags::MORE);
        }
        m
      })
      .collect()
  };
  let sr = dealer.send_multipart(mk(&c["request"])).await;
  rows.push(vec![41, if sr.is_ok() { 0 } else { 1 }]);
  let rr = rep.recv_multipart().await;
  rows.push(vec![41, if rr.is_ok() { 0 } else { 2 }]);
  let ar = rep.send_multipart(mk(&c["reply"])).await;
  rows.push(vec![41, if ar.is_ok() { 0 } else { 3 }]);
  opt_i32(&dealer, RCVTIMEO, 500).await;
  for _ in 0..4 {
    match dealer.recv_multipart().await {
      Ok(fr) => {
        let mut r = vec![40, fr.len() as u64];
        for f in fr.iter() {
          r.push(f.data().map(|d| d.len()).unwrap_or(0) as u64);
          r.push(if f.is_more() { 1 } else { 0 });
        }
        rows.push(r);
      }
      Err(_) => break,
    }
  }
  teardown(ctx, vec![rep, dealer]).await;
  json!({ "rows": rows })
}

// ------------------------------------------------------------------ stack: several senders, churn, big messages

async fn run_stack(idx: usize, c: Value) -> Value {
  let mut rows: Vec<Vec<u64>> = Vec::new();
  let ctx = match Context::new() {
    Ok(c) => c,
    Err(_) => return json!({"rows": [[99, 0]]}),
  };
  let tcp = c["transport"].as_str() == Some("tcp");
  let pat = c["pattern"].as_str().unwrap();
  let (sty, rty) = match pat {
    "push_pull" => ("PUSH", "PULL"),
    "dealer_router" => ("DEALER", "ROUTER"),
    "pub_sub" => ("PUB", "SUB"),
    "dealer_dealer" => ("DEALER", "DEALER"),
    other => panic!("pattern {other}"),
  };
  let receiver = mk_socket(&ctx, rty, None, c["rcvtimeo"].as_i64().unwrap_or(400) as i32).await;
  let specs = c["senders"].as_array().unwrap().clone();
  let mut senders: Vec<Socket> = Vec::new();
  // PUB senders bind (the SUB connects to each); otherwise the receiver binds
  let mut endpoint = String::new();
  if pat != "pub_sub" {
    endpoint = match bind_any(&receiver, tcp, &format!("s{idx}")).await {
      Some(e) => e,
      None => return json!({"rows": [[99, 1]]}),
    };
  }
  for (k, sp) in specs.iter().enumerate() {
    let rid = vec![b'S', b'0' + k as u8];
    let s = mk_socket(&ctx, sty, if sty == "DEALER" { Some(&rid) } else { None }, 500).await;
    if b(sp, "manual") {
      opt_i32(&s, AUTO_DELIMITER, 0).await;
    }
    if pat == "pub_sub" {
      let e = match bind_any(&s, tcp, &format!("s{idx}p{k}")).await {
        Some(e) => e,
        None => return json!({"rows": [[99, 1]]}),
      };
      if receiver.connect(&e).await.is_err() {
        return json!({"rows": [[99, 2]]});
      }
    } else if s.connect(&endpoint).await.is_err() {
      return json!({"rows": [[99, 2]]});
    }
    senders.push(s);
  }
  tokio::time::sleep(Duration::from_millis(if tcp { 300 } else { 100 })).await;
  // warm-up: every sender's connection carries one throw-away message before the measured traffic starts
  for s in &senders {
    let _ = s.send(Msg::from_vec(b"HELLO".to_vec())).await;
  }
  let rto = c["rcvtimeo"].as_i64().unwrap_or(400) as i32;
  opt_i32(&receiver, RCVTIMEO, if pat == "pub_sub" { 500 } else { 4000 }).await;
  for _ in 0..senders.len() {
    if receiver.recv_multipart().await.is_err() {
      break;
    }
  }
  opt_i32(&receiver, RCVTIMEO, rto).await;

  // senders run concurrently with the receiver
  let mut tasks = Vec::new();
  for (k, s) in senders.iter().enumerate() {
    let s = s.clone();
    let sp = specs[k].clone();
    tasks.push(tokio::spawn(async move {
      let mut out: Vec<Vec<u64>> = Vec::new();
      for m in sp["messages"].as_array().unwrap() {
        let frames = build_message(k as u64 + 1, m);
        let (code, det) = send_message(&s, frames, m["via"].as_str() == Some("parts")).await;
        out.push(vec![30, k as u64 + 1, u(m, "id"), code, det]);
        if let Some(g) = m["gap_ms"].as_u64() {
          tokio::time::sleep(Duration::from_millis(g)).await;
        }
      }
      out
    }));
  }

  // receiver: style 0 frames, 1 multipart, 2 mixed (first frame with recv, rest with recv_multipart)
  let style = u(&c, "style");
  let churn: Vec<Value> = c["churn"].as_array().cloned().unwrap_or_default();
  let mut churn_i = 0usize;
  let mut idle: Vec<Socket> = Vec::new();
  let max_calls = u(&c, "max_calls") as usize;
  let mut timeouts = 0;
  let mut calls = 0usize;
  let mut msg_ordinal = 0u64; // messages started
  let mut in_message = false;
  let mut frames_in_msg = 0u64;
  while calls < max_calls && timeouts < 2 {
    calls += 1;
    let mp = match style {
      0 => false,
      1 => true,
      _ => in_message,
    };
    let (code, mores) = recv_call(&receiver, mp, &mut rows).await;
    if code == 1 {
      timeouts += 1;
      continue;
    }
    if code != 0 {
      break;
    }
    timeouts = 0;
    for more in mores {
      if !in_message {
        msg_ordinal += 1;
        frames_in_msg = 0;
      }
      frames_in_msg += 1;
      in_message = more;
    }
    // churn point: after frame `at_frame` of message number `at_msg` while it is still unfinished (or finished for style 1)
    if churn_i < churn.len() {
      let ch = &churn[churn_i];
      if msg_ordinal == u(ch, "at_msg") && (frames_in_msg >= u(ch, "at_frame") || !in_message) {
        churn_i += 1;
        match ch["what"].as_str().unwrap() {
          "attach" => {
            let s = mk_socket(&ctx, if pat == "pub_sub" { "PUB" } else { sty }, None, 200).await;
            if pat == "pub_sub" {
              if let Some(e) = bind_any(&s, tcp, &format!("s{idx}i{}", idle.len())).await {
                let _ = receiver.connect(&e).await;
              }
            } else {
              let _ = s.connect(&endpoint).await;
            }
            tokio::time::sleep(Duration::from_millis(if tcp { 200 } else { 80 })).await;
            idle.push(s);
            rows.push(vec![40, 0, in_message as u64]);
          }
          _ => {
            if let Some(s) = idle.pop() {
              let _ = tokio::time::timeout(Duration::from_secs(2), s.close()).await;
              tokio::time::sleep(Duration::from_millis(if tcp { 250 } else { 120 })).await;
              rows.push(vec![40, 1, in_message as u64]);
            } else {
              rows.push(vec![40, 2, in_message as u64]);
            }
          }
        }
      }
    }
  }
  let mut srows: Vec<Vec<u64>> = Vec::new();
  for t in tasks {
    match tokio::time::timeout(Duration::from_secs(20), t).await {
      Ok(Ok(o)) => srows.extend(o),
      Ok(Err(_)) => srows.push(vec![31, 3]),
      Err(_) => srows.push(vec![31, 9]),
    }
  }
  rows.extend(srows);
  let mut all = senders;
  all.extend(idle);
  all.push(receiver);
  teardown(ctx, all).await;
  json!({ "rows": rows })
}


// ------------------------------------------------------------------ fanout: one PUSH/DEALER, two receivers, parts

/// sender binds, two receivers connect; messages are sent part by part (or with send_multipart);
/// each receiver then drains with recv_multipart: rows [50, receiver] + call rows
async fn run_fanout(idx: usize, c: Value) -> Value {
  let mut rows: Vec<Vec<u64>> = Vec::new();
  let ctx = match Context::new() {
    Ok(c) => c,
    Err(_) => return json!({"rows": [[99, 0]]}),
  };
  let tcp = c["transport"].as_str() == Some("tcp");
  let (sty, rty) = if c["pattern"].as_str() == Some("dealer_dealer") { ("DEALER", "DEALER") } else { ("PUSH", "PULL") };
  let sender = mk_socket(&ctx, sty, None, 300).await;
  let ep = match bind_any(&sender, tcp, &format!("f{idx}")).await {
    Some(e) => e,
    None => return json!({"rows": [[99, 1]]}),
  };
  let mut rx = Vec::new();
  for _ in 0..2 {
    let r = mk_socket(&ctx, rty, None, 300).await;
    if r.connect(&ep).await.is_err() {
      return json!({"rows": [[99, 2]]});
    }
    rx.push(r);
  }
  tokio::time::sleep(Duration::from_millis(if tcp { 400 } else { 150 })).await;
  for m in c["messages"].as_array().unwrap() {
    let frames = build_message(1, m);
    let (code, det) = send_message(&sender, frames, m["via"].as_str() == Some("parts")).await;
    rows.push(vec![30, 1, u(m, "id"), code, det]);
  }
  for (k, r) in rx.iter().enumerate() {
    rows.push(vec![50, k as u64]);
    for _ in 0..16 {
      let (code, _) = recv_call(r, true, &mut rows).await;
      if code != 0 {
        break;
      }
    }
  }
  let mut all = vec![sender];
  all.extend(rx);
  teardown(ctx, all).await;
  json!({ "rows": rows })
}

/// one socket scenario on its own runtime whose threads are named after the case (panic attribution)
fn run_socket_case(i: usize, c: &Value) -> Value {
  let rt = tokio::runtime::Builder::new_multi_thread()
    .worker_threads(2)
    .thread_name(format!("c02-{i}"))
    .enable_all()
    .build()
    .unwrap();
  let kind = c["k"].as_str().unwrap().to_string();
  let c2 = c.clone();
  let mut v = rt.block_on(async move {
    let h = match kind.as_str() {
      "seq" => tokio::spawn(run_seq(i, c2)),
      "fanout" => tokio::spawn(run_fanout(i, c2)),
      "repenv" => tokio::spawn(run_repenv(i, c2)),
      _ => tokio::spawn(run_stack(i, c2)),
    };
    match tokio::time::timeout(Duration::from_secs(60), h).await {
      Ok(Ok(v)) => v,
      Ok(Err(_)) => json!({"rows": [[99, 8]]}),
      Err(_) => json!({"rows": [[99, 9]]}),
    }
  });
  rt.shutdown_timeout(Duration::from_millis(300));
  let sites = panics_of(i);
  if let Some(r) = v["rows"].as_array_mut() {
    r.push(json!([98, sites.len() as u64]));
  }
  v["panic_sites"] = json!(sites);
  v
}

pub fn run_all(cases: &[Value]) -> Vec<Value> {
  install_hook();
  let mut out: Vec<Option<Value>> = vec![None; cases.len()];
  let mut sock_idx = Vec::new();
  for (i, c) in cases.iter().enumerate() {
    match c["k"].as_str().unwrap() {
      "fb" => out[i] = Some(run_fb(c)),
      "ing" => out[i] = Some(run_ing(c)),
      "coq" => out[i] = Some(json!({"rows": []})),
      "seq" | "stack" | "fanout" | "repenv" => sock_idx.push(i),
      other => panic!("unknown case kind {other}"),
    }
  }
  let par: usize = std::env::var("C02_PAR").ok().and_then(|x| x.parse().ok()).unwrap_or(8);
  let next = std::sync::Arc::new(AtomicUsize::new(0));
  let results: std::sync::Arc<Mutex<Vec<(usize, Value)>>> = std::sync::Arc::new(Mutex::new(Vec::new()));
  let cases_arc: std::sync::Arc<Vec<Value>> = std::sync::Arc::new(cases.to_vec());
  let idxs = std::sync::Arc::new(sock_idx);
  let mut hs = Vec::new();
  for _ in 0..par.max(1) {
    let (next, results, cases_arc, idxs) = (next.clone(), results.clone(), cases_arc.clone(), idxs.clone());
    hs.push(std::thread::spawn(move || loop {
      let k = next.fetch_add(1, Ordering::SeqCst);
      if k >= idxs.len() {
        break;
      }
      let i = idxs[k];
      let c = cases_arc[i].clone();
      let v = std::thread::Builder::new()
        .name(format!("c02-{i}"))
        .spawn(move || run_socket_case(i, &c))
        .unwrap()
        .join()
        .unwrap_or_else(|_| json!({"rows": [[99, 7]]}));
      results.lock().unwrap().push((i, v));
    }));
  }
  for h in hs {
    let _ = h.join();
  }
  for (i, v) in results.lock().unwrap().drain(..) {
    out[i] = Some(v);
  }
  out.into_iter().map(|x| x.unwrap_or(json!({"rows": [[95]]}))).collect()
}
