//! C03: framing encoders/decoders, executed on the real code.
use crate::util::*;
use bytes::{Bytes, BytesMut};
use rzmq::protocol::zmtp::manual_parser::ZmtpManualParser;
use rzmq::protocol::zmtp::ZmtpCodec;
use rzmq::verif::codec::{VFrameEncoder, VNullFramer};
use rzmq::verif::engine::{new_engine, VEngineConfig};
use rzmq::{FrameBatch, Msg, MsgFlags};
use serde_json::{json, Value};
use std::panic::{catch_unwind, AssertUnwindSafe};
use tokio_util::codec::{Decoder, Encoder};

pub fn mk_msg(v: &Value) -> Msg {
  let mut m = Msg::from_vec(payload_of(v));
  let mut fl = MsgFlags::empty();
  if b(v, "more") {
    fl |= MsgFlags::MORE;
  }
  if b(v, "cmd") {
    fl |= MsgFlags::COMMAND;
  }
  m.set_flags(fl);
  m
}

fn mk_batches(v: &Value) -> Vec<FrameBatch> {
  v.as_array()
    .unwrap()
    .iter()
    .map(|g| {
      let mut fb = FrameBatch::new();
      for f in g.as_array().unwrap() {
        fb.push(mk_msg(f));
      }
      fb
    })
    .collect()
}

pub fn frame_row(m: &Msg) -> Vec<u64> {
  let mut r = vec![1, m.is_more() as u64, m.is_command() as u64];
  r.extend(digest(m.data().unwrap_or(&[])));
  r
}

/// slices emitted by encoder `enc` for the batches
fn enc_slices(enc: u64, batches: &[FrameBatch]) -> Vec<Vec<u8>> {
  match enc {
    0 => {
      let mut codec = ZmtpCodec::new();
      let mut dst = BytesMut::new();
      for g in batches {
        for m in g {
          codec.encode(m.clone(), &mut dst).unwrap();
        }
      }
      vec![dst.to_vec()]
    }
    1 => {
      let codec = ZmtpCodec::new();
      let mut out = Vec::new();
      for g in batches {
        for m in g {
          let mut dst = BytesMut::new();
          codec.encode_header_only(m, &mut dst).unwrap();
          out.push(dst.to_vec());
        }
      }
      out
    }
    2 => {
      let mut e = VFrameEncoder::new(16, 16);
      vec![e.frame_contiguous(batches).unwrap().to_vec()]
    }
    3 => {
      let mut e = VFrameEncoder::new(16, 16);
      e.frame_vectored(batches).unwrap().into_iter().map(|b| b.to_vec()).collect()
    }
    4 => {
      let mut f = VNullFramer::new(-1, 4, 64);
      let mut out = Vec::new();
      for g in batches {
        for m in g {
          let (h, p) = f.write_msg_split(m.clone()).unwrap();
          out.push(h.to_vec());
          out.push(p.map(|x| x.to_vec()).unwrap_or_default());
        }
      }
      out
    }
    _ => {
      let mut cfg = VEngineConfig::default();
      cfg.socket_type_name = "DEALER".into();
      let mut eng = new_engine(false, &cfg);
      eng.frame_batch_vectored(batches).unwrap().into_iter().map(|b| b.to_vec()).collect()
    }
  }
}

fn decode(dec: u64, maxsz: i64, pre: u64, stream: &[u8], cuts: &[u64]) -> Vec<Vec<u64>> {
  let mut rows: Vec<Vec<u64>> = Vec::new();
  match dec {
    1 => {
      let pre = (pre as usize).min(stream.len());
      let mut codec = ZmtpCodec::new();
      codec.prime_with_prefix(BytesMut::from(&stream[..pre]));
      let mut src = BytesMut::new();
      let mut failed = false;
      'outer: for c in cut(&stream[pre..], cuts) {
        src.extend_from_slice(&c);
        loop {
          match codec.decode(&mut src) {
            Ok(Some(m)) => rows.push(frame_row(&m)),
            Ok(None) => break,
            Err(_) => {
              rows.push(vec![0]);
              failed = true;
              break 'outer;
            }
          }
        }
      }
      if failed {
        rows.push(vec![1, 0]);
      } else {
        // distinguish "waiting for body" from "waiting for header": probe with an empty decode
        // is not possible without private state; infer from the model-independent fact that a
        // header was consumed iff decoding an empty buffer keeps returning None while the
        // remaining bytes could form a header. We report state via Debug formatting.
        let dbg = format!("{:?}", codec);
        let st = if dbg.contains("ReadBody") { 3 } else { 0 };
        rows.push(vec![st, src.len() as u64]);
      }
    }
    2 | 3 => {
      let parser = ZmtpManualParser::new(maxsz);
      let mut pos = 0usize;
      loop {
        let rest = &stream[pos..];
        let r = catch_unwind(AssertUnwindSafe(|| {
          if dec == 2 {
            parser.decode_frame_from_slice(rest)
          } else {
            parser.decode_frame_from_bytes(&Bytes::copy_from_slice(rest))
          }
        }));
        match r {
          Ok(Ok(Some((m, n)))) => {
            rows.push(frame_row(&m));
            pos += n;
          }
          Ok(Ok(None)) => {
            rows.push(vec![0, rest.len() as u64]);
            break;
          }
          Ok(Err(_)) => {
            rows.push(vec![1, rest.len() as u64]);
            break;
          }
          Err(_) => {
            rows.push(vec![2, rest.len() as u64]);
            break;
          }
        }
      }
    }
    4 => {
      let parser = ZmtpManualParser::new(maxsz);
      let mut pos = 0usize;
      loop {
        let rest = &stream[pos..];
        let r = catch_unwind(AssertUnwindSafe(|| parser.peek_frame_len(rest)));
        match r {
          Ok(Ok(Some(n))) => {
            if rest.len() < n {
              rows.push(vec![0, rest.len() as u64]);
              break;
            }
            rows.push(vec![n as u64]);
            pos += n;
          }
          Ok(Ok(None)) => {
            rows.push(vec![0, rest.len() as u64]);
            break;
          }
          Ok(Err(_)) => {
            rows.push(vec![1, rest.len() as u64]);
            break;
          }
          Err(_) => {
            rows.push(vec![2, rest.len() as u64]);
            break;
          }
        }
      }
    }
    _ => {
      // 0: ZmtpManualParser::decode_from_buffer, 5: the same through NullFramer::try_read_msg
      let mut parser = ZmtpManualParser::new(maxsz);
      let mut framer = VNullFramer::new(maxsz, 4, 64);
      let mut acc = BytesMut::new();
      let mut failed = false;
      'outer2: for c in cut(stream, cuts) {
        acc.extend_from_slice(&c);
        loop {
          let r = if dec == 5 { framer.try_read_msg(&mut acc) } else { parser.decode_from_buffer(&mut acc) };
          match r {
            Ok(Some(m)) => rows.push(frame_row(&m)),
            Ok(None) => break,
            Err(_) => {
              rows.push(vec![0]);
              failed = true;
              break 'outer2;
            }
          }
        }
      }
      if failed {
        rows.push(vec![1, 0]);
      } else {
        rows.push(vec![0, acc.len() as u64]);
      }
    }
  }
  rows
}

fn cuts_of(c: &Value) -> Vec<u64> {
  c["cuts"].as_array().map(|a| a.iter().map(|x| x.as_u64().unwrap()).collect()).unwrap_or_default()
}

pub fn run_case(c: &Value) -> Value {
  let r = catch_unwind(AssertUnwindSafe(|| run_case_inner(c)));
  match r {
    Ok(v) => v,
    Err(_) => json!({"rows": [[77]], "panic": true}),
  }
}

fn run_case_inner(c: &Value) -> Value {
  let kind = c["k"].as_str().unwrap();
  match kind {
    "enc" => {
      let batches = mk_batches(&c["batches"]);
      let slices = enc_slices(u(c, "enc"), &batches);
      json!({"rows": slices.iter().map(|s| digest(s)).collect::<Vec<_>>(), "concat": digest(&slices.concat())})
    }
    "rt" => {
      let batches = mk_batches(&c["batches"]);
      let enc = u(c, "enc");
      let slices = enc_slices(enc, &batches);
      let stream: Vec<u8> = slices.concat();
      let dec = u(c, "dec");
      let rows = decode(dec, c["maxsz"].as_i64().unwrap(), u(c, "pre"), &stream, &cuts_of(c));
      // implementation-side oracle: decoded frames == input frames (COMMAND dropped by the
      // vectored/split encoders, and by batch_vectored above the flat threshold)
      let mut expect: Vec<Vec<u64>> = Vec::new();
      let total: usize = batches.iter().flat_map(|g| g.iter().map(|m| m.size())).sum();
      for g in &batches {
        for m in g {
          let mut r = frame_row(m);
          if enc == 3 || enc == 4 || (enc >= 5 && total >= 16 * 1024) {
            r[2] = 0;
          }
          expect.push(r);
        }
      }
      json!({"rows": rows, "expect_frames": expect})
    }
    "raw" => {
      let mut stream: Vec<u8> = Vec::new();
      for p in c["pieces"].as_array().unwrap() {
        if p.get("frame").is_some() {
          let m = mk_msg(&p["frame"]);
          let mut codec = ZmtpCodec::new();
          let mut dst = BytesMut::new();
          codec.encode(m, &mut dst).unwrap();
          stream.extend_from_slice(&dst);
        } else {
          stream.extend_from_slice(&payload_of(&p["raw"]));
        }
      }
      let rows = decode(u(c, "dec"), c["maxsz"].as_i64().unwrap(), u(c, "pre"), &stream, &cuts_of(c));
      json!({"rows": rows})
    }
    other => panic!("unknown case kind {other}"),
  }
}
