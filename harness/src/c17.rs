//! C17: (a) ReconnectState back-off arithmetic through the verif facade, (b) fault-isolation and
//! reconnect scenarios on real `rzmq::Context` / sockets over tcp and inproc with raw TCP peers.
use rzmq::socket::options::{
  LAST_ENDPOINT, LINGER, PLAIN_PASSWORD, PLAIN_SERVER, PLAIN_USERNAME, RECONNECT_IVL, RECONNECT_IVL_MAX, SNDTIMEO,
};
use rzmq::verif::backoff::VReconnectState;
use rzmq::{Context, Msg, Socket, SocketType};
use serde_json::{json, Value};
use std::panic::{catch_unwind, AssertUnwindSafe};
use std::sync::atomic::{AtomicUsize, Ordering};
use std::time::{Duration, Instant};
use tokio::io::{AsyncReadExt, AsyncWriteExt};
use tokio::net::{TcpListener, TcpStream};
use tokio::time::{sleep, timeout};

const NS: u128 = 1_000_000_000;

fn dur_of_ns_str(v: &Value) -> Duration {
  let n: u128 = v.as_str().expect("ns as decimal string").parse().expect("u128");
  Duration::new((n / NS) as u64, (n % NS) as u32)
}

// ------------------------------------------------------------------ (a) arithmetic

fn run_backoff(c: &Value) -> Value {
  let base = dur_of_ns_str(&c["base"]);
  let max = dur_of_ns_str(&c["max"]);
  let attempts = c["attempts"].as_u64().unwrap() as u32;
  let mut st = VReconnectState::new(attempts);
  let mut rows: Vec<Vec<u64>> = Vec::new();
  for op in c["ops"].as_array().unwrap() {
    if op.as_u64().unwrap() == 1 {
      let before = Instant::now();
      let r = catch_unwind(AssertUnwindSafe(|| st.on_connection_failure(base, max)));
      let after = Instant::now();
      match r {
        Ok(d) => {
          // next_attempt_at must be (the `now` read inside the call) + delay
          let sched_ok = match st.next_attempt_at() {
            Some(t) => before.checked_add(d).map_or(false, |lo| lo <= t) && after.checked_add(d).map_or(false, |hi| t <= hi),
            None => false,
          };
          rows.push(vec![1, d.as_secs(), d.subsec_nanos() as u64, st.attempts() as u64, sched_ok as u64]);
        }
        Err(_) => {
          rows.push(vec![2]);
          break;
        }
      }
    } else {
      st.on_connection_success();
      rows.push(vec![0, st.attempts() as u64, st.has_next_attempt() as u64]);
    }
  }
  json!({ "rows": rows })
}

// ------------------------------------------------------------------ (b) stack level

static INPROC_CTR: AtomicUsize = AtomicUsize::new(0);
fn unique_inproc() -> String {
  format!("inproc://c17_{}_{}", std::process::id(), INPROC_CTR.fetch_add(1, Ordering::Relaxed))
}

const T_OP: Duration = Duration::from_millis(1500);

fn greeting(mech: &[u8]) -> Vec<u8> {
  let mut g = vec![0xFFu8, 0, 0, 0, 0, 0, 0, 0, 1, 0x7F, 3, 0];
  let mut m = [0u8; 20];
  m[..mech.len()].copy_from_slice(mech);
  g.extend_from_slice(&m);
  g.push(0); // as-server
  g.extend_from_slice(&[0u8; 31]);
  g
}
fn ready_cmd(socket_type: &[u8]) -> Vec<u8> {
  let mut body = vec![5u8];
  body.extend_from_slice(b"READY");
  body.push(11);
  body.extend_from_slice(b"Socket-Type");
  body.extend_from_slice(&(socket_type.len() as u32).to_be_bytes());
  body.extend_from_slice(socket_type);
  let mut f = vec![0x04u8, body.len() as u8];
  f.extend_from_slice(&body);
  f
}
fn garbage(n: usize, seed: u8) -> Vec<u8> {
  (0..n).map(|i| (seed as usize + i * 37 + 11) as u8 | 0x10).collect()
}

async fn tcp_endpoint_of(s: &Socket) -> Option<String> {
  let raw = timeout(T_OP, s.get_option(LAST_ENDPOINT)).await.ok()?.ok()?;
  String::from_utf8(raw).ok()
}
fn addr_of(ep: &str) -> String {
  ep.trim_start_matches("tcp://").to_string()
}

async fn mk(ctx: &Context, t: SocketType) -> Socket {
  let s = ctx.socket(t).expect("socket");
  let _ = s.set_option(LINGER, 0i32).await;
  s
}

/// Send `n` numbered messages starting at `from` on a PUSH/DEALER socket, 1 ms apart.
async fn send_numbered(s: &Socket, from: u64, n: u64) -> bool {
  for i in from..from + n {
    match timeout(T_OP, s.send(Msg::from_vec(i.to_be_bytes().to_vec()))).await {
      Ok(Ok(())) => {}
      _ => return false,
    }
    sleep(Duration::from_millis(1)).await;
  }
  true
}

/// Receive until `want` numbered messages from the healthy sender have arrived (8-byte payloads;
/// anything else is counted separately), or `idle` passes without a message, or recv fails.
async fn recv_numbered(s: &Socket, want: usize, idle: Duration, got: &mut Vec<u64>, other: &mut u64) -> bool {
  let mut last = Instant::now();
  while got.len() < want {
    match timeout(idle, s.recv()).await {
      Ok(Ok(m)) => {
        let d = m.data().unwrap_or(&[]);
        if d.len() == 8 {
          got.push(u64::from_be_bytes(d.try_into().unwrap()));
        } else {
          *other += 1;
        }
        last = Instant::now();
      }
      // a polling socket (RCVTIMEO = 0) answers "nothing yet" at once: keep polling until `idle` has passed
      Ok(Err(rzmq::ZmqError::Timeout)) | Ok(Err(rzmq::ZmqError::ResourceLimitReached)) if last.elapsed() < idle => {
        sleep(Duration::from_millis(3)).await;
      }
      Ok(Err(_)) => return false,
      Err(_) => return false,
    }
  }
  true
}

async fn raw_connect(addr: &str) -> Option<TcpStream> {
  timeout(T_OP, TcpStream::connect(addr)).await.ok()?.ok()
}

/// The fault injected against a victim that listens on `tcp_addr` (and on `inproc_ep`).
async fn inject_inbound_fault(scn: u64, ctx: &Context, tcp_ep: &str, inproc_ep: &str, keep: &mut Vec<Socket>) -> String {
  let addr = addr_of(tcp_ep);
  match scn {
    1 => {
      // garbage instead of a greeting
      if let Some(mut s) = raw_connect(&addr).await {
        let _ = s.write_all(&garbage(64, 3)).await;
        let mut buf = [0u8; 256];
        let _ = timeout(Duration::from_millis(300), s.read(&mut buf)).await;
      }
      "raw garbage greeting".into()
    }
    2 => {
      // valid NULL greeting, then garbage where READY is expected
      if let Some(mut s) = raw_connect(&addr).await {
        let _ = s.write_all(&greeting(b"NULL")).await;
        let mut buf = [0u8; 256];
        let _ = timeout(Duration::from_millis(200), s.read(&mut buf)).await;
        let _ = s.write_all(&garbage(48, 9)).await;
        let _ = timeout(Duration::from_millis(300), s.read(&mut buf)).await;
      }
      "raw garbage after greeting".into()
    }
    3 => {
      // incompatible socket type over tcp (PUB -> PULL)
      let p = mk(ctx, SocketType::Pub).await;
      let r = timeout(T_OP, p.connect(tcp_ep)).await;
      sleep(Duration::from_millis(300)).await;
      keep.push(p);
      format!("PUB connect tcp -> {:?}", r.map(|x| x.map_err(|e| e.to_string())))
    }
    4 => {
      // incompatible socket type over inproc (PUB connector -> PULL binder)
      let p = mk(ctx, SocketType::Pub).await;
      let r = timeout(T_OP, p.connect(inproc_ep)).await;
      sleep(Duration::from_millis(300)).await;
      keep.push(p);
      format!("PUB connect inproc -> {:?}", r.map(|x| x.map_err(|e| e.to_string())))
    }
    5 => {
      // abrupt reset right after the TCP connect
      if let Some(s) = raw_connect(&addr).await {
        let _ = s.set_zero_linger();
        drop(s);
      }
      "raw RST after connect".into()
    }
    6 => {
      // complete a NULL handshake as a PUSH peer, send one frame, then reset
      if let Some(mut s) = raw_connect(&addr).await {
        let _ = s.write_all(&greeting(b"NULL")).await;
        let _ = s.write_all(&ready_cmd(b"PUSH")).await;
        let mut buf = [0u8; 512];
        let _ = timeout(Duration::from_millis(300), s.read(&mut buf)).await;
        let _ = s.write_all(&[0x00, 0x03, b'r', b's', b't']).await; // one 3-byte message (not 8 bytes: counted as `other`)
        sleep(Duration::from_millis(100)).await;
        let _ = s.set_zero_linger();
        drop(s);
      }
      "raw RST after handshake".into()
    }
    7 => {
      // PLAIN client with wrong credentials
      let p = mk(ctx, SocketType::Push).await;
      let _ = p.set_option_raw(PLAIN_USERNAME, b"mallory").await;
      let _ = p.set_option_raw(PLAIN_PASSWORD, b"wrong").await;
      let _ = p.set_option(RECONNECT_IVL, 0i32).await;
      let r = timeout(T_OP, p.connect(tcp_ep)).await;
      sleep(Duration::from_millis(400)).await;
      keep.push(p);
      format!("PLAIN wrong creds connect -> {:?}", r.map(|x| x.map_err(|e| e.to_string())))
    }
    13 => {
      // ZMTP/2.0 peer announcing an incompatible socket type (PUB -> PULL): the only place where the
      // tcp handshake itself rejects a socket type
      if let Some(mut s) = raw_connect(&addr).await {
        let _ = s.write_all(&[0xFF, 0, 0, 0, 0, 0, 0, 0, 1, 0x7F, 0x01, 0x01, 0x00, 0x00]).await;
        let mut buf = [0u8; 256];
        let _ = timeout(Duration::from_millis(300), s.read(&mut buf)).await;
        let _ = timeout(Duration::from_millis(200), s.read(&mut buf)).await;
      }
      "raw ZMTP/2.0 peer of incompatible type".into()
    }
    11 | 14 => {
      // burst: many raw peers whose garbage is already queued when the listener accepts them
      let mut hs = Vec::new();
      for k in 0..(if scn == 14 { 120u8 } else { 40u8 }) {
        let a = addr.clone();
        hs.push(tokio::spawn(async move {
          if let Some(mut s) = raw_connect(&a).await {
            let _ = s.write_all(&garbage(64, k)).await;
            if k % 2 == 0 {
              let _ = s.set_zero_linger();
            }
            drop(s);
          }
        }));
      }
      for h in hs {
        let _ = h.await;
      }
      sleep(Duration::from_millis(300)).await;
      "burst of 40 raw garbage peers".into()
    }
    _ => "none".into(),
  }
}

/// Is the victim still a working socket: its command loop answers, it can bind a new endpoint, and a
/// brand-new PUSH peer connecting to its existing listener gets a message through.
async fn victim_usable(ctx: &Context, victim: &Socket, tcp_ep: &str, plain: bool, got: &mut Vec<u64>, other: &mut u64) -> (bool, bool, bool) {
  let ops_ok = matches!(timeout(T_OP, victim.get_option(LAST_ENDPOINT)).await, Ok(Ok(_)));
  let bind_ok = matches!(timeout(T_OP, victim.bind("tcp://127.0.0.1:0")).await, Ok(Ok(())));
  let mut accept_ok = false;
  let p = mk(ctx, SocketType::Push).await;
  let _ = p.set_option(SNDTIMEO, 1000i32).await;
  if plain {
    let _ = p.set_option_raw(PLAIN_USERNAME, b"user").await;
    let _ = p.set_option_raw(PLAIN_PASSWORD, b"pass").await;
  }
  if let Ok(Ok(())) = timeout(T_OP, p.connect(tcp_ep)).await {
    if let Ok(Ok(())) = timeout(T_OP, p.send(Msg::from_static(b"probe"))).await {
      let before = *other;
      let deadline = Instant::now() + Duration::from_millis(2000);
      while Instant::now() < deadline && *other == before {
        match timeout(Duration::from_millis(500), victim.recv()).await {
          Ok(Ok(m)) => {
            let d = m.data().unwrap_or(&[]);
            if d == b"probe" {
              *other += 1;
              accept_ok = true;
            } else if d.len() == 8 {
              got.push(u64::from_be_bytes(d.try_into().unwrap()));
            }
          }
          Ok(Err(rzmq::ZmqError::Timeout)) | Ok(Err(rzmq::ZmqError::ResourceLimitReached)) => sleep(Duration::from_millis(3)).await,
          Ok(Err(_)) => break,
          Err(_) => {}
        }
      }
    }
  }
  let _ = timeout(T_OP, p.close()).await;
  (ops_ok, bind_ok, accept_ok)
}

/// Scenarios 1-7, 11: victim = PULL bound on tcp (+ inproc), healthy peer = PUSH over tcp.
async fn scenario_inbound(scn: u64, n: u64) -> Value {
  let ctx = Context::new().expect("ctx");
  let victim = mk(&ctx, SocketType::Pull).await;
  let plain = scn == 7;
  if scn == 14 {
    // a polling application: RCVTIMEO = 0, set before bind
    let _ = victim.set_option(rzmq::socket::options::RCVTIMEO, 0i32).await;
  }
  if plain {
    let _ = victim.set_option(PLAIN_SERVER, true).await;
    let _ = victim.set_option(PLAIN_USERNAME, "user").await;
    let _ = victim.set_option(PLAIN_PASSWORD, "pass").await;
  }
  let mut detail = String::new();
  let inproc_ep = unique_inproc();
  let bound = matches!(timeout(T_OP, victim.bind("tcp://127.0.0.1:0")).await, Ok(Ok(())));
  let tcp_ep = tcp_endpoint_of(&victim).await.unwrap_or_default();
  let bound2 = matches!(timeout(T_OP, victim.bind(&inproc_ep)).await, Ok(Ok(())));
  let healthy = mk(&ctx, SocketType::Push).await;
  if plain {
    let _ = healthy.set_option_raw(PLAIN_USERNAME, b"user").await;
    let _ = healthy.set_option_raw(PLAIN_PASSWORD, b"pass").await;
  }
  let _ = healthy.set_option(SNDTIMEO, 1500i32).await;
  let conn = matches!(timeout(T_OP, healthy.connect(&tcp_ep)).await, Ok(Ok(())));
  if !(bound && bound2 && conn) {
    return json!({"rows": [[scn, 0, 0]], "detail": format!("setup failed bind={bound} inproc={bound2} connect={conn} ep={tcp_ep}")});
  }
  let mut got: Vec<u64> = Vec::new();
  let mut other = 0u64;
  // phase 1: traffic before the fault
  let s1 = send_numbered(&healthy, 0, n).await;
  let r1 = recv_numbered(&victim, n as usize, Duration::from_millis(2000), &mut got, &mut other).await;
  // fault, with traffic running concurrently
  let mut keep: Vec<Socket> = Vec::new();
  let (fd, s2) = tokio::join!(inject_inbound_fault(scn, &ctx, &tcp_ep, &inproc_ep, &mut keep), send_numbered(&healthy, n, n));
  detail.push_str(&fd);
  sleep(Duration::from_millis(150)).await;
  // phase 3: traffic after the fault
  let s3 = send_numbered(&healthy, 2 * n, n).await;
  let r3 = recv_numbered(&victim, 3 * n as usize, Duration::from_millis(2000), &mut got, &mut other).await;
  let (ops_ok, bind_ok, accept_ok) = victim_usable(&ctx, &victim, &tcp_ep, plain, &mut got, &mut other).await;
  let in_order = got.iter().enumerate().all(|(i, &x)| x == i as u64);
  let healthy_ok = s1 && r1 && s2 && s3 && r3 && in_order && got.len() == 3 * n as usize;
  let usable = ops_ok && bind_ok && accept_ok;
  for s in keep.iter() {
    let _ = timeout(T_OP, s.close()).await;
  }
  let _ = timeout(T_OP, healthy.close()).await;
  let _ = timeout(T_OP, victim.close()).await;
  let _ = timeout(Duration::from_millis(3000), ctx.term()).await;
  json!({"rows": [[scn, healthy_ok as u64, usable as u64]],
         "detail": format!("{detail}; sent=({s1},{s2},{s3}) recv=({r1},{r3}) got={} in_order={in_order} other={other} ops={ops_ok} bind={bind_ok} accept={accept_ok}", got.len())})
}

/// Scenarios 8, 9, 10: the victim (PULL, bound on tcp with a healthy PUSH peer) makes a failing OUTBOUND connection.
async fn scenario_outbound(scn: u64, n: u64) -> Value {
  let ctx = Context::new().expect("ctx");
  let victim = mk(&ctx, SocketType::Pull).await;
  let _ = victim.set_option(RECONNECT_IVL, 100i32).await;
  let _ = victim.set_option(RECONNECT_IVL_MAX, 400i32).await;
  let bound = matches!(timeout(T_OP, victim.bind("tcp://127.0.0.1:0")).await, Ok(Ok(())));
  let tcp_ep = tcp_endpoint_of(&victim).await.unwrap_or_default();
  let healthy = mk(&ctx, SocketType::Push).await;
  let _ = healthy.set_option(SNDTIMEO, 1500i32).await;
  let conn = matches!(timeout(T_OP, healthy.connect(&tcp_ep)).await, Ok(Ok(())));
  if !(bound && conn) {
    return json!({"rows": [[scn, 0, 0]], "detail": "setup failed"});
  }
  let mut got: Vec<u64> = Vec::new();
  let mut other = 0u64;
  let s1 = send_numbered(&healthy, 0, n).await;
  let r1 = recv_numbered(&victim, n as usize, Duration::from_millis(2000), &mut got, &mut other).await;
  let mut keep: Vec<Socket> = Vec::new();
  let mut accepts = 0usize;
  let fault = async {
    match scn {
      8 => {
        // inproc connect to a name nobody bound: must be refused, and only that
        let r = timeout(T_OP, victim.connect(&unique_inproc())).await;
        format!("inproc connect unbound -> {:?}", r.map(|x| x.map_err(|e| e.to_string())))
      }
      9 => {
        // outbound tcp connection to a raw listener that answers with garbage and closes, repeatedly
        let l = TcpListener::bind("127.0.0.1:0").await.expect("raw listener");
        let ep = format!("tcp://{}", l.local_addr().unwrap());
        let r = timeout(T_OP, victim.connect(&ep)).await;
        let until = Instant::now() + Duration::from_millis(700);
        while Instant::now() < until {
          if let Ok(Ok((mut s, _))) = timeout(Duration::from_millis(100), l.accept()).await {
            accepts += 1;
            let _ = s.write_all(&garbage(64, accepts as u8)).await;
            if accepts % 2 == 0 {
              let _ = s.set_zero_linger();
            }
            drop(s);
          }
        }
        format!("outbound to garbage listener -> {:?} accepts={accepts}", r.map(|x| x.map_err(|e| e.to_string())))
      }
      _ => {
        // 10: victim connects over inproc to a binder of an incompatible type (PULL -> REP binder)
        let b = mk(&ctx, SocketType::Rep).await;
        let ep = unique_inproc();
        let _ = timeout(T_OP, b.bind(&ep)).await;
        let r = timeout(T_OP, victim.connect(&ep)).await;
        sleep(Duration::from_millis(200)).await;
        keep.push(b);
        format!("inproc connect to REP binder -> {:?}", r.map(|x| x.map_err(|e| e.to_string())))
      }
    }
  };
  let (fd, s2) = tokio::join!(fault, send_numbered(&healthy, n, n));
  sleep(Duration::from_millis(150)).await;
  let s3 = send_numbered(&healthy, 2 * n, n).await;
  let r3 = recv_numbered(&victim, 3 * n as usize, Duration::from_millis(2000), &mut got, &mut other).await;
  let (ops_ok, bind_ok, accept_ok) = victim_usable(&ctx, &victim, &tcp_ep, false, &mut got, &mut other).await;
  let in_order = got.iter().enumerate().all(|(i, &x)| x == i as u64);
  let healthy_ok = s1 && r1 && s2 && s3 && r3 && in_order && got.len() == 3 * n as usize;
  let usable = ops_ok && bind_ok && accept_ok;
  for s in keep.iter() {
    let _ = timeout(T_OP, s.close()).await;
  }
  let _ = timeout(T_OP, healthy.close()).await;
  let _ = timeout(T_OP, victim.close()).await;
  let _ = timeout(Duration::from_millis(3000), ctx.term()).await;
  json!({"rows": [[scn, healthy_ok as u64, usable as u64]],
         "detail": format!("{fd}; got={} in_order={in_order} other={other} ops={ops_ok} bind={bind_ok} accept={accept_ok}", got.len())})
}

/// Scenario 12: the peer of an outbound connection goes away and comes back; traffic must resume.
async fn scenario_resume(scn: u64, n: u64) -> Value {
  let ctx = Context::new().expect("ctx");
  let victim = mk(&ctx, SocketType::Push).await;
  let _ = victim.set_option(RECONNECT_IVL, 100i32).await;
  let _ = victim.set_option(RECONNECT_IVL_MAX, 400i32).await;
  let _ = victim.set_option(SNDTIMEO, 100i32).await;
  let p1 = mk(&ctx, SocketType::Pull).await;
  let bound = matches!(timeout(T_OP, p1.bind("tcp://127.0.0.1:0")).await, Ok(Ok(())));
  let ep = tcp_endpoint_of(&p1).await.unwrap_or_default();
  let conn = matches!(timeout(T_OP, victim.connect(&ep)).await, Ok(Ok(())));
  if !(bound && conn) {
    return json!({"rows": [[scn, 0, 0]], "detail": "setup failed"});
  }
  let mut got1 = Vec::new();
  let mut other = 0u64;
  let s1 = send_numbered(&victim, 0, n).await;
  let r1 = recv_numbered(&p1, n as usize, Duration::from_millis(2000), &mut got1, &mut other).await;
  let _ = timeout(T_OP, p1.close()).await;
  drop(p1);
  sleep(Duration::from_millis(500)).await; // several failed reconnect attempts happen here
  // the peer returns on the same port
  let p2 = mk(&ctx, SocketType::Pull).await;
  let mut rebound = false;
  for _ in 0..20 {
    if let Ok(Ok(())) = timeout(T_OP, p2.bind(&ep)).await {
      rebound = true;
      break;
    }
    sleep(Duration::from_millis(100)).await;
  }
  // keep sending until something gets through (sends may time out while disconnected)
  let mut resumed = false;
  let mut sent_after = 0u64;
  let deadline = Instant::now() + Duration::from_millis(5000);
  let mut next = n;
  while rebound && Instant::now() < deadline && !resumed {
    if let Ok(Ok(())) = timeout(T_OP, victim.send(Msg::from_vec(next.to_be_bytes().to_vec()))).await {
      sent_after += 1;
      next += 1;
    }
    if let Ok(Ok(m)) = timeout(Duration::from_millis(50), p2.recv()).await {
      let d = m.data().unwrap_or(&[]);
      if d.len() == 8 && u64::from_be_bytes(d.try_into().unwrap()) >= n {
        resumed = true;
      }
    }
  }
  let ops_ok = matches!(timeout(T_OP, victim.get_option(LAST_ENDPOINT)).await, Ok(Ok(_)));
  let _ = timeout(T_OP, victim.close()).await;
  let _ = timeout(T_OP, p2.close()).await;
  let _ = timeout(Duration::from_millis(3000), ctx.term()).await;
  json!({"rows": [[scn, (s1 && r1 && resumed) as u64, ops_ok as u64]],
         "detail": format!("first leg sent={s1} recv={r1}; rebound={rebound} sent_after={sent_after} resumed={resumed} ops={ops_ok}")})
}

/// One pacing run against a raw listener that accepts and immediately drops.
/// Returns (gaps in ms between consecutive accepts, socket still answers, monitor event kinds).
async fn timing_run(ivl: i32, max: i32, want: usize, stall_after: Duration, hold: Duration) -> (Vec<u64>, bool, String) {
  let ctx = Context::new().expect("ctx");
  let victim = mk(&ctx, SocketType::Push).await;
  let _ = victim.set_option(RECONNECT_IVL, ivl).await;
  let _ = victim.set_option(RECONNECT_IVL_MAX, max).await;
  let mon = victim.monitor_default().await.ok();
  let l = TcpListener::bind("127.0.0.1:0").await.expect("raw listener");
  let ep = format!("tcp://{}", l.local_addr().unwrap());
  let _ = timeout(T_OP, victim.connect(&ep)).await;
  let mut stamps: Vec<Instant> = Vec::new();
  let mut last = Instant::now();
  while stamps.len() < want && last.elapsed() < stall_after {
    if let Ok(Ok((s, _))) = timeout(Duration::from_millis(100), l.accept()).await {
      last = Instant::now();
      stamps.push(last);
      if !hold.is_zero() {
        sleep(hold).await;
      }
      drop(s);
    }
  }
  let ops_ok = matches!(timeout(T_OP, victim.get_option(LAST_ENDPOINT)).await, Ok(Ok(_)));
  let mut evs = String::new();
  if let Some(m) = mon {
    while let Ok(Ok(e)) = timeout(Duration::from_millis(5), m.recv()).await {
      let d = format!("{:?}", e);
      evs.push_str(d.split(|ch: char| ch == ' ' || ch == '{').next().unwrap_or("?"));
      evs.push(' ');
      if evs.len() > 300 {
        break;
      }
    }
  }
  let _ = timeout(T_OP, victim.close()).await;
  let _ = timeout(Duration::from_millis(3000), ctx.term()).await;
  (stamps.windows(2).map(|w| (w[1] - w[0]).as_millis() as u64).collect(), ops_ok, evs.trim_end().to_string())
}

/// Scenario 20: reconnect pacing against a listener that accepts, holds the connection for `hold_ms`
/// and drops it. Row: [20, gap_1_ms, gap_2_ms, ...] of the first run in which the socket kept retrying
/// until `accepts` connections were seen; runs in which the retries STOPPED (no further attempt within
/// `stall_ms` although the listener is up) are counted in `stalled_runs`.
async fn scenario_timing(scn: u64, c: &Value) -> Value {
  let ivl = c["ivl_ms"].as_i64().unwrap_or(100) as i32;
  let max = c["max_ms"].as_i64().unwrap_or(400) as i32;
  let want = c["accepts"].as_u64().unwrap_or(6) as usize;
  let tries = c["tries"].as_u64().unwrap_or(5);
  let stall_after = Duration::from_millis(c["stall_ms"].as_u64().unwrap_or(2000));
  let hold = Duration::from_millis(c["hold_ms"].as_u64().unwrap_or(60));
  let mut stalled_runs = 0u64;
  let mut stalled_at: Vec<usize> = Vec::new();
  let mut last = (Vec::new(), true, String::new());
  for _ in 0..tries {
    last = timing_run(ivl, max, want, stall_after, hold).await;
    if last.0.len() + 1 >= want {
      break;
    }
    stalled_runs += 1;
    stalled_at.push(last.0.len() + 1);
  }
  let mut row = vec![scn];
  row.extend(last.0.iter());
  json!({"rows": [row], "stalled_runs": stalled_runs,
         "detail": format!("stalled_runs={stalled_runs} (stopped after {stalled_at:?} accepts) ops={} monitor=[{}]", last.1, last.2)})
}

/// Scenario 15: the peer of an outbound connection accepts, reads what the socket sends, writes `pre` bytes of a
/// greeting (0 = nothing at all) and then closes ORDERLY (FIN, no reset) before the handshake completes - a port
/// forwarder with a dead backend. The listener disappears; later a real PULL binds the same port: the connection
/// must be retried and traffic must resume. Row: [15, resumed, socket_still_answers].
async fn scenario_silent_fin(scn: u64, c: &Value) -> Value {
  use tokio::io::{AsyncReadExt, AsyncWriteExt};
  let pre = c["pre"].as_u64().unwrap_or(0) as usize;
  let ctx = Context::new().expect("ctx");
  let victim = mk(&ctx, SocketType::Push).await;
  let _ = victim.set_option(RECONNECT_IVL, 100i32).await;
  let _ = victim.set_option(RECONNECT_IVL_MAX, 400i32).await;
  let _ = victim.set_option(SNDTIMEO, 100i32).await;
  let l = TcpListener::bind("127.0.0.1:0").await.expect("raw listener");
  let ep = format!("tcp://{}", l.local_addr().unwrap());
  // scenario 16: the application calls connect() `connects` times for the same endpoint (its own retry logic); every
  // one of the connections is accepted and then closed by the peer
  let connects = c["connects"].as_u64().unwrap_or(1).max(1);
  for _ in 0..connects {
    let _ = timeout(T_OP, victim.connect(&ep)).await;
  }
  let mut accepted = false;
  for _ in 0..connects {
    let Ok(Ok((mut s, _))) = timeout(Duration::from_millis(2000), l.accept()).await else { break };
    accepted = true;
    let greeting: [u8; 12] = [0xFF, 0, 0, 0, 0, 0, 0, 0, 1, 0x7F, 3, 0];
    if pre > 0 {
      let _ = s.write_all(&greeting[..pre.min(12)]).await;
    }
    // drain what the socket wrote, so that closing sends FIN and not RST
    let t = Instant::now();
    let mut buf = [0u8; 256];
    while t.elapsed() < Duration::from_millis(200) {
      match timeout(Duration::from_millis(50), s.read(&mut buf)).await {
        Ok(Ok(0)) | Ok(Err(_)) => break,
        _ => {}
      }
    }
    let _ = s.shutdown().await;
    drop(s);
  }
  drop(l);
  sleep(Duration::from_millis(300)).await;
  let p2 = mk(&ctx, SocketType::Pull).await;
  let mut rebound = false;
  for _ in 0..20 {
    if let Ok(Ok(())) = timeout(T_OP, p2.bind(&ep)).await {
      rebound = true;
      break;
    }
    sleep(Duration::from_millis(100)).await;
  }
  let mut resumed = false;
  let mut sent_after = 0u64;
  let deadline = Instant::now() + Duration::from_millis(5000);
  while rebound && Instant::now() < deadline && !resumed {
    if let Ok(Ok(())) = timeout(T_OP, victim.send(Msg::from_vec(sent_after.to_be_bytes().to_vec()))).await {
      sent_after += 1;
    }
    if let Ok(Ok(_)) = timeout(Duration::from_millis(50), p2.recv()).await {
      resumed = true;
    }
  }
  let ops_ok = matches!(timeout(T_OP, victim.get_option(LAST_ENDPOINT)).await, Ok(Ok(_)));
  let _ = timeout(T_OP, victim.close()).await;
  let _ = timeout(T_OP, p2.close()).await;
  let _ = timeout(Duration::from_millis(3000), ctx.term()).await;
  json!({"rows": [[scn, (accepted && resumed) as u64, ops_ok as u64]],
         "detail": format!("pre={pre} accepted={accepted} rebound={rebound} sent_after={sent_after} resumed={resumed} ops={ops_ok}")})
}

/// Scenario 21: the listener drops every connection IMMEDIATELY after accepting it. The socket must keep
/// retrying. Row: [21, kept_retrying_in_every_run, socket_still_answers].
async fn scenario_accept_drop(scn: u64, c: &Value) -> Value {
  let runs = c["runs"].as_u64().unwrap_or(4);
  let want = c["accepts"].as_u64().unwrap_or(4) as usize;
  let stall_after = Duration::from_millis(c["stall_ms"].as_u64().unwrap_or(1600));
  let mut stalled_at: Vec<usize> = Vec::new();
  let mut ops_all = true;
  for _ in 0..runs {
    let (gaps, ops_ok, _) = timing_run(100, 400, want, stall_after, Duration::ZERO).await;
    ops_all &= ops_ok;
    if gaps.len() + 1 < want {
      stalled_at.push(gaps.len() + 1);
    }
  }
  json!({"rows": [[scn, stalled_at.is_empty() as u64, ops_all as u64]],
         "detail": format!("{} of {runs} runs stopped retrying (after {stalled_at:?} accepts)", stalled_at.len())})
}

/// Scenario 22: the delays the TCP connecter itself sleeps (monitor event `ConnectRetried { interval }`)
/// after `hangs` connections in a row were lost before the handshake completed (the raw peer accepts and
/// hangs up: the per-endpoint attempt count grows and is inherited by the next connecter) and the listener
/// then disappears (connect refused) for `down_ms`; finally a real PULL binds the port and traffic must
/// resume. Row: [22, resumed, socket_still_answers, interval_1_ms, interval_2_ms, ...] (reported values, not
/// wall-clock measurements).
async fn scenario_retry_intervals(scn: u64, c: &Value) -> Value {
  use rzmq::socket::SocketEvent;
  let ivl = c["ivl_ms"].as_i64().unwrap_or(50) as i32;
  let max = c["max_ms"].as_i64().unwrap_or(200) as i32;
  let hangs = c["hangs"].as_u64().unwrap_or(4);
  let down = Duration::from_millis(c["down_ms"].as_u64().unwrap_or(1200));
  let ctx = Context::new().expect("ctx");
  let victim = mk(&ctx, SocketType::Push).await;
  let _ = victim.set_option(RECONNECT_IVL, ivl).await;
  let _ = victim.set_option(RECONNECT_IVL_MAX, max).await;
  let _ = victim.set_option(SNDTIMEO, 300i32).await;
  let mon = match victim.monitor(4000).await {
    Ok(m) => m,
    Err(_) => return json!({"rows": [[scn, 0, 0]], "detail": "monitor failed"}),
  };
  let l = TcpListener::bind("127.0.0.1:0").await.expect("raw listener");
  let addr = l.local_addr().unwrap();
  let ep = format!("tcp://{addr}");
  let _ = timeout(T_OP, victim.connect(&ep)).await;
  let mut accepted = 0u64;
  while accepted < hangs {
    match timeout(Duration::from_secs(6), l.accept()).await {
      Ok(Ok((s, _))) => {
        accepted += 1;
        sleep(Duration::from_millis(40)).await;
        drop(s);
      }
      _ => break,
    }
  }
  drop(l);
  let mut intervals: Vec<u64> = Vec::new();
  let collect = |ev: &SocketEvent, out: &mut Vec<u64>| {
    if let SocketEvent::ConnectRetried { interval, .. } = ev {
      out.push(interval.as_millis() as u64);
    }
  };
  let t_down = Instant::now();
  while t_down.elapsed() < down {
    if let Ok(Ok(ev)) = timeout(Duration::from_millis(50), mon.recv()).await {
      collect(&ev, &mut intervals);
    }
  }
  // the peer comes back
  let p2 = mk(&ctx, SocketType::Pull).await;
  let mut rebound = false;
  for _ in 0..20 {
    if let Ok(Ok(())) = timeout(T_OP, p2.bind(&ep)).await {
      rebound = true;
      break;
    }
    sleep(Duration::from_millis(100)).await;
  }
  let mut resumed = false;
  let deadline = Instant::now() + Duration::from_millis(8000);
  while rebound && Instant::now() < deadline && !resumed {
    let _ = timeout(T_OP, victim.send(Msg::from_vec(vec![7u8; 8]))).await;
    if let Ok(Ok(_)) = timeout(Duration::from_millis(50), p2.recv()).await {
      resumed = true;
    }
    while let Ok(Ok(ev)) = timeout(Duration::from_millis(1), mon.recv()).await {
      collect(&ev, &mut intervals);
    }
  }
  let ops_ok = matches!(timeout(T_OP, victim.get_option(LAST_ENDPOINT)).await, Ok(Ok(_)));
  let _ = timeout(T_OP, victim.close()).await;
  let _ = timeout(T_OP, p2.close()).await;
  let _ = timeout(Duration::from_millis(3000), ctx.term()).await;
  let mut row = vec![scn, resumed as u64, ops_ok as u64];
  row.extend(intervals.iter());
  json!({"rows": [row], "detail": format!("accepted {accepted} of {hangs} hang-ups; rebound={rebound} resumed={resumed} ops={ops_ok}")})
}

/// Scenario 30: a quiet victim socket while OTHER sockets of the same context produce a burst of
/// system events (inproc connects/disconnects, tcp connects). The victim must stay up.
async fn scenario_event_burst(scn: u64, c: &Value) -> Value {
  let n = c["n"].as_u64().unwrap_or(30);
  let burst = c["burst"].as_u64().unwrap_or(600);
  let ctx = Context::new().expect("ctx");
  let victim = mk(&ctx, SocketType::Pull).await;
  let mon = victim.monitor(4096).await.ok();
  let bound = matches!(timeout(T_OP, victim.bind("tcp://127.0.0.1:0")).await, Ok(Ok(())));
  let tcp_ep = tcp_endpoint_of(&victim).await.unwrap_or_default();
  let healthy = mk(&ctx, SocketType::Push).await;
  let _ = healthy.set_option(SNDTIMEO, 1500i32).await;
  let conn = matches!(timeout(T_OP, healthy.connect(&tcp_ep)).await, Ok(Ok(())));
  if !(bound && conn) {
    return json!({"rows": [[scn, 0, 0]], "detail": "setup failed"});
  }
  let mut got: Vec<u64> = Vec::new();
  let mut other = 0u64;
  let s1 = send_numbered(&healthy, 0, n).await;
  let r1 = recv_numbered(&victim, n as usize, Duration::from_millis(2000), &mut got, &mut other).await;
  // other sockets: one inproc binder, many short-lived connectors
  let binder = mk(&ctx, SocketType::Pull).await;
  let bep = unique_inproc();
  let _ = timeout(T_OP, binder.bind(&bep)).await;
  let mut hs = Vec::new();
  for w in 0..8u64 {
    let ctx2 = ctx.clone();
    let bep2 = bep.clone();
    hs.push(tokio::spawn(async move {
      for _ in 0..burst / 8 {
        let p = ctx2.socket(SocketType::Push).expect("socket");
        let ok = matches!(timeout(T_OP, p.connect(&bep2)).await, Ok(Ok(())));
        let _ = timeout(T_OP, p.close()).await;
        if !ok {
          break; // the binder itself is gone (it can lag too): nothing more to generate
        }
      }
      w
    }));
  }
  let s2 = send_numbered(&healthy, n, n).await;
  for h in hs {
    let _ = timeout(Duration::from_millis(20000), h).await;
  }
  let s3 = send_numbered(&healthy, 2 * n, n).await;
  let r3 = recv_numbered(&victim, 3 * n as usize, Duration::from_millis(2000), &mut got, &mut other).await;
  let (ops_ok, bind_ok, accept_ok) = victim_usable(&ctx, &victim, &tcp_ep, false, &mut got, &mut other).await;
  let in_order = got.iter().enumerate().all(|(i, &x)| x == i as u64);
  let healthy_ok = s1 && r1 && s2 && s3 && r3 && in_order && got.len() == 3 * n as usize;
  let usable = ops_ok && bind_ok && accept_ok;
  let mut evs = String::new();
  if let Some(m) = mon {
    while let Ok(Ok(e)) = timeout(Duration::from_millis(5), m.recv()).await {
      let d = format!("{:?}", e);
      let kind = d.split(|ch: char| ch == ' ' || ch == '{').next().unwrap_or("?").to_string();
      if kind != "Accepted" && kind != "HandshakeSucceeded" && kind != "Listening" && evs.len() < 300 {
        evs.push_str(&d.chars().take(90).collect::<String>());
        evs.push(' ');
      }
    }
  }
  let _ = timeout(T_OP, binder.close()).await;
  let _ = timeout(T_OP, healthy.close()).await;
  let _ = timeout(T_OP, victim.close()).await;
  let _ = timeout(Duration::from_millis(5000), ctx.term()).await;
  json!({"rows": [[scn, healthy_ok as u64, usable as u64]],
         "detail": format!("burst={burst}; sent=({s1},{s2},{s3}) recv=({r1},{r3}) got={} in_order={in_order} ops={ops_ok} bind={bind_ok} accept={accept_ok} victim_monitor=[{}]", got.len(), evs.trim_end())})
}

/// Scenario 31: a victim socket with healthy traffic while the application creates (and later closes) many
/// OTHER sockets in the same context in one go. Nothing is ever connected to the victim by them.
async fn scenario_socket_burst(scn: u64, c: &Value) -> Value {
  let n = c["n"].as_u64().unwrap_or(30);
  let k = c["sockets"].as_u64().unwrap_or(300);
  let ctx = Context::new().expect("ctx");
  let victim = mk(&ctx, SocketType::Pull).await;
  let bound = matches!(timeout(T_OP, victim.bind("tcp://127.0.0.1:0")).await, Ok(Ok(())));
  let tcp_ep = tcp_endpoint_of(&victim).await.unwrap_or_default();
  let healthy = mk(&ctx, SocketType::Push).await;
  let _ = healthy.set_option(SNDTIMEO, 1500i32).await;
  let conn = matches!(timeout(T_OP, healthy.connect(&tcp_ep)).await, Ok(Ok(())));
  if !(bound && conn) {
    return json!({"rows": [[scn, 0, 0]], "detail": "setup failed"});
  }
  let mut got: Vec<u64> = Vec::new();
  let mut other = 0u64;
  let s1 = send_numbered(&healthy, 0, n).await;
  let r1 = recv_numbered(&victim, n as usize, Duration::from_millis(2000), &mut got, &mut other).await;
  // the "other sockets": created back to back without yielding to the runtime
  let mut others: Vec<Socket> = Vec::new();
  for _ in 0..k {
    if let Ok(s) = ctx.socket(SocketType::Dealer) {
      others.push(s);
    }
  }
  sleep(Duration::from_millis(300)).await;
  let s2 = send_numbered(&healthy, n, n).await;
  let s3 = send_numbered(&healthy, 2 * n, n).await;
  let r3 = recv_numbered(&victim, 3 * n as usize, Duration::from_millis(2000), &mut got, &mut other).await;
  let (ops_ok, bind_ok, accept_ok) = victim_usable(&ctx, &victim, &tcp_ep, false, &mut got, &mut other).await;
  let in_order = got.iter().enumerate().all(|(i, &x)| x == i as u64);
  let healthy_ok = s1 && r1 && s2 && s3 && r3 && in_order && got.len() == 3 * n as usize;
  let usable = ops_ok && bind_ok && accept_ok;
  let created = others.len();
  drop(others);
  let _ = timeout(T_OP, healthy.close()).await;
  let _ = timeout(T_OP, victim.close()).await;
  let _ = timeout(Duration::from_millis(8000), ctx.term()).await;
  json!({"rows": [[scn, healthy_ok as u64, usable as u64]],
         "detail": format!("created {created} other sockets; sent=({s1},{s2},{s3}) recv=({r1},{r3}) got={} in_order={in_order} ops={ops_ok} bind={bind_ok} accept={accept_ok}", got.len())})
}

fn run_stack(c: &Value) -> Value {
  let scn = c["scn"].as_u64().unwrap();
  let n = c["n"].as_u64().unwrap_or(30);
  let workers = c["workers"].as_u64().unwrap_or(4) as usize;
  let rt = if workers == 0 {
    tokio::runtime::Builder::new_current_thread().enable_all().build().expect("runtime")
  } else {
    tokio::runtime::Builder::new_multi_thread().worker_threads(workers).enable_all().build().expect("runtime")
  };
  let c2 = c.clone();
  let out = rt.block_on(async move {
    let fut = async {
      match scn {
        1..=7 | 11 | 13 | 14 => scenario_inbound(scn, n).await,
        8..=10 => scenario_outbound(scn, n).await,
        12 => scenario_resume(scn, n).await,
        15 | 16 => scenario_silent_fin(scn, &c2).await,
        20 => scenario_timing(scn, &c2).await,
        21 => scenario_accept_drop(scn, &c2).await,
        22 => scenario_retry_intervals(scn, &c2).await,
        30 => scenario_event_burst(scn, &c2).await,
        31 => scenario_socket_burst(scn, &c2).await,
        _ => json!({"rows": [[scn, 9, 9]], "detail": "unknown scenario"}),
      }
    };
    match timeout(Duration::from_secs(40), fut).await {
      Ok(v) => v,
      Err(_) => json!({"rows": [[scn, 0, 0]], "detail": "scenario timed out (40 s)"}),
    }
  });
  rt.shutdown_timeout(Duration::from_millis(500));
  out
}

pub fn run_case(c: &Value) -> Value {
  match c["k"].as_str().unwrap_or("") {
    "bo" => run_backoff(c),
    "iso" => run_stack(c),
    other => json!({"rows": [[99]], "detail": format!("unknown kind {other}")}),
  }
}

/// Runs all cases; stack scenarios that do not measure time run four at a time (each has its own
/// runtime and Context), everything else sequentially. Results keep the order of `cases`.
pub fn run_all(cases: &[Value]) -> Vec<Value> {
  let parallel_ok = |c: &Value| c["k"].as_str() == Some("iso") && !matches!(c["scn"].as_u64(), Some(20) | Some(21) | Some(22) | Some(30) | Some(31));
  let mut out: Vec<Option<Value>> = cases.iter().map(|_| None).collect();
  let idx: Vec<usize> = (0..cases.len()).filter(|&i| parallel_ok(&cases[i])).collect();
  for chunk in idx.chunks(4) {
    let res: Vec<(usize, Value)> = std::thread::scope(|sc| {
      let hs: Vec<_> = chunk.iter().map(|&i| sc.spawn(move || (i, run_case(&cases[i])))).collect();
      hs.into_iter()
        .map(|h| h.join().unwrap_or_else(|_| (usize::MAX, json!({"rows": [[98]], "panic": true}))))
        .collect()
    });
    for (i, v) in res {
      if i != usize::MAX {
        out[i] = Some(v);
      }
    }
  }
  for i in 0..cases.len() {
    if out[i].is_none() {
      out[i] = Some(if parallel_ok(&cases[i]) { json!({"rows": [[98]], "panic": true}) } else { run_case(&cases[i]) });
    }
  }
  out.into_iter().map(|v| v.unwrap()).collect()
}
