//! C18: encrypted connections (CURVE, NOISE_XX). Pairs of REAL `ZmtpEngine`s complete the real
//! handshake; generated batches are sent through the real record layer; the emitted bytes are
//! searched for payload markers, mutated, re-segmented and fed to the real peer engine.
use crate::c03::mk_msg;
use crate::eng::{msg_row, phase_code};
use crate::util::*;
use bytes::Bytes;
use rzmq::protocol::zmtp::actions::{AppAction, EngineOutput, NetAction};
use rzmq::protocol::zmtp::engine::{ZmtpEngine, ZmtpPhase};
use rzmq::verif::engine::{new_engine, VEngineConfig};
use rzmq::verif::sec::{curve_public_key, noise_public_key};
use rzmq::FrameBatch;
use serde_json::{json, Value};
use std::panic::{catch_unwind, AssertUnwindSafe};
use std::time::{Duration, Instant};

fn sk_of(seed: u64, who: u64) -> [u8; 32] {
  let v = fill(32, (seed * 7 + who * 97 + 3) % 256);
  let mut k = [0u8; 32];
  k.copy_from_slice(&v);
  // keep the scalar away from the all-zero / tiny cases
  k[0] ^= (seed & 0xff) as u8;
  k[31] ^= ((seed >> 8) & 0xff) as u8;
  k
}

fn mk_pair(c: &Value) -> (ZmtpEngine, ZmtpEngine) {
  let mech = c["mech"].as_str().unwrap();
  let seed = u(c, "seed");
  let (csk, ssk) = (sk_of(seed, 0), sk_of(seed, 1));
  let mut cc = VEngineConfig::default();
  let mut sc = VEngineConfig::default();
  cc.socket_type_name = "DEALER".into();
  sc.socket_type_name = "ROUTER".into();
  for cfg in [&mut cc, &mut sc] {
    cfg.security_enabled = true;
    cfg.max_msg_size = c.get("maxsz").and_then(|v| v.as_i64()).unwrap_or(-1);
    if let Some(h) = c.get("hb") {
      cfg.heartbeat_ivl = h.get("ivl").and_then(|v| v.as_u64()).map(Duration::from_millis);
      cfg.heartbeat_timeout = h.get("timeout").and_then(|v| v.as_u64()).map(Duration::from_millis);
    } else {
      cfg.heartbeat_ivl = None;
      cfg.heartbeat_timeout = None;
    }
  }
  if mech == "curve" {
    cc.use_curve = true;
    sc.use_curve = true;
    cc.curve_local_secret_key = Some(csk);
    cc.curve_remote_public_key = Some(curve_public_key(&ssk));
    sc.curve_local_secret_key = Some(ssk);
  } else {
    cc.use_noise_xx = true;
    sc.use_noise_xx = true;
    cc.noise_xx_local_sk = Some(csk);
    cc.noise_xx_remote_pk = Some(noise_public_key(&ssk));
    sc.noise_xx_local_sk = Some(ssk);
  }
  (new_engine(false, &cc), new_engine(true, &sc))
}

fn sends(out: &EngineOutput) -> Vec<u8> {
  let mut v = Vec::new();
  for a in &out.net_actions {
    if let NetAction::Send { data, .. } = a {
      v.extend_from_slice(data);
    }
  }
  v
}

/// shuttle handshake bytes until both engines are in Data (or one closes)
fn handshake(cl: &mut ZmtpEngine, sv: &mut ZmtpEngine) -> bool {
  let mut to_s = sends(&cl.start());
  let mut to_c = sends(&sv.start());
  for _ in 0..64 {
    let mut progressed = false;
    if !to_c.is_empty() {
      let d = std::mem::take(&mut to_c);
      let out = cl.on_network_bytes(Bytes::from(d));
      to_s.extend(sends(&out));
      progressed = true;
    }
    if !to_s.is_empty() {
      let d = std::mem::take(&mut to_s);
      let out = sv.on_network_bytes(Bytes::from(d));
      to_c.extend(sends(&out));
      progressed = true;
    }
    if cl.phase == ZmtpPhase::Closed || sv.phase == ZmtpPhase::Closed {
      return false;
    }
    if cl.phase == ZmtpPhase::Data && sv.phase == ZmtpPhase::Data && to_c.is_empty() && to_s.is_empty() {
      return true;
    }
    if !progressed {
      break;
    }
  }
  false
}

fn find(hay: &[u8], needle: &[u8]) -> bool {
  !needle.is_empty() && hay.len() >= needle.len() && hay.windows(needle.len()).any(|w| w == needle)
}

fn frames_of(v: &Value) -> FrameBatch {
  let mut fb = FrameBatch::new();
  for f in v.as_array().unwrap() {
    fb.push(mk_msg(f));
  }
  fb
}

fn pt_len(groups: &[FrameBatch]) -> u64 {
  let mut n = 0u64;
  for g in groups {
    for m in g {
      let l = m.size() as u64;
      n += if l <= 255 { 2 + l } else { 9 + l };
    }
  }
  n
}

fn needles(groups: &[FrameBatch], out: &mut Vec<Vec<u8>>) {
  for g in groups {
    for m in g {
      let d = m.data().unwrap_or(&[]);
      if d.len() >= 8 {
        out.push(d[..d.len().min(16)].to_vec());
      }
    }
  }
}

/// rows for the app side of an EngineOutput plus raw sends; returns the bytes sent
fn recv_rows(out: &EngineOutput, rows: &mut Vec<Vec<u64>>) -> Vec<u8> {
  let mut sent = Vec::new();
  for a in &out.net_actions {
    if let NetAction::Send { data, .. } = a {
      sent.extend_from_slice(data);
      let mut r = vec![1];
      r.extend(digest(data));
      rows.push(r);
    }
  }
  for a in &out.app_actions {
    match a {
      AppAction::HandshakeComplete { .. } => rows.push(vec![5]),
      AppAction::DeliverMessage(fb) => {
        rows.push(vec![6, fb.len() as u64]);
        for m in fb {
          rows.push(msg_row(m));
        }
      }
      AppAction::PeerError(_) => rows.push(vec![8, 0]),
    }
  }
  sent
}

struct Item {
  kind: u64, // 0 one record, 1 raw (outside the record layer)
  bytes: Vec<u8>,
}

fn run_flow(c: &Value) -> Value {
  let (mut cl, mut sv) = mk_pair(c);
  let mut rows: Vec<Vec<u64>> = Vec::new();
  let ok = handshake(&mut cl, &mut sv);
  rows.push(vec![50, ok as u64, phase_code(cl.phase), phase_code(sv.phase)]);
  if !ok {
    return json!({"rows": rows, "hs": false});
  }
  let dir = c.get("dir").and_then(|v| v.as_u64()).unwrap_or(0);
  let (mut snd, mut rcv) = if dir == 0 { (cl, sv) } else { (sv, cl) };
  let base = Instant::now();
  let mut items: Vec<Item> = Vec::new();
  let mut needle: Vec<Vec<u8>> = Vec::new();
  let mut sent_msgs: Vec<Value> = Vec::new(); // per step: null | list of messages (list of frame rows)
  let mut clear = false;

  for st in c["steps"].as_array().unwrap() {
    let r = catch_unwind(AssertUnwindSafe(|| {
      if let Some(fs) = st.get("app") {
        let fb = frames_of(fs);
        let groups = vec![fb.clone()];
        let out = snd.on_app_message(fb);
        let err = out.app_actions.iter().any(|a| matches!(a, AppAction::PeerError(_)));
        (groups, if err { None } else { Some(sends(&out)) }, 0u64)
      } else if let Some(gs) = st.get("batch") {
        let groups: Vec<FrameBatch> = gs.as_array().unwrap().iter().map(frames_of).collect();
        let res = snd.frame_batch(&groups);
        (groups, res.ok().map(|b| b.to_vec()), 0u64)
      } else if let Some(t) = st.get("tick") {
        let out = snd.on_tick(base + Duration::from_millis(t.as_u64().unwrap()));
        let err = out.app_actions.iter().any(|a| matches!(a, AppAction::PeerError(_)));
        (Vec::new(), if err { None } else { Some(sends(&out)) }, 1u64)
      } else {
        panic!("bad step {st}")
      }
    }));
    match r {
      Err(_) => {
        rows.push(vec![9]);
        sent_msgs.push(Value::Null);
      }
      Ok((groups, res, kind)) => {
        needles(&groups, &mut needle);
        match res {
          None => {
            rows.push(vec![12]);
            sent_msgs.push(Value::Null);
          }
          Some(w) if w.is_empty() => {
            rows.push(vec![13]);
            sent_msgs.push(Value::Null);
          }
          Some(w) => {
            let found = needle.iter().any(|n| find(&w, n));
            clear |= found;
            if kind == 0 {
              // one write call = one or more length-prefixed records: walk the prefixes
              let mut row = vec![10, w.len() as u64, pt_len(&groups), found as u64];
              let mut pos = 0usize;
              while pos + 2 <= w.len() {
                let l = ((w[pos] as usize) << 8) | w[pos + 1] as usize;
                if pos + 2 + l > w.len() {
                  break;
                }
                row.push(l as u64);
                items.push(Item { kind, bytes: w[pos..pos + 2 + l].to_vec() });
                pos += 2 + l;
              }
              if pos < w.len() {
                row.push(999999);
                items.push(Item { kind, bytes: w[pos..].to_vec() });
              }
              rows.push(row);
              let msgs: Vec<Value> =
                groups.iter().map(|g| json!(g.iter().map(|m| msg_row(m)).collect::<Vec<_>>())).collect();
              sent_msgs.push(json!(msgs));
            } else {
              let mut row = vec![11, found as u64];
              row.extend(digest(&w));
              rows.push(row);
              sent_msgs.push(Value::Null);
              items.push(Item { kind, bytes: w });
            }
          }
        }
      }
    }
  }

  // item-level mutations, then byte-level mutations of the concatenated stream
  let mut idx: Vec<usize> = (0..items.len()).collect();
  if let Some(ms) = c.get("imuts").and_then(|v| v.as_array()) {
    for m in ms {
      let i = u(m, "i") as usize;
      match m["op"].as_str().unwrap() {
        "drop" if i < idx.len() => {
          idx.remove(i);
        }
        "dup" if i < idx.len() => {
          let x = idx[i];
          idx.insert(i, x);
        }
        "swap" if i + 1 < idx.len() => idx.swap(i, i + 1),
        _ => {}
      }
    }
  }
  let mut stream: Vec<u8> = Vec::new();
  for &i in &idx {
    stream.extend_from_slice(&items[i].bytes);
  }
  if let Some(ms) = c.get("bmuts").and_then(|v| v.as_array()) {
    for m in ms {
      let at = u(m, "at") as usize;
      match m["op"].as_str().unwrap() {
        "flip" if at < stream.len() => stream[at] ^= 1u8 << (u(m, "bit") % 8),
        "trunc" if at <= stream.len() => stream.truncate(at),
        "inject" if at <= stream.len() => {
          let d = payload_of(&m["data"]);
          let tail = stream.split_off(at);
          stream.extend_from_slice(&d);
          stream.extend_from_slice(&tail);
        }
        _ => {}
      }
    }
  }
  let cuts: Vec<u64> = c.get("cuts").and_then(|v| v.as_array()).map(|a| a.iter().map(|x| x.as_u64().unwrap()).collect()).unwrap_or_default();
  let mut back: Vec<u8> = Vec::new();
  let mut dead = false;
  for ch in cut(&stream, &cuts) {
    if dead {
      break;
    }
    let r = catch_unwind(AssertUnwindSafe(|| rcv.on_network_bytes(Bytes::from(ch))));
    match r {
      Ok(out) => back.extend(recv_rows(&out, &mut rows)),
      Err(_) => {
        rows.push(vec![9]);
        dead = true;
      }
    }
  }
  if dead {
    rows.push(vec![99, 5, 0, 0]);
  } else {
    rows.push(vec![99, phase_code(rcv.phase), rcv.buffer_len() as u64, rcv.is_waiting_for_pong() as u64]);
  }
  // whatever the receiver put on the wire (PONG replies) goes back to the sender
  rows.push(vec![60, back.len() as u64]);
  if !back.is_empty() {
    let r = catch_unwind(AssertUnwindSafe(|| snd.on_network_bytes(Bytes::from(back))));
    match r {
      Ok(out) => {
        recv_rows(&out, &mut rows);
      }
      Err(_) => rows.push(vec![9]),
    }
  }
  rows.push(vec![98, phase_code(snd.phase), snd.buffer_len() as u64, snd.is_waiting_for_pong() as u64]);
  if let Some(t) = c.get("fb_tick").and_then(|v| v.as_u64()) {
    let out = snd.on_tick(base + Duration::from_millis(t));
    rows.push(vec![61]);
    recv_rows(&out, &mut rows);
    rows.push(vec![97, phase_code(snd.phase)]);
  }
  json!({"rows": rows, "hs": true, "sent": sent_msgs, "clear": clear})
}

/// two complete sessions with identical static keys; the same message is the first data record of both
fn run_sessions(c: &Value) -> Value {
  let mut first: Vec<Vec<u8>> = Vec::new();
  let mut ok_all = true;
  for _ in 0..2 {
    let (mut cl, mut sv) = mk_pair(c);
    let ok = handshake(&mut cl, &mut sv);
    ok_all &= ok;
    if !ok {
      first.push(vec![]);
      continue;
    }
    let dir = c.get("dir").and_then(|v| v.as_u64()).unwrap_or(0);
    let snd = if dir == 0 { &mut cl } else { &mut sv };
    let out = snd.on_app_message(frames_of(&c["msg"]));
    first.push(sends(&out));
  }
  let eq = ok_all && !first[0].is_empty() && first[0] == first[1];
  json!({"rows": [[70, ok_all as u64, eq as u64, first[0].len() as u64, first[1].len() as u64]], "hs": ok_all})
}

/// Reflection: after `warm` messages each way (so that the victim's receive counter equals its send counter), the
/// victim's NEXT record is played back into the victim's own incoming stream.
/// rows: [[62, handshake ok, warm-up messages delivered (both ways), messages the victim delivered from its own
///         record, victim reported an error, victim closed]]
fn run_reflect(c: &Value) -> Value {
  let (mut cl, mut sv) = mk_pair(c);
  let ok = handshake(&mut cl, &mut sv);
  if !ok {
    return json!({"rows": [[62, 0, 0, 0, 0, 0]], "hs": false});
  }
  let victim_is_client = c.get("dir").and_then(|v| v.as_u64()).unwrap_or(0) == 0;
  let warm = c.get("warm").and_then(|v| v.as_u64()).unwrap_or(0);
  let mut warm_ok = 0u64;
  let count = |out: &EngineOutput| out.app_actions.iter().filter(|a| matches!(a, AppAction::DeliverMessage(_))).count() as u64;
  for i in 0..warm {
    let o1 = cl.on_app_message(frames_of(&json!([{"len": 20, "seed": i}])));
    let w1 = sends(&o1);
    warm_ok += count(&sv.on_network_bytes(Bytes::from(w1)));
    let o2 = sv.on_app_message(frames_of(&json!([{"len": 24, "seed": 100 + i}])));
    let w2 = sends(&o2);
    warm_ok += count(&cl.on_network_bytes(Bytes::from(w2)));
  }
  let victim = if victim_is_client { &mut cl } else { &mut sv };
  let out = victim.on_app_message(frames_of(&c["msg"]));
  let own = sends(&out);
  let r = catch_unwind(AssertUnwindSafe(|| victim.on_network_bytes(Bytes::from(own))));
  match r {
    Ok(o) => {
      let delivered = count(&o);
      let err = o.app_actions.iter().any(|a| matches!(a, AppAction::PeerError(_))) as u64;
      json!({"rows": [[62, 1, warm_ok, delivered, err, (victim.phase == ZmtpPhase::Closed) as u64]], "hs": true})
    }
    Err(_) => json!({"rows": [[62, 1, warm_ok, 0, 9, 1]], "hs": true}),
  }
}

/// Early data: the server has a message ready the moment its handshake completes, so its last handshake bytes (its
/// READY) and the first encrypted data record reach the client in ONE read (join = true) or in separate reads
/// (join = false); `cut` > 0 additionally cuts the joined chunk that many bytes after the start.
/// rows: [[63, handshake reached Data on both sides, messages delivered to the client], [7, ...] per delivered frame]
fn run_early(c: &Value) -> Value {
  let (mut cl, mut sv) = mk_pair(c);
  let mut to_s = sends(&cl.start());
  let mut to_c = sends(&sv.start());
  let mut rows: Vec<Vec<u64>> = Vec::new();
  let mut delivered = 0u64;
  let mut frames: Vec<Vec<u64>> = Vec::new();
  let mut injected = false;
  let join = c.get("join").and_then(|v| v.as_bool()).unwrap_or(true);
  let cut = c.get("cut").and_then(|v| v.as_u64()).unwrap_or(0) as usize;
  let mut feed_client = |cl: &mut ZmtpEngine, d: Vec<u8>, to_s: &mut Vec<u8>| {
    let out = cl.on_network_bytes(Bytes::from(d));
    to_s.extend(sends(&out));
    for a in &out.app_actions {
      if let AppAction::DeliverMessage(fb) = a {
        delivered += 1;
        for m in fb {
          frames.push(msg_row(m));
        }
      }
    }
  };
  for _ in 0..64 {
    let mut progressed = false;
    if !to_s.is_empty() {
      let d = std::mem::take(&mut to_s);
      let out = sv.on_network_bytes(Bytes::from(d));
      to_c.extend(sends(&out));
      progressed = true;
      if sv.phase == ZmtpPhase::Data && !injected {
        // the server's application sends at once
        injected = true;
        let rec = sends(&sv.on_app_message(frames_of(&c["msg"])));
        if join {
          let mut all = std::mem::take(&mut to_c);
          all.extend(rec);
          if cut > 0 && cut < all.len() {
            let tail = all.split_off(cut);
            feed_client(&mut cl, all, &mut to_s);
            feed_client(&mut cl, tail, &mut to_s);
          } else {
            feed_client(&mut cl, all, &mut to_s);
          }
        } else {
          let hs = std::mem::take(&mut to_c);
          feed_client(&mut cl, hs, &mut to_s);
          feed_client(&mut cl, rec, &mut to_s);
        }
        continue;
      }
    }
    if !to_c.is_empty() {
      let d = std::mem::take(&mut to_c);
      feed_client(&mut cl, d, &mut to_s);
      progressed = true;
    }
    if !progressed {
      break;
    }
  }
  let ok = cl.phase == ZmtpPhase::Data && sv.phase == ZmtpPhase::Data && injected;
  rows.push(vec![63, ok as u64, delivered]);
  rows.extend(frames);
  let sent: Vec<Vec<u64>> = frames_of(&c["msg"]).iter().map(|m| msg_row(m)).collect();
  json!({"rows": rows, "hs": ok, "sent": sent})
}

pub fn run_case(c: &Value) -> Value {
  match c["k"].as_str().unwrap() {
    "flow" => run_flow(c),
    "sessions" => run_sessions(c),
    "reflect" => run_reflect(c),
    "early" => run_early(c),
    other => panic!("unknown C18 case kind {other}"),
  }
}
