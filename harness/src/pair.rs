//! Two real engines connected by two byte queues; the harness plays the delivery schedule.
use crate::eng::{out_rows, phase_code, Eng};
use rzmq::protocol::zmtp::actions::EngineOutput;
use serde_json::{json, Value};
use std::collections::VecDeque;

fn split_rows(out: &EngineOutput, net: &mut Vec<Vec<u64>>, app: &mut Vec<Vec<u64>>) -> Vec<u8> {
  let mut rows = Vec::new();
  let sent = out_rows(out, false, &mut rows);
  for r in rows {
    if matches!(r[0], 1 | 2 | 3 | 4) {
      net.push(r);
    } else {
      app.push(r);
    }
  }
  sent.concat()
}

pub fn run_case(c: &Value) -> Value {
  let mut a = Eng::new(&c["a"]);
  let mut b = Eng::new(&c["b"]);
  let (mut neta, mut appa, mut netb, mut appb) = (Vec::new(), Vec::new(), Vec::new(), Vec::new());
  let mut ab: VecDeque<u8> = VecDeque::new();
  let mut ba: VecDeque<u8> = VecDeque::new();
  // start(): both emit their signature
  let oa = a.e.start();
  let ob = b.e.start();
  let (mut d1, mut d2) = (Vec::new(), Vec::new());
  ab.extend(split_rows(&oa, &mut d1, &mut d2));
  ba.extend(split_rows(&ob, &mut d1, &mut d2));
  let mut steps: Vec<(u64, u64)> = c["sched"].as_array().unwrap().iter()
    .map(|s| (s[0].as_u64().unwrap(), s[1].as_u64().unwrap())).collect();
  // then drain eagerly (every schedule considered ends with both channels empty)
  for _ in 0..16 {
    steps.push((0, u64::MAX));
    steps.push((1, u64::MAX));
  }
  for (dir, k) in steps {
    if dir == 0 {
      let n = (k as usize).min(ab.len());
      if n == 0 {
        continue;
      }
      let d: Vec<u8> = ab.drain(..n).collect();
      let out = b.e.on_network_bytes(bytes::Bytes::from(d));
      ba.extend(split_rows(&out, &mut netb, &mut appb));
    } else {
      let n = (k as usize).min(ba.len());
      if n == 0 {
        continue;
      }
      let d: Vec<u8> = ba.drain(..n).collect();
      let out = a.e.on_network_bytes(bytes::Bytes::from(d));
      ab.extend(split_rows(&out, &mut neta, &mut appa));
    }
  }
  let mut rows: Vec<Vec<u64>> = Vec::new();
  rows.push(vec![70, neta.len() as u64, appa.len() as u64]);
  rows.extend(neta);
  rows.extend(appa);
  rows.push(vec![71, netb.len() as u64, appb.len() as u64]);
  rows.extend(netb);
  rows.extend(appb);
  rows.push(vec![99, phase_code(a.e.phase), phase_code(b.e.phase), a.e.buffer_len() as u64, b.e.buffer_len() as u64,
                 ab.len() as u64, ba.len() as u64]);
  json!({"rows": rows})
}
