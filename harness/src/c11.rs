//! C11: ROUTER identity maps, envelope functions and stack-level routing, executed on the real code.
//!
//! case kinds
//!   map     : op history on the real `RouterMap` (through the facade); after every op both maps are dumped sorted
//!   strat   : one `RouterSendStrategy::prepare_wire_frames` call
//!   framing : one of the four auto encode/decode functions, or `FramingLatch::{encode,decode}`
//!   stack   : real ROUTER socket + 1..3 DEALER/REQ peers over inproc or tcp 127.0.0.1
use crate::util::*;
use rzmq::socket::options::{AUTO_DELIMITER, LAST_ENDPOINT, LINGER, RCVTIMEO, ROUTER_MANDATORY, ROUTING_ID, SNDTIMEO};
use rzmq::verif::router::{framing_fn, new_latch, strategy_prepare, VRouterMap};
use rzmq::{Context, FrameBatch, Msg, MsgFlags, Socket, SocketType, ZmqError};
use serde_json::{json, Value};
use std::sync::Arc;
use std::time::Duration;

fn mk_frame(v: &Value) -> Msg {
  let mut m = Msg::from_vec(payload_of(v));
  if b(v, "more") {
    m.set_flags(MsgFlags::MORE);
  }
  m
}

fn mk_frames(v: &Value) -> Vec<Msg> {
  v.as_array().map(|a| a.iter().map(mk_frame).collect()).unwrap_or_default()
}

fn mk_batch(v: &Value) -> FrameBatch {
  let mut fb = FrameBatch::new();
  for m in mk_frames(v) {
    fb.push(m);
  }
  fb
}

/// literal frame row: [tag, more, bytes...]
fn lit_row(tag: u64, m: &Msg) -> Vec<u64> {
  let mut r = vec![tag, m.is_more() as u64];
  r.extend(m.data().unwrap_or(&[]).iter().map(|&x| x as u64));
  r
}

/// digest frame row: [tag, more, len, adler, first8.., last8..]
fn dig_row(tag: u64, m: &Msg) -> Vec<u64> {
  let mut r = vec![tag, m.is_more() as u64];
  r.extend(digest(m.data().unwrap_or(&[])));
  r
}

fn uri_of(n: u64) -> String {
  format!("u{}", n)
}
fn uri_num(s: &str) -> u64 {
  s.strip_prefix('u').and_then(|x| x.parse().ok()).unwrap_or(999_999)
}

fn peer_type_str(t: u64) -> Option<&'static str> {
  match t {
    1 => Some("REQ"),
    2 => Some("DEALER"),
    3 => Some("ROUTER"),
    4 => Some("PUB"),
    _ => None,
  }
}

// ------------------------------------------------------------------ function level

async fn run_map(c: &Value) -> Value {
  let m = VRouterMap::new();
  let mut rows: Vec<Vec<u64>> = Vec::new();
  for op in c["ops"].as_array().unwrap() {
    let before: Vec<u64> = m.dump().1.iter().map(|(p, _)| *p as u64).collect();
    let kind = op["o"].as_str().unwrap();
    match kind {
      "add" => m.add_peer(&bytes_of(&op["id"]), u(op, "p") as usize, uri_of(u(op, "u"))).await,
      "upd" => {
        m.update_peer_identity(u(op, "p") as usize, &bytes_of(&op["id"]), &uri_of(u(op, "u")), peer_type_str(u(op, "t")))
          .await
      }
      "rmp" => m.remove_peer_by_read_pipe(u(op, "p") as usize).await,
      "rmi" => m.remove_peer_by_identity(&bytes_of(&op["id"])).await,
      "send" => {
        let id = bytes_of(&op["id"]);
        let mut idm = Msg::from_vec(id.clone());
        if b(op, "idmore") {
          idm.set_flags(MsgFlags::MORE);
        }
        let latch = new_latch(true, b(op, "manual"));
        match m.prepare_via_stored_strategy(&id, idm, mk_batch(&op["payload"]), &latch).await {
          Some(w) => {
            rows.push(vec![3, 1]);
            for f in w.iter() {
              rows.push(lit_row(7, f));
            }
          }
          None => rows.push(vec![3, 0]),
        }
      }
      "get" => {
        // the two lookup accessors the socket uses
        let id = bytes_of(&op["id"]);
        match m.get_peer_info_for_identity(&id).await {
          Some((uri, s)) => rows.push(vec![4, 1, uri_num(&uri), s as u64]),
          None => rows.push(vec![4, 0]),
        }
        match m.get_identity_by_read_pipe(u(op, "p") as usize).await {
          Some(i) => {
            let mut r = vec![5, 1];
            r.extend(i.iter().map(|&x| x as u64));
            rows.push(r)
          }
          None => rows.push(vec![5, 0]),
        }
      }
      other => panic!("unknown map op {other}"),
    }
    let (fwd, rev) = m.dump();
    let mut removed = 0u64;
    if kind == "rmi" {
      for p in &before {
        if !rev.iter().any(|(q, _)| *q as u64 == *p) {
          removed = *p + 1;
        }
      }
    }
    rows.push(vec![100, fwd.len() as u64, rev.len() as u64, removed]);
    for (id, uri, s) in fwd {
      let mut r = vec![1, uri_num(&uri), s as u64];
      r.extend(id.iter().map(|&x| x as u64));
      rows.push(r);
    }
    for (p, id) in rev {
      let mut r = vec![2, p as u64];
      r.extend(id.iter().map(|&x| x as u64));
      rows.push(r);
    }
  }
  json!({ "rows": rows })
}

fn run_strat(c: &Value) -> Value {
  let latch = new_latch(true, b(c, "manual"));
  let w = strategy_prepare(u(c, "code") as u8, mk_frame(&c["id"]), mk_batch(&c["payload"]), &latch);
  let rows: Vec<Vec<u64>> = w.iter().map(|f| lit_row(7, f)).collect();
  json!({ "rows": rows })
}

fn run_framing(c: &Value) -> Value {
  let mut fb = mk_batch(&c["frames"]);
  match u(c, "which") {
    w @ 0..=3 => framing_fn(w as u8, &mut fb),
    // 4: router latch encode, 5: router latch decode, 6: dealer latch encode, 7: dealer latch decode
    w => {
      let l = new_latch(w < 6, false);
      if b(c, "manual") {
        let first = l.set_manual();
        let second = l.set_manual();
        assert!(first && !second && l.is_manual());
      }
      if w % 2 == 0 {
        l.encode(&mut fb)
      } else {
        l.decode(&mut fb)
      }
    }
  }
  let rows: Vec<Vec<u64>> = fb.iter().map(|f| lit_row(7, f)).collect();
  json!({ "rows": rows })
}

// ------------------------------------------------------------------ stack level

const SHORT_MS: i32 = 60;

fn err_code(e: &ZmqError) -> u64 {
  match e {
    ZmqError::HostUnreachable(_) => 1,
    ZmqError::InvalidMessage(_) => 2,
    ZmqError::Timeout | ZmqError::ResourceLimitReached => 4,
    _ => 3,
  }
}

async fn opt_i32(s: &Socket, o: i32, v: i32) {
  let _ = s.set_option_raw(o, &v.to_ne_bytes()).await;
}

/// recv_multipart with the socket's RCVTIMEO (SHORT_MS), retried up to `tries` times while nothing arrives.
async fn recv_mp(s: &Socket, tries: usize) -> Option<Vec<Msg>> {
  for _ in 0..tries {
    match s.recv_multipart().await {
      Ok(f) => return Some(f),
      Err(ZmqError::Timeout) | Err(ZmqError::ResourceLimitReached) => continue,
      Err(_) => return None,
    }
  }
  None
}

struct Peer {
  sock: Option<Socket>,
  is_req: bool,
  rid: Option<Vec<u8>>,
  learned: Option<Vec<u8>>,
  expecting: bool,
  pending_connect: bool,
}

async fn run_stack(idx: usize, c: Value) -> Value {
  let mut rows: Vec<Vec<u64>> = Vec::new();
  let t_start = std::time::Instant::now();
  let ctx = match Context::new() {
    Ok(c) => c,
    Err(_) => return json!({"rows": [[99, 0]]}),
  };
  let tcp = c["transport"].as_str() == Some("tcp");
  let router = ctx.socket(SocketType::Router).unwrap();
  opt_i32(&router, RCVTIMEO, SHORT_MS).await;
  opt_i32(&router, SNDTIMEO, 2000).await;
  opt_i32(&router, LINGER, 0).await;
  if b(&c, "mandatory") {
    opt_i32(&router, ROUTER_MANDATORY, 1).await;
  }
  if b(&c, "router_manual") {
    opt_i32(&router, AUTO_DELIMITER, 0).await;
  }
  let endpoint = if tcp {
    if router.bind("tcp://127.0.0.1:0").await.is_err() {
      return json!({"rows": [[99, 1]]});
    }
    let le = router.get_option(LAST_ENDPOINT).await.unwrap_or_default();
    String::from_utf8_lossy(&le).to_string()
  } else {
    let e = format!("inproc://c11-{}-{}", std::process::id(), idx);
    if router.bind(&e).await.is_err() {
      return json!({"rows": [[99, 1]]});
    }
    e
  };
  let specs = c["peers"].as_array().unwrap();
  let mut peers: Vec<Peer> = specs
    .iter()
    .map(|p| Peer {
      sock: None,
      is_req: p["type"].as_str() == Some("req"),
      rid: if p["rid"].is_null() { None } else { Some(payload_of(&p["rid"])) },
      learned: None,
      expecting: false,
      pending_connect: false,
    })
    .collect();
  let settle = c["settle_ms"].as_u64().unwrap_or(300);

  for (s, st) in c["steps"].as_array().unwrap().iter().enumerate() {
    let s = s as u64;
    match st["op"].as_str().unwrap() {
      "join" => {
        let k = u(st, "peer") as usize;
        let sock = ctx.socket(if peers[k].is_req { SocketType::Req } else { SocketType::Dealer }).unwrap();
        opt_i32(&sock, RCVTIMEO, SHORT_MS).await;
        opt_i32(&sock, SNDTIMEO, 2000).await;
        opt_i32(&sock, LINGER, 0).await;
        if let Some(r) = &peers[k].rid {
          let _ = sock.set_option_raw(ROUTING_ID, r).await;
        }
        if b(&specs[k], "manual") {
          opt_i32(&sock, AUTO_DELIMITER, 0).await;
        }
        // fused: the connect is issued inside the next c2r step, while the ROUTER already sits in recv
        let cr = if b(st, "fused") {
          peers[k].pending_connect = true;
          Ok(())
        } else {
          sock.connect(&endpoint).await
        };
        if let Err(e) = &cr {
          if std::env::var("C11_DEBUG").is_ok() {
            eprintln!("case {idx}: connect failed: {e:?}");
          }
        }
        let ok = cr.is_ok();
        peers[k].sock = Some(sock);
        rows.push(vec![5, k as u64, (!ok) as u64]);
      }
      "close" => {
        let k = u(st, "peer") as usize;
        if let Some(sock) = peers[k].sock.take() {
          let _ = sock.close().await;
        }
        tokio::time::sleep(Duration::from_millis(settle)).await;
        rows.push(vec![6, k as u64]);
      }
      "c2r" => {
        let k = u(st, "peer") as usize;
        let frames = mk_frames(&st["payload"]);
        let is_req = peers[k].is_req;
        let pending = std::mem::replace(&mut peers[k].pending_connect, false);
        // the ROUTER is already receiving when the peer (connects and) sends
        let (got, res) = {
          let sock = peers[k].sock.as_ref().unwrap();
          let ep = endpoint.clone();
          tokio::join!(recv_mp(&router, 40), async move {
            if pending {
              sock.connect(&ep).await?;
            }
            if is_req {
              sock.send(frames.into_iter().next().unwrap_or_else(Msg::new)).await
            } else {
              sock.send_multipart(frames).await
            }
          })
        };
        if is_req && res.is_ok() {
          peers[k].expecting = true;
        }
        if let Err(e) = res {
          rows.push(vec![10, s, k as u64, 2, err_code(&e)]);
          continue;
        }
        match got {
          Some(fs) => {
            rows.push(vec![10, s, k as u64, 0]);
            for (i, f) in fs.iter().enumerate() {
              rows.push(if i == 0 { lit_row(31, f) } else { dig_row(32, f) });
            }
            if peers[k].learned.is_none() {
              peers[k].learned = fs.first().map(|f| f.data().unwrap_or(&[]).to_vec());
            }
          }
          None => rows.push(vec![10, s, k as u64, 1]),
        }
      }
      "r2c" => {
        let target: Option<usize> = st["to"].as_u64().map(|x| x as usize);
        let id: Vec<u8> = match target {
          Some(k) => peers[k].rid.clone().or_else(|| peers[k].learned.clone()).unwrap_or_else(|| b"?".to_vec()),
          None => bytes_of(&st["to_id"]),
        };
        let payload = mk_frames(&st["payload"]);
        let mut codes: Vec<u64> = Vec::new();
        if st["via"].as_str() == Some("frames") {
          let mut idm = Msg::from_vec(id);
          idm.set_flags(MsgFlags::MORE);
          let mut all = vec![idm];
          all.extend(payload);
          for f in all {
            match router.send(f).await {
              Ok(()) => codes.push(0),
              Err(e) => {
                codes.push(err_code(&e));
                break;
              }
            }
          }
        } else {
          let mut idm = Msg::from_vec(id);
          if !payload.is_empty() {
            idm.set_flags(MsgFlags::MORE);
          }
          let mut all = vec![idm];
          all.extend(payload);
          match router.send_multipart(all).await {
            Ok(()) => codes.push(0),
            Err(e) => codes.push(err_code(&e)),
          }
        }
        let mut r = vec![20, s];
        r.extend(codes);
        rows.push(r);
        // who received what: every live DEALER is polled; a REQ only when it is the addressed one and expects a reply
        for k in 0..peers.len() {
          let is_target = target == Some(k);
          if peers[k].sock.is_none() {
            continue;
          }
          if peers[k].is_req {
            if !(is_target && peers[k].expecting) {
              continue;
            }
            peers[k].expecting = false;
          }
          let is_req = peers[k].is_req;
          let sock = peers[k].sock.as_ref().unwrap();
          let mut first = true;
          let mut got = 0;
          loop {
            let tries = if is_target && first { 25 } else { 1 };
            match recv_mp(sock, tries).await {
              Some(fs) => {
                rows.push(vec![21, k as u64, fs.len() as u64]);
                for f in fs.iter() {
                  rows.push(dig_row(32, f));
                }
                got += 1;
                first = false;
                if got >= 3 || is_req {
                  break;
                }
              }
              None => break,
            }
          }
          if got == 0 {
            rows.push(vec![21, k as u64, 999]);
          }
        }
      }
      other => panic!("unknown stack op {other}"),
    }
  }
  let t_end = std::time::Instant::now();
  for p in peers.iter_mut() {
    if let Some(s) = p.sock.take() {
      let _ = tokio::time::timeout(Duration::from_secs(2), s.close()).await;
    }
  }
  let _ = tokio::time::timeout(Duration::from_secs(2), router.close()).await;
  let _ = tokio::time::timeout(Duration::from_secs(3), ctx.term()).await;
  if std::env::var("C11_DEBUG").is_ok() {
    eprintln!("case {idx}: steps {:?} teardown {:?}", t_end.duration_since(t_start), t_end.elapsed());
  }
  json!({ "rows": rows })
}

/// A peer that announced a routing id sends `n` messages, the ROUTER application reads only the first, the peer
/// goes away, and only after the ROUTER core has processed the detach does the application read on.
/// rows: [[40, first message carried the announced identity, messages read afterwards, of those: carrying the
///         announced identity, carrying any other first frame]]
async fn run_late(c: &Value) -> Value {
  let ctx = match Context::new() {
    Ok(x) => x,
    Err(_) => return json!({"rows": [[99, 0]]}),
  };
  let router = ctx.socket(SocketType::Router).unwrap();
  opt_i32(&router, RCVTIMEO, 300).await;
  opt_i32(&router, LINGER, 0).await;
  if router.bind("tcp://127.0.0.1:0").await.is_err() {
    return json!({"rows": [[99, 1]]});
  }
  let le = router.get_option(LAST_ENDPOINT).await.unwrap_or_default();
  let endpoint = String::from_utf8_lossy(&le).to_string();
  let rid = payload_of(&c["rid"]);
  let n = c["n"].as_u64().unwrap_or(8);
  let dealer = ctx.socket(SocketType::Dealer).unwrap();
  let _ = dealer.set_option_raw(ROUTING_ID, &rid).await;
  opt_i32(&dealer, LINGER, 500).await;
  if dealer.connect(&endpoint).await.is_err() {
    return json!({"rows": [[99, 2]]});
  }
  for i in 0..n {
    let _ = dealer.send(Msg::from_vec(format!("msg-{i}").into_bytes())).await;
  }
  let first = recv_mp(&router, 10).await;
  let first_ok = first.as_ref().and_then(|f| f.first()).map(|f| f.data().unwrap_or(&[]) == &rid[..]).unwrap_or(false);
  tokio::time::sleep(Duration::from_millis(150)).await; // the rest is queued at the ROUTER
  let _ = tokio::time::timeout(Duration::from_secs(2), dealer.close()).await;
  tokio::time::sleep(Duration::from_millis(c["settle_ms"].as_u64().unwrap_or(700))).await;
  let (mut total, mut right, mut other) = (0u64, 0u64, 0u64);
  let mut other_id: Vec<u64> = Vec::new();
  while let Some(fs) = recv_mp(&router, 1).await {
    total += 1;
    let id = fs.first().map(|f| f.data().unwrap_or(&[]).to_vec()).unwrap_or_default();
    if id == rid {
      right += 1;
    } else {
      other += 1;
      if other_id.is_empty() {
        other_id = id.iter().take(12).map(|&b| b as u64).collect();
      }
    }
    if total > n + 2 {
      break;
    }
  }
  let _ = tokio::time::timeout(Duration::from_secs(2), router.close()).await;
  let _ = tokio::time::timeout(Duration::from_secs(3), ctx.term()).await;
  json!({"rows": [[40, first_ok as u64, total, right, other]], "other_identity": other_id})
}

pub fn run_all(cases: &[Value]) -> Vec<Value> {
  let mut out: Vec<Option<Value>> = vec![None; cases.len()];
  let small = tokio::runtime::Builder::new_current_thread().enable_all().build().unwrap();
  let mut stack_idx = Vec::new();
  for (i, c) in cases.iter().enumerate() {
    match c["k"].as_str().unwrap() {
      "map" => out[i] = Some(small.block_on(run_map(c))),
      "strat" => out[i] = Some(run_strat(c)),
      "framing" => out[i] = Some(run_framing(c)),
      "late" => {
        let rt = tokio::runtime::Builder::new_multi_thread().worker_threads(2).enable_all().build().unwrap();
        out[i] = Some(rt.block_on(run_late(c)));
        rt.shutdown_timeout(Duration::from_millis(200));
      }
      "stack" => stack_idx.push(i),
      other => panic!("unknown case kind {other}"),
    }
  }
  if !stack_idx.is_empty() {
    let par: usize = std::env::var("C11_PAR").ok().and_then(|x| x.parse().ok()).unwrap_or(12);
    let rt = tokio::runtime::Builder::new_multi_thread().worker_threads(8).enable_all().build().unwrap();
    let results = rt.block_on(async {
      let sem = Arc::new(tokio::sync::Semaphore::new(par));
      let mut hs = Vec::new();
      for &i in &stack_idx {
        let c = cases[i].clone();
        let sem = sem.clone();
        hs.push(tokio::spawn(async move {
          let _p = sem.acquire_owned().await.unwrap();
          match tokio::time::timeout(Duration::from_secs(60), run_stack(i, c)).await {
            Ok(v) => v,
            Err(_) => json!({"rows": [[99, 9]]}),
          }
        }));
      }
      let mut r = Vec::new();
      for h in hs {
        r.push(h.await.unwrap_or_else(|_| json!({"rows": [[99, 8]], "panic": true})));
      }
      r
    });
    for (i, v) in stack_idx.into_iter().zip(results) {
      out[i] = Some(v);
    }
    rt.shutdown_timeout(Duration::from_secs(2));
  }
  out.into_iter().map(|x| x.unwrap()).collect()
}
