//! C16: close() and term() always finish and leave nothing running or hanging.
//!  * `guard` (kind A/B): scripts over the real `ActorDropGuard` + the context's WaitGroup (live-actor count),
//!                        guards created directly and inside spawned tasks that are started / aborted / finished
//!  * `hist`  (kind D): histories of API calls issued by several tasks on several sockets of one context,
//!                      with close()/term() injected at a chosen call boundary or time offset
use crate::c15::endpoint;
use rzmq::socket::options as opt;
use rzmq::verif::shutdown::{event_bus_subscribers, inproc_names, registered_sockets, VGuard};
use rzmq::{Context, Msg, Socket};
use serde_json::{json, Value};
use std::collections::HashMap;
use std::sync::atomic::{AtomicU64, Ordering};
use std::sync::{Arc, Mutex};
use std::time::{Duration, Instant};
use tokio::io::AsyncReadExt;
use tokio::sync::Notify;
use tokio::time::{sleep, timeout};

// ------------------------------------------------------------------ panic accounting (per runtime thread name)

static PANICS: Mutex<Option<HashMap<String, u64>>> = Mutex::new(None);

pub fn install_panic_counter() {
  std::panic::set_hook(Box::new(|_| {
    let name = std::thread::current().name().unwrap_or("?").to_string();
    if let Ok(mut g) = PANICS.lock() {
      *g.get_or_insert_with(HashMap::new).entry(name).or_insert(0) += 1;
    }
  }));
}
fn panics_of(name: &str) -> u64 {
  PANICS.lock().ok().and_then(|g| g.as_ref().and_then(|m| m.get(name).copied())).unwrap_or(0)
}

// ------------------------------------------------------------------ (A) guard scripts

/// ops: [0,i] guard i created directly; [1,i] waive; [2,i] set_error; [3,i] drop guard i;
///      [4,i] spawn task i (creates its guard when first polled, then waits for a signal);
///      [5,i] abort task i and let the runtime process it; [6,i] tell task i to finish normally (waive);
///      [7,i] tell task i to finish with an error; [8] yield (spawned tasks get polled); [9,i] task i panics
/// row per op: [op, live-actor count]
async fn guard_script(c: &Value) -> Value {
  let ctx = Context::new().expect("ctx");
  let mut guards: HashMap<u64, VGuard> = HashMap::new();
  let mut tasks: HashMap<u64, (tokio::task::JoinHandle<()>, tokio::sync::mpsc::UnboundedSender<u8>)> = HashMap::new();
  let mut rows = Vec::new();
  async fn settle() {
    for _ in 0..6 {
      tokio::task::yield_now().await;
    }
  }
  for op in c["ops"].as_array().unwrap() {
    let o: Vec<u64> = op.as_array().unwrap().iter().map(|x| x.as_u64().unwrap()).collect();
    let i = o.get(1).copied().unwrap_or(0);
    match o[0] {
      0 => {
        guards.insert(i, VGuard::new(&ctx, 9000 + i as usize));
      }
      1 => {
        if let Some(g) = guards.get_mut(&i) {
          g.waive()
        }
      }
      2 => {
        if let Some(g) = guards.get_mut(&i) {
          g.set_error()
        }
      }
      3 => {
        guards.remove(&i);
      }
      4 => {
        let (tx, mut rx) = tokio::sync::mpsc::unbounded_channel::<u8>();
        let ctx2 = ctx.clone();
        let h = tokio::spawn(async move {
          let mut g = VGuard::new(&ctx2, 9500 + i as usize);
          match rx.recv().await {
            Some(0) => g.waive(),
            Some(1) => g.set_error(),
            Some(2) => panic!("scripted panic"),
            _ => {}
          }
        });
        tasks.insert(i, (h, tx));
      }
      5 => {
        if let Some((h, _)) = tasks.get(&i) {
          h.abort();
        }
        settle().await;
      }
      6 | 7 | 9 => {
        if let Some((_, tx)) = tasks.get(&i) {
          let _ = tx.send(if o[0] == 6 { 0 } else if o[0] == 7 { 1 } else { 2 });
        }
        settle().await;
      }
      8 => settle().await,
      _ => {}
    }
    rows.push(vec![o[0], ctx.verif_live_actor_count() as u64]);
  }
  // term() must return at once exactly when the count is zero
  let left = ctx.verif_live_actor_count() as u64;
  let t = Instant::now();
  let r = timeout(Duration::from_millis(300), ctx.term()).await;
  rows.push(vec![99, left, r.is_ok() as u64]);
  let _ = t;
  for (_, (h, _)) in tasks {
    h.abort();
  }
  json!({ "rows": rows })
}

// ------------------------------------------------------------------ (D) histories

const HANG_MS: u64 = 2500; // an operation still pending this long after its socket was closed "hangs"
const PROMPT_MS: u64 = 500; // "promptly" on a loaded machine (the property says 100 ms; see the note in vp/c16.py)
const ABS_CAP_MS: u64 = 14000;

struct Shared {
  ctx: Context,
  socks: Vec<Mutex<Option<Socket>>>,
  close_started: Vec<Mutex<Option<Instant>>>,
  close_done: Vec<Mutex<Option<Instant>>>,
  close_ms_max: std::sync::atomic::AtomicU64,
  monitors: Mutex<Vec<rzmq::socket::MonitorReceiver>>,
  term_started: Mutex<Option<Instant>>,
  term_done: Mutex<Option<Instant>>,
  actors_at_term: Mutex<Option<u64>>,
  eps: Vec<String>,
  signals: Vec<Arc<(Notify, std::sync::atomic::AtomicBool)>>,
  raw: Mutex<Vec<tokio::task::JoinHandle<()>>>,
}

impl Shared {
  fn sock(&self, s: usize) -> Option<Socket> {
    self.socks[s].lock().unwrap().clone()
  }
  /// the moment socket `s` counts as closed (its close() or the context's term() returned)
  fn closed_at(&self, s: usize) -> Option<Instant> {
    let a = *self.close_done[s].lock().unwrap();
    let b = *self.term_done.lock().unwrap();
    match (a, b) {
      (Some(x), Some(y)) => Some(x.min(y)),
      (x, y) => x.or(y),
    }
  }
  fn closing_at(&self, s: usize) -> Option<Instant> {
    let a = *self.close_started[s].lock().unwrap();
    let b = *self.term_started.lock().unwrap();
    match (a, b) {
      (Some(x), Some(y)) => Some(x.min(y)),
      (x, y) => x.or(y),
    }
  }
}

/// result classes: 0 Ok, 1 Err, 2 hang, 5 not executed (socket handle already dropped)
async fn run_op(sh: Arc<Shared>, o: Vec<u64>) -> (u64, String) {
  let s = o.get(1).copied().unwrap_or(0) as usize;
  let a = o.get(2).copied().unwrap_or(0);
  let b = o.get(3).copied().unwrap_or(0);
  let fmt = |r: Result<(), rzmq::ZmqError>| match r {
    Ok(()) => (0u64, String::new()),
    Err(e) => (1u64, format!("{e}")),
  };
  match o[0] {
    10 => {
      sleep(Duration::from_millis(s as u64)).await;
      (0, String::new())
    }
    11 => {
      *sh.term_started.lock().unwrap() = Some(Instant::now());
      let r = sh.ctx.term().await;
      let left = sh.ctx.verif_live_actor_count() as u64;
      {
        let mut g = sh.actors_at_term.lock().unwrap();
        *g = Some(g.unwrap_or(0).max(left));
      }
      *sh.term_done.lock().unwrap() = Some(Instant::now());
      fmt(r)
    }
    12 => {
      let sg = sh.signals[s].clone();
      loop {
        let n = sg.0.notified();
        if sg.1.load(Ordering::SeqCst) {
          break;
        }
        n.await;
      }
      (0, String::new())
    }
    13 => {
      let sg = sh.signals[s].clone();
      sg.1.store(true, Ordering::SeqCst);
      sg.0.notify_waiters();
      (0, String::new())
    }
    18 => {
      // raw tcp listener on endpoint a that accepts and never answers (keeps the connections open)
      let addr = sh.eps[a as usize].trim_start_matches("tcp://").to_string();
      match tokio::net::TcpListener::bind(&addr).await {
        Ok(l) => {
          let h = tokio::spawn(async move {
            let mut keep = Vec::new();
            loop {
              if let Ok((st, _)) = l.accept().await {
                keep.push(st);
              }
            }
          });
          sh.raw.lock().unwrap().push(h);
          (0, String::new())
        }
        Err(e) => (1, format!("{e}")),
      }
    }
    9 => {
      let had = sh.socks[s].lock().unwrap().take().is_some();
      (if had { 0 } else { 5 }, String::new())
    }
    _ => {
      let sock = match sh.sock(s) {
        Some(x) => x,
        None => return (5, String::new()),
      };
      match o[0] {
        1 => fmt(sock.bind(&sh.eps[a as usize]).await),
        2 => fmt(sock.connect(&sh.eps[a as usize]).await),
        3 => {
          let count = b.max(1);
          let mut last = (0u64, String::new());
          for k in 0..count {
            last = fmt(sock.send(Msg::from_vec(vec![(k % 251) as u8; a as usize])).await);
            if last.0 != 0 {
              break;
            }
          }
          last
        }
        14 => fmt(sock.send_multipart(vec![Msg::from_vec(vec![1u8; a as usize]), Msg::from_vec(vec![2u8; 8])]).await),
        4 => fmt(sock.recv().await.map(|_| ())),
        15 => fmt(sock.recv_multipart().await.map(|_| ())),
        5 => fmt(sock.set_option(opt::RCVHWM, 100i32).await),
        6 => fmt(sock.get_option(opt::LINGER).await.map(|_| ())),
        7 => fmt(sock.monitor_default().await.map(|_| ())),
        // a monitor with a ONE-event channel whose receiver is kept alive and never read
        19 => match sock.monitor(1).await {
          Ok(rx) => {
            sh.monitors.lock().unwrap().push(rx);
            (0, String::new())
          }
          Err(e) => (1, format!("{e}")),
        },
        16 => fmt(sock.disconnect(&sh.eps[a as usize]).await),
        17 => fmt(sock.unbind(&sh.eps[a as usize]).await),
        8 => {
          // the FIRST close() of a socket defines "closing started"; every close() call's own duration counts
          let t_call = Instant::now();
          {
            let mut g = sh.close_started[s].lock().unwrap();
            if g.is_none() {
              *g = Some(t_call);
            }
          }
          let r = sock.close().await;
          let t_end = Instant::now();
          {
            let mut g = sh.close_done[s].lock().unwrap();
            if g.is_none() {
              *g = Some(t_end);
            }
          }
          sh.close_ms_max.fetch_max(t_end.duration_since(t_call).as_millis() as u64, Ordering::SeqCst);
          fmt(r)
        }
        _ => (0, String::new()),
      }
    }
  }
}

/// runs one step under the hang watchdog. returns [op, sock, res, rel, late] + detail
async fn run_step(sh: Arc<Shared>, o: Vec<u64>, t_abs: Instant) -> (Vec<u64>, String, Instant, Instant) {
  let s = o.get(1).copied().unwrap_or(0) as usize;
  let on_socket = !matches!(o[0], 10 | 11 | 12 | 13 | 18);
  let started = Instant::now();
  let rel = if !on_socket {
    0
  } else if sh.closed_at(s).map_or(false, |t| t <= started) {
    1
  } else if sh.closing_at(s).map_or(false, |t| t <= started) {
    2
  } else {
    0
  };
  let fut = run_op(sh.clone(), o.clone());
  tokio::pin!(fut);
  let mut res: Option<(u64, String)> = None;
  loop {
    tokio::select! {
      r = &mut fut => { res = Some(r); break; }
      _ = sleep(Duration::from_millis(40)) => {
        let now = Instant::now();
        if now > t_abs { break; }
        if on_socket {
          if let Some(c) = sh.closed_at(s) {
            if now > c.max(started) + Duration::from_millis(HANG_MS) { break; }
          }
        }
        if matches!(o[0], 8 | 11) && now > started + Duration::from_millis(ABS_CAP_MS - 1000) { break; }
      }
    }
  }
  let ended = Instant::now();
  let (code, detail) = res.unwrap_or((2, "still pending".into()));
  // lateness: time from max(start, socket closed) to completion
  let mut late = 0u64;
  if on_socket && code != 2 && o[0] != 8 {
    if let Some(c) = sh.closed_at(s) {
      if c <= ended && ended.duration_since(c.max(started)).as_millis() as u64 > PROMPT_MS {
        late = 1;
      }
    }
  }
  let dur = ended.duration_since(started).as_millis() as u64;
  (vec![o[0], s as u64, code, rel, late], format!("{}ms {}", dur, detail), started, ended)
}

async fn hist(c: &Value, rt_name: String) -> Value {
  let ctx = Context::new().expect("ctx");
  let types: Vec<String> = c["types"].as_array().unwrap().iter().map(|x| x.as_str().unwrap().to_string()).collect();
  let mut socks = Vec::new();
  for (i, t) in types.iter().enumerate() {
    let s = ctx.socket(crate::stack::stype_of(t)).expect("socket");
    if let Some(o) = c["opts"].get(i) {
      crate::stack::apply_opts(&s, o).await;
    }
    socks.push(Mutex::new(Some(s)));
  }
  let eps: Vec<String> = c["eps"].as_array().unwrap().iter().map(|x| endpoint(x.as_str().unwrap(), "c16")).collect();
  let nsig = c.get("signals").and_then(|v| v.as_u64()).unwrap_or(4) as usize;
  let n = types.len();
  let sh = Arc::new(Shared {
    ctx: ctx.clone(),
    socks,
    close_started: (0..n).map(|_| Mutex::new(None)).collect(),
    close_done: (0..n).map(|_| Mutex::new(None)).collect(),
    close_ms_max: std::sync::atomic::AtomicU64::new(0),
    monitors: Mutex::new(Vec::new()),
    term_started: Mutex::new(None),
    term_done: Mutex::new(None),
    actors_at_term: Mutex::new(None),
    eps: eps.clone(),
    signals: (0..nsig).map(|_| Arc::new((Notify::new(), std::sync::atomic::AtomicBool::new(false)))).collect(),
    raw: Mutex::new(Vec::new()),
  });
  let t_start = Instant::now();
  let t_abs = t_start + Duration::from_millis(ABS_CAP_MS);
  let mut handles = Vec::new();
  for (ti, task) in c["tasks"].as_array().unwrap().iter().enumerate() {
    let steps: Vec<Vec<u64>> =
      task.as_array().unwrap().iter().map(|st| st.as_array().unwrap().iter().map(|x| x.as_u64().unwrap()).collect()).collect();
    let sh2 = sh.clone();
    handles.push(tokio::spawn(async move {
      let mut out = Vec::new();
      for (si, st) in steps.into_iter().enumerate() {
        let (mut row, detail, st_at, en_at) = run_step(sh2.clone(), st, t_abs).await;
        let mut full = vec![ti as u64, si as u64];
        full.append(&mut row);
        let tm = vec![ti as u64, si as u64, st_at.saturating_duration_since(t_start).as_millis() as u64,
                      en_at.saturating_duration_since(t_start).as_millis() as u64];
        out.push((full, detail, tm));
      }
      out
    }));
  }
  let mut rows: Vec<Vec<u64>> = Vec::new();
  let mut details: Vec<String> = Vec::new();
  let mut times: Vec<Vec<u64>> = Vec::new();
  let mut harness_task_panics = 0u64;
  for h in handles {
    match h.await {
      Ok(v) => {
        for (r, d, tm) in v {
          details.push(format!("{:?}: {}", r, d));
          rows.push(r);
          times.push(tm);
        }
      }
      Err(e) => {
        if e.is_panic() {
          harness_task_panics += 1;
        }
      }
    }
  }
  // ---- epilogue: close whatever is still open, term, look at what is left
  let mut close_ms_max = sh.close_ms_max.load(Ordering::SeqCst);
  for i in 0..n {
    if let Some(s) = sh.sock(i) {
      if sh.close_done[i].lock().unwrap().is_none() {
        let t = Instant::now();
        let _ = timeout(Duration::from_secs(6), s.close()).await;
        close_ms_max = close_ms_max.max(t.elapsed().as_millis() as u64);
      }
    }
  }
  for slot in sh.close_started.iter().zip(sh.close_done.iter()) {
    if let (Some(a), Some(b)) = (*slot.0.lock().unwrap(), *slot.1.lock().unwrap()) {
      close_ms_max = close_ms_max.max(b.duration_since(a).as_millis() as u64);
    }
  }
  let t = Instant::now();
  let term_ok = timeout(Duration::from_secs(13), ctx.term()).await.is_ok();
  let mut term_ms = t.elapsed().as_millis() as u64;
  if let (Some(a), Some(b)) = (*sh.term_started.lock().unwrap(), *sh.term_done.lock().unwrap()) {
    term_ms = term_ms.max(b.duration_since(a).as_millis() as u64);
  }
  let mut actors_at_return = ctx.verif_live_actor_count() as u64;
  if let Some(x) = *sh.actors_at_term.lock().unwrap() {
    actors_at_return = actors_at_return.max(x);
  }
  // only now do the silent raw peers go away
  for h in sh.raw.lock().unwrap().drain(..) {
    h.abort();
  }
  // drop every socket handle the harness still holds, then give stragglers a grace period
  for i in 0..n {
    sh.socks[i].lock().unwrap().take();
  }
  let metrics = tokio::runtime::Handle::current().metrics();
  let mut actors_late = actors_at_return;
  let mut tasks_late = metrics.num_alive_tasks() as u64;
  let tasks_at_return = tasks_late;
  let grace = Instant::now();
  let grace_ms = c.get("grace_ms").and_then(|v| v.as_u64()).unwrap_or(1500);
  while grace.elapsed() < Duration::from_millis(grace_ms) && (actors_late > 0 || tasks_late > 0) {
    sleep(Duration::from_millis(50)).await;
    actors_late = ctx.verif_live_actor_count() as u64;
    tasks_late = metrics.num_alive_tasks() as u64;
  }
  let socks_left = registered_sockets(&ctx) as u64;
  let names_left = inproc_names(&ctx) as u64;
  let subs_left = event_bus_subscribers(&ctx) as u64;
  // ---- rebind of every listening endpoint from a fresh context (tcp port / ipc path)
  let mut rebind_fail = 0u64;
  let mut rebind_detail = String::new();
  let ctx2 = Context::new().expect("ctx2");
  for (i, ep) in eps.iter().enumerate() {
    let listened = c["tasks"].as_array().unwrap().iter().any(|t| {
      t.as_array().unwrap().iter().any(|st| st[0].as_u64() == Some(1) && st[2].as_u64() == Some(i as u64))
    });
    if !listened || ep.starts_with("inproc://") {
      continue;
    }
    let p = ctx2.socket(rzmq::SocketType::Pull).expect("pull");
    let mut ok = false;
    let t = Instant::now();
    while t.elapsed() < Duration::from_millis(1200) {
      match timeout(Duration::from_millis(1500), p.bind(ep)).await {
        Ok(Ok(())) => {
          ok = true;
          break;
        }
        Ok(Err(e)) => rebind_detail = format!("{e}"),
        Err(_) => rebind_detail = "bind timed out".into(),
      }
      sleep(Duration::from_millis(100)).await;
    }
    if !ok {
      rebind_fail += 1;
    }
    let _ = timeout(Duration::from_secs(2), p.close()).await;
  }
  let _ = timeout(Duration::from_secs(3), ctx2.term()).await;
  for ep in eps.iter() {
    if ep.starts_with("ipc://") {
      let _ = std::fs::remove_file(ep.trim_start_matches("ipc://"));
    }
  }
  let panics = panics_of(&rt_name) + harness_task_panics;
  rows.push(vec![99, close_ms_max, term_ms, term_ok as u64, actors_at_return, actors_late, tasks_at_return, tasks_late, socks_left, names_left, rebind_fail, panics]);
  json!({"rows": rows, "details": details, "times": times, "subs_left": subs_left, "rebind_detail": rebind_detail, "grace_used_ms": grace.elapsed().as_millis() as u64,
         "total_ms": t_start.elapsed().as_millis() as u64})
}

/// `n` sockets are created and term() is called before the runtime has polled their command loops once
/// (current-thread runtime, no await in between). row: [98, WaitGroup count when term() returned,
/// tasks alive at that moment, sockets still registered at that moment]; then the stragglers are given time.
async fn term_first(c: &Value) -> Value {
  let n = c["n"].as_u64().unwrap_or(1);
  let ctx = Context::new().expect("ctx");
  let mut socks = Vec::new();
  for i in 0..n {
    socks.push(ctx.socket(if i % 2 == 0 { rzmq::SocketType::Push } else { rzmq::SocketType::Pull }).expect("socket"));
  }
  let t = Instant::now();
  let r = ctx.term().await;
  let term_us = t.elapsed().as_micros() as u64;
  let metrics = tokio::runtime::Handle::current().metrics();
  let count_at_return = ctx.verif_live_actor_count() as u64;
  let tasks_at_return = metrics.num_alive_tasks() as u64;
  let socks_at_return = registered_sockets(&ctx) as u64;
  // what happens afterwards: the command loops start, count themselves, see ContextTerminating and stop
  let mut max_count_after = 0u64;
  let grace = Instant::now();
  while grace.elapsed() < Duration::from_millis(1500) {
    tokio::task::yield_now().await;
    max_count_after = max_count_after.max(ctx.verif_live_actor_count() as u64);
    if metrics.num_alive_tasks() == 0 {
      break;
    }
    sleep(Duration::from_millis(5)).await;
  }
  drop(socks);
  json!({"rows": [[98, count_at_return, tasks_at_return, socks_at_return]], "term_ok": r.is_ok(), "term_us": term_us,
         "max_count_after_return": max_count_after, "tasks_left": metrics.num_alive_tasks()})
}

static RT_CTR: AtomicU64 = AtomicU64::new(0);

pub fn run_case(c: &Value) -> Value {
  let threads = c.get("threads").and_then(|v| v.as_u64()).unwrap_or(2) as usize;
  let name = format!("c16-rt-{}", RT_CTR.fetch_add(1, Ordering::Relaxed));
  let rt = if threads <= 1 {
    tokio::runtime::Builder::new_current_thread().enable_all().thread_name(name.clone()).build().unwrap()
  } else {
    tokio::runtime::Builder::new_multi_thread().worker_threads(threads).thread_name(name.clone()).enable_all().build().unwrap()
  };
  let kind = c["k"].as_str().unwrap().to_string();
  let c2 = c.clone();
  let name2 = name.clone();
  let res = std::panic::catch_unwind(std::panic::AssertUnwindSafe(|| {
    rt.block_on(async move {
      let fut = async {
        match kind.as_str() {
          "guard" => guard_script(&c2).await,
          "hist" => hist(&c2, name2).await,
          "termfirst" => term_first(&c2).await,
          other => json!({"rows": [[98]], "detail": format!("unknown kind {other}")}),
        }
      };
      match timeout(Duration::from_secs(75), fut).await {
        Ok(v) => v,
        Err(_) => json!({"rows": [[97]], "scenario_timeout": true}),
      }
    })
  }));
  rt.shutdown_timeout(Duration::from_millis(300));
  match res {
    Ok(v) => v,
    Err(_) => json!({"rows": [[96]], "harness_panic": true}),
  }
}

#[allow(dead_code)]
async fn drain(mut s: tokio::net::TcpStream) {
  let mut b = [0u8; 1024];
  while let Ok(n) = s.read(&mut b).await {
    if n == 0 {
      break;
    }
  }
}
