//! C10 - REQ/REP strict alternation: replay of harness-chosen schedules on REAL sockets.
//!
//! The socket under test (REQ or REP) binds a tcp endpoint on 127.0.0.1; k real peer sockets connect
//! to it one after the other: ROUTER peers for a REQ, DEALER peers for a REP, both with AUTO_DELIMITER
//! off so that they send and receive raw frame sequences (a ROUTER still puts the empty delimiter in
//! front of what it sends to a REQ).  A warm-up exchange with every peer checks both directions and
//! leaves the socket in its initial state.  Each "task" is a list of calls (send | recv |
//! send_multipart | recv_multipart) on clones of the socket handle.
//!
//! replay mode (`k` = "req" | "rep"): every call future is polled BY HAND on this thread; the
//! `cfg(rzmq_verif)` schedule points inside req_socket.rs / rep_socket.rs are pending exactly once,
//! so one schedule token `["t", i]` advances task i exactly from one point to the next (or to a
//! real await that is not ready: "parked", or to completion).  Environment tokens
//! (`reply` / `req` from peer p, `detach` p, `timeout` t) are carried out on the real peer
//! sockets and the harness waits until they have taken effect inside the socket under test
//! (trace marks `rpq_pushed`, `*_detached`), never by sleeping.
//!
//! mt mode (`k` = "mt"): the calls of a round run as tasks of a 4-worker runtime, with nothing,
//! or a `yield_now` at each schedule point.
use rzmq::socket::options as opt;
use rzmq::verif::reqrep::{marks, pend_once, set_point_hook, yield_once};
use rzmq::{Context, Msg, MsgFlags, Socket, SocketType, ZmqError};
use serde_json::{json, Value};
use std::future::Future;
use std::panic::{catch_unwind, AssertUnwindSafe};
use std::pin::Pin;
use std::sync::atomic::{AtomicBool, AtomicU64, Ordering};
use std::sync::{mpsc, Arc, Mutex};
use std::task::{Context as TaskCx, Poll, Wake, Waker};
use std::time::{Duration, Instant};

static EP_SEQ: AtomicU64 = AtomicU64::new(0);
const WAIT: Duration = Duration::from_millis(4000);
const SUT_ID: &[u8] = b"SUT";

// ---------------------------------------------------------------- frames <-> numbers

/// 0 = empty frame; n > 0 = the 8 little-endian bytes of n
fn frame_of(n: u64) -> Msg {
  if n == 0 {
    Msg::new()
  } else {
    Msg::from_vec(n.to_le_bytes().to_vec())
  }
}
/// inverse; anything else is reported as 2^40 + length
fn num_of(d: &[u8]) -> u64 {
  if d.is_empty() {
    0
  } else if d.len() == 8 {
    let mut b = [0u8; 8];
    b.copy_from_slice(d);
    u64::from_le_bytes(b)
  } else {
    (1u64 << 40) + d.len() as u64
  }
}
fn msg_num(m: &Msg) -> u64 {
  num_of(m.data().unwrap_or(&[]))
}

fn err_code(e: &ZmqError) -> u64 {
  match e {
    ZmqError::InvalidState(_) => 2,
    ZmqError::UnsupportedFeature(_) => 3,
    ZmqError::HostUnreachable(_) => 4,
    ZmqError::Internal(_) => 5,
    ZmqError::Timeout => 6,
    ZmqError::ResourceLimitReached => 7,
    ZmqError::ConnectionClosed => 8,
    _ => 9,
  }
}

// ---------------------------------------------------------------- calls

#[derive(Clone, Debug)]
struct Call {
  op: u64, // 0 send, 1 recv, 2 send_multipart, 3 recv_multipart
  tag: u64,
}

fn parse_call(v: &Value) -> Call {
  let op = match v[0].as_str().unwrap() {
    "send" => 0,
    "recv" => 1,
    "sendm" => 2,
    "recvm" => 3,
    o => panic!("op {o}"),
  };
  Call { op, tag: v.get(1).and_then(|x| x.as_u64()).unwrap_or(0) }
}

/// (result code, data): 0 Ok, 1 Ok with MORE set on the returned frame, 2 InvalidState, 3.. other
type CallOut = (u64, Vec<u64>);
type CallFut = Pin<Box<dyn Future<Output = CallOut> + Send>>;

fn make_call(s: &Socket, c: &Call) -> CallFut {
  let s = s.clone();
  let c = c.clone();
  Box::pin(async move {
    match c.op {
      0 => match s.send(frame_of(c.tag)).await {
        Ok(()) => (0, vec![]),
        Err(e) => (err_code(&e), vec![]),
      },
      1 => match s.recv().await {
        Ok(m) => (if m.is_more() { 1 } else { 0 }, vec![msg_num(&m)]),
        Err(e) => (err_code(&e), vec![]),
      },
      2 => match s.send_multipart(vec![frame_of(c.tag), frame_of(c.tag + 1)]).await {
        Ok(()) => (0, vec![]),
        Err(e) => (err_code(&e), vec![]),
      },
      _ => match s.recv_multipart().await {
        Ok(ms) => (0, ms.iter().map(msg_num).collect()),
        Err(e) => (err_code(&e), vec![]),
      },
    }
  })
}

// ---------------------------------------------------------------- world

struct WakeFlag(AtomicBool);
impl Wake for WakeFlag {
  fn wake(self: Arc<Self>) {
    self.0.store(true, Ordering::SeqCst);
  }
  fn wake_by_ref(self: &Arc<Self>) {
    self.0.store(true, Ordering::SeqCst);
  }
}

struct World {
  rt: tokio::runtime::Runtime,
  _ctx: Context,
  sut: Socket,
  peers: Vec<Option<Socket>>,
  rx: mpsc::Receiver<(usize, Vec<u64>)>,
  is_req: bool,
  wait: std::cell::Cell<Duration>,
  /// how many `rpq_pushed` marks the steps carried out so far account for
  exp_marks: std::cell::Cell<u64>,
}

fn wait_until_for(limit: Duration, mut f: impl FnMut() -> bool) -> bool {
  let t0 = Instant::now();
  let mut spins = 0u32;
  loop {
    if f() {
      return true;
    }
    if t0.elapsed() > limit {
      return false;
    }
    spins += 1;
    if spins < 200 {
      std::thread::yield_now();
    } else {
      std::thread::sleep(Duration::from_micros(200));
    }
  }
}

fn wait_until(f: impl FnMut() -> bool) -> bool {
  wait_until_for(WAIT, f)
}

/// Connection set-up is not what C10 is about: a world whose warm-up exchange fails (a message sent right
/// after the attach can get lost under load) is thrown away and built again; a socket that really
/// misbehaves fails the warm-up every time and the last failure is reported.
fn build_world(is_req: bool, npeers: usize, rcvtimeo: i64, workers: usize) -> World {
  for patience_ms in [3000u64, 6000, 10000] {
    match catch_unwind(AssertUnwindSafe(|| build_world_once(is_req, npeers, rcvtimeo, workers, patience_ms))) {
      Ok(w) => return w,
      Err(e) => {
        let msg = panic_text(&e);
        if msg.starts_with("FATAL") {
          std::panic::resume_unwind(e); // the socket itself answered with an error: not a timing matter
        }
        RETRIES.lock().unwrap().push(msg)
      }
    }
  }
  build_world_once(is_req, npeers, rcvtimeo, workers, 20000)
}

static RETRIES: Mutex<Vec<String>> = Mutex::new(Vec::new());

fn panic_text(e: &Box<dyn std::any::Any + Send>) -> String {
  e.downcast_ref::<String>().cloned().or_else(|| e.downcast_ref::<&str>().map(|s| s.to_string())).unwrap_or_default()
}

fn build_world_once(is_req: bool, npeers: usize, rcvtimeo: i64, workers: usize, patience_ms: u64) -> World {
  let rt = tokio::runtime::Builder::new_multi_thread().worker_threads(workers).enable_all().build().unwrap();
  let (tx, rx) = mpsc::channel::<(usize, Vec<u64>)>();
  let att = if is_req { "req_attached" } else { "rep_attached" };
  let (ctx, sut, peers) = rt.block_on(async {
    let ctx = Context::new().expect("ctx");
    let sut = ctx.socket(if is_req { SocketType::Req } else { SocketType::Rep }).expect("sut");
    if rcvtimeo > 0 {
      sut.set_option_raw(opt::RCVTIMEO, &(rcvtimeo as i32).to_ne_bytes()).await.expect("rcvtimeo");
    }
    sut.set_option_raw(opt::LINGER, &0i32.to_ne_bytes()).await.expect("linger");
    sut.set_option_raw(opt::ROUTING_ID, SUT_ID).await.expect("routing id");
    sut.bind("tcp://127.0.0.1:0").await.expect("bind");
    let ep = String::from_utf8(sut.get_option(opt::LAST_ENDPOINT).await.expect("last endpoint")).unwrap();
    let mut peers = Vec::new();
    for i in 0..npeers {
      // REQ talks to ROUTER peers, REP to DEALER peers; both with AUTO_DELIMITER off = raw frames
      let d = ctx.socket(if is_req { SocketType::Router } else { SocketType::Dealer }).expect("peer");
      d.set_option_raw(opt::AUTO_DELIMITER, &0i32.to_ne_bytes()).await.expect("auto_delimiter off");
      d.set_option_raw(opt::LINGER, &0i32.to_ne_bytes()).await.expect("linger");
      d.set_option_raw(opt::RECONNECT_IVL, &0i32.to_ne_bytes()).await.expect("reconnect off");
      let before = marks(att);
      d.connect(&ep).await.expect("connect");
      let t0 = Instant::now();
      while marks(att) <= before {
        if t0.elapsed() > WAIT {
          panic!("peer {i} never attached");
        }
        tokio::time::sleep(Duration::from_millis(1)).await;
      }
      peers.push(Some(d));
    }
    (ctx, sut, peers)
  });
  // one drain task per peer: everything a peer receives goes to `rx` (ROUTER: minus the identity frame)
  for (i, p) in peers.iter().enumerate() {
    let p = p.clone().unwrap();
    let tx = tx.clone();
    rt.spawn(async move {
      loop {
        match p.recv_multipart().await {
          Ok(ms) => {
            let skip = if is_req { 1 } else { 0 };
            if tx.send((i, ms.iter().skip(skip).map(msg_num).collect())).is_err() {
              break;
            }
          }
          Err(_) => break,
        }
      }
    });
  }
  let w = World { rt, _ctx: ctx, sut, peers, rx, is_req, wait: std::cell::Cell::new(Duration::from_millis(patience_ms)), exp_marks: std::cell::Cell::new(0) };
  w.warm_up();
  w.wait.set(WAIT);
  w.exp_marks.set(marks("rpq_pushed"));
  w
}

/// a warm-up call: a time-out is a timing matter (retry), an error answer of the socket is not
fn check_call(r: &Result<Result<(), &ZmqError>, &tokio::time::error::Elapsed>, what: &str, i: usize) {
  match r {
    Ok(Ok(())) => {}
    Ok(Err(e)) => panic!("FATAL: warm-up {what} {i} answered {e:?}"),
    Err(_) => panic!("warm-up {what} {i} did not return"),
  }
}

impl World {
  /// One full exchange with every peer before the case starts.  A ROUTER peer silently drops what it
  /// sends before its own side of the handshake has registered the REQ's identity, so "attached" on
  /// the socket under test is not enough; after the exchange both directions are known to work, the
  /// socket is back in its initial state, its queue is empty and the round-robin cursor is at 0.
  fn warm_up(&self) {
    let n = self.peers.len();
    for i in 0..n {
      if self.is_req {
        let s = self.sut.clone();
        let r = self.rt.block_on(async move { tokio::time::timeout(WAIT, s.send(frame_of(1))).await });
        check_call(&r.as_ref().map(|x| x.as_ref().map(|_| ())), "send", i);
        let (p, fr) = self.expect_delivery().expect("warm-up request not delivered");
        assert!(p == i && fr == vec![0, 1], "warm-up: request {i} went to peer {p} as {fr:?} (attach order?)");
        assert!(self.peer_send(p, &[0, 2]) == 1, "warm-up reply {i} did not arrive");
        let s = self.sut.clone();
        let r = self.rt.block_on(async move { tokio::time::timeout(WAIT, s.recv()).await });
        check_call(&r.as_ref().map(|x| x.as_ref().map(|_| ())), "recv", i);
      } else {
        assert!(self.peer_send(i, &[0, 1]) == 1, "warm-up request {i} did not arrive");
        let s = self.sut.clone();
        let r = self.rt.block_on(async move { tokio::time::timeout(WAIT, s.recv()).await });
        check_call(&r.as_ref().map(|x| x.as_ref().map(|_| ())), "recv", i);
        let s = self.sut.clone();
        let r = self.rt.block_on(async move { tokio::time::timeout(WAIT, s.send(frame_of(2))).await });
        check_call(&r.as_ref().map(|x| x.as_ref().map(|_| ())), "send", i);
        let (p, fr) = self.expect_delivery().expect("warm-up reply not delivered");
        assert!(p == i && fr == vec![0, 2], "warm-up: reply {i} went to peer {p} as {fr:?}");
      }
    }
  }
  /// wait for exactly one message to reach some peer
  fn expect_delivery(&self) -> Option<(usize, Vec<u64>)> {
    let r = self.rx.recv_timeout(self.wait.get()).ok();
    if r.is_some() {
      self.exp_marks.set(self.exp_marks.get() + 1);
    }
    r
  }
  /// a queue push that no step of this case accounts for (left-over activity of an earlier case in this
  /// process): the marks can no longer be trusted, the case has to be run again
  fn stray_push(&self) -> bool {
    let m = marks("rpq_pushed");
    if m != self.exp_marks.get() {
      self.exp_marks.set(m);
      true
    } else {
      false
    }
  }
  /// peer p sends the raw frames; wait until they sit in the ingress queue of the socket under test
  fn peer_send(&self, p: usize, frames: &[u64]) -> u64 {
    let Some(sock) = self.peers.get(p).and_then(|x| x.clone()) else {
      return 0;
    };
    let before = marks("rpq_pushed");
    let mut ms: Vec<Msg> = Vec::new();
    if self.is_req {
      ms.push(Msg::from_static(SUT_ID));
    }
    // a ROUTER always puts the empty delimiter in front of what it sends to a REQ peer itself
    let frames = if self.is_req && frames.first() == Some(&0) { &frames[1..] } else { frames };
    ms.extend(frames.iter().map(|&n| frame_of(n)));
    let last = ms.len().saturating_sub(1);
    for (i, m) in ms.iter_mut().enumerate() {
      if i < last {
        m.set_flags(m.flags() | MsgFlags::MORE);
      }
    }
    let r = self.rt.block_on(async move { tokio::time::timeout(WAIT, sock.send_multipart(ms)).await });
    if !matches!(r, Ok(Ok(()))) {
      return 2;
    }
    if wait_until_for(self.wait.get(), || marks("rpq_pushed") > before) {
      self.exp_marks.set(self.exp_marks.get() + 1);
      1
    } else {
      3
    }
  }
  fn detach(&mut self, p: usize) -> u64 {
    let Some(sock) = self.peers.get_mut(p).and_then(|x| x.take()) else {
      return 0;
    };
    let name = if self.is_req { "req_detached" } else { "rep_detached" };
    let before = marks(name);
    let _ = self.rt.block_on(async move { tokio::time::timeout(WAIT, sock.close()).await });
    if wait_until(|| marks(name) > before) {
      1
    } else {
      3
    }
  }
  fn shutdown(self) {
    let World { rt, _ctx, sut, peers, .. } = self;
    rt.block_on(async {
      let _ = tokio::time::timeout(Duration::from_millis(500), sut.close()).await;
      for p in peers.into_iter().flatten() {
        let _ = tokio::time::timeout(Duration::from_millis(500), p.close()).await;
      }
      let _ = tokio::time::timeout(Duration::from_millis(1500), _ctx.term()).await;
    });
    rt.shutdown_timeout(Duration::from_millis(200));
  }
}

fn point_code(name: &str) -> u64 {
  match name {
    "req_send_checked" => 1,
    "req_send_pushed" => 2,
    "req_recv_checked" => 3,
    "req_recv_got" => 4,
    "req_recvm_checked" => 5,
    "req_recvm_got" => 6,
    "rep_recv_checked" => 7,
    "rep_recv_got" => 8,
    "rep_recvm_checked" => 9,
    "rep_recvm_got" => 10,
    "rep_send_taken" => 11,
    _ => 99,
  }
}

struct Task {
  prog: Vec<Call>,
  next: usize,
  fut: Option<(Call, CallFut)>,
  flag: Arc<WakeFlag>,
}

// ---------------------------------------------------------------- replay mode

/// rows:
///   [0, t, 0]                    task t polled: parked on a real await (or nothing left to call)
///   [0, t, 1, point]             ... stopped at a schedule point
///   [0, t, 2, op, res, data..]   ... its call returned
///   [1, p, delivered]            frames from peer p queued (0: peer gone)
///   [2, p, done]                 peer p closed and pipe_detached ran
///   [3, t, woken]                waited for task t's timer
///   [8, p, frames..]             (in order of arrival) what peer p received
fn run_replay(c: &Value) -> Value {
  let is_req = c["k"].as_str().unwrap() == "req";
  let npeers = c["peers"].as_u64().unwrap_or(1) as usize;
  let rcvtimeo = c["rcvtimeo"].as_i64().unwrap_or(0);
  let mut w = build_world(is_req, npeers, rcvtimeo, 2);
  let mut tasks: Vec<Task> = c["progs"]
    .as_array()
    .unwrap()
    .iter()
    .map(|p| Task {
      prog: p.as_array().unwrap().iter().map(parse_call).collect(),
      next: 0,
      fut: None,
      flag: Arc::new(WakeFlag(AtomicBool::new(false))),
    })
    .collect();
  let last_point: Arc<Mutex<Option<&'static str>>> = Arc::new(Mutex::new(None));
  let lp = last_point.clone();
  set_point_hook(Some(Arc::new(move |name| {
    *lp.lock().unwrap() = Some(name);
    Some(pend_once())
  })));
  let mut rows: Vec<Vec<u64>> = Vec::new();
  let mut deliveries: Vec<Vec<u64>> = Vec::new();
  let mut problems: Vec<String> = Vec::new();
  for tok in c["sched"].as_array().unwrap() {
    if w.stray_push() {
      problems.push("stray queue push (activity left over from an earlier case)".into());
    }
    match tok[0].as_str().unwrap() {
      "t" => {
        let ti = tok[1].as_u64().unwrap() as usize;
        let t = &mut tasks[ti];
        if t.fut.is_none() {
          if t.next >= t.prog.len() {
            rows.push(vec![0, ti as u64, 0]);
            continue;
          }
          let call = t.prog[t.next].clone();
          t.next += 1;
          t.fut = Some((call.clone(), make_call(&w.sut, &call)));
        }
        *last_point.lock().unwrap() = None;
        t.flag.0.store(false, Ordering::SeqCst);
        let waker = Waker::from(t.flag.clone());
        let mut cx = TaskCx::from_waker(&waker);
        let polled = {
          let _g = w.rt.enter();
          t.fut.as_mut().unwrap().1.as_mut().poll(&mut cx)
        };
        match polled {
          Poll::Ready((res, data)) => {
            let (call, _) = t.fut.take().unwrap();
            let mut row = vec![0, ti as u64, 2, call.op, res];
            row.extend(data);
            rows.push(row);
            if !is_req && (call.op == 0 || call.op == 2) && res == 0 {
              match w.expect_delivery() {
                Some((p, fr)) => {
                  let mut d = vec![8, p as u64];
                  d.extend(fr);
                  deliveries.push(d);
                }
                None => problems.push(format!("REP send by task {ti} answered Ok but no peer received a reply")),
              }
            }
          }
          Poll::Pending => {
            let at = last_point.lock().unwrap().take();
            match at {
              Some(name) => {
                rows.push(vec![0, ti as u64, 1, point_code(name)]);
                if name == "req_send_pushed" {
                  match w.expect_delivery() {
                    Some((p, fr)) => {
                      let mut d = vec![8, p as u64];
                      d.extend(fr);
                      deliveries.push(d);
                    }
                    None => problems.push(format!("REQ send by task {ti} pushed but no peer received the request")),
                  }
                }
              }
              None => rows.push(vec![0, ti as u64, 0]),
            }
          }
        }
      }
      "reply" | "req" => {
        let p = tok[1].as_u64().unwrap() as usize;
        let frames: Vec<u64> = tok[2].as_array().unwrap().iter().map(|x| x.as_u64().unwrap()).collect();
        let r = w.peer_send(p, &frames);
        if r > 1 {
          problems.push(format!("peer {p} send did not arrive (code {r})"));
        }
        rows.push(vec![1, p as u64, r]);
      }
      "detach" => {
        let p = tok[1].as_u64().unwrap() as usize;
        let r = w.detach(p);
        if r > 1 {
          problems.push(format!("detach of peer {p} not observed"));
        }
        rows.push(vec![2, p as u64, r]);
      }
      "timeout" => {
        let ti = tok[1].as_u64().unwrap() as usize;
        let f = tasks[ti].flag.clone();
        let ok = wait_until(|| f.0.load(Ordering::SeqCst));
        rows.push(vec![3, ti as u64, ok as u64]);
      }
      other => panic!("token {other}"),
    }
  }
  set_point_hook(None);
  // anything else that reached a peer (there should be nothing)
  std::thread::sleep(Duration::from_millis(c["settle_ms"].as_u64().unwrap_or(5)));
  while let Ok((p, fr)) = w.rx.try_recv() {
    let mut d = vec![8, p as u64];
    d.extend(fr);
    deliveries.push(d);
    problems.push("a peer received a message that no completed step accounts for".into());
  }
  drop(tasks);
  w.shutdown();
  rows.extend(deliveries);
  json!({"rows": rows, "problems": problems})
}

// ---------------------------------------------------------------- multi-thread mode

/// Rounds of racing calls on a 4-worker runtime.  REQ: `n` sends race; then the peer's replies and
/// `n` racing recvs.  REP: n requests from n peers are queued, `n` recvs race, then `n` sends race.
/// hook: 0 = no hook installed (the code as shipped), 1 = yield_now at every schedule point.
/// rows: per round [round, phase, n_ok, n_invalid, n_other]
fn run_mt(c: &Value) -> Value {
  let is_req = c["sock"].as_str().unwrap() == "req";
  let rounds = c["rounds"].as_u64().unwrap_or(100);
  let n = c["n"].as_u64().unwrap_or(8) as usize;
  let hook = c["hook"].as_u64().unwrap_or(0);
  let npeers = if is_req { 1 } else { n.min(4) };
  let w = build_world(is_req, npeers, 0, 4);
  w.wait.set(Duration::from_millis(1500));
  let budget = Duration::from_secs(c["budget_s"].as_u64().unwrap_or(90));
  let started = Instant::now();
  if hook == 1 {
    set_point_hook(Some(Arc::new(|_| Some(yield_once()))));
  }
  let mut rows: Vec<Vec<u64>> = Vec::new();
  let mut problems: Vec<String> = Vec::new();
  let race = |op: u64, base: u64| -> Vec<CallOut> {
    let hs: Vec<_> = (0..n)
      .map(|i| {
        let f = make_call(&w.sut, &Call { op, tag: base + 2 * i as u64 });
        w.rt.spawn(async move { tokio::time::timeout(Duration::from_millis(300), f).await.unwrap_or((10, vec![])) })
      })
      .collect();
    w.rt.block_on(async {
      let mut out = Vec::new();
      for h in hs {
        out.push(h.await.unwrap_or((11, vec![])));
      }
      out
    })
  };
  let tally = |r: &[CallOut]| -> (u64, u64, u64) {
    let ok = r.iter().filter(|x| x.0 <= 1).count() as u64;
    let inv = r.iter().filter(|x| x.0 == 2).count() as u64;
    (ok, inv, r.len() as u64 - ok - inv)
  };
  // what reached the peers: wait (generously) for the `expected` deliveries, briefly for any surplus
  let drain = |w: &World, expected: u64| -> Vec<(usize, Vec<u64>)> {
    let mut v = Vec::new();
    loop {
      let patience = if (v.len() as u64) < expected { 1000 } else { 20 };
      match w.rx.recv_timeout(Duration::from_millis(patience)) {
        Ok(x) => v.push(x),
        Err(_) => break,
      }
    }
    v
  };
  for round in 0..rounds {
    if started.elapsed() > budget {
      problems.push(format!("time budget used up after {round} rounds"));
      break;
    }
    let base = 1000 * (round + 1);
    if is_req {
      // phase 0: n racing sends from ReadyToSend
      let r = race(0, base);
      let (ok, inv, other) = tally(&r);
      rows.push(vec![round, 0, ok, inv, other]);
      let got = drain(&w, ok);
      if got.len() as u64 != ok {
        problems.push(format!("round {round}: {ok} sends answered Ok, peer received {}", got.len()));
      }
      // the peer answers every request it got; then n racing recvs
      let mut lost = false;
      for (p, fr) in &got {
        lost |= w.peer_send(*p, &[0, fr.last().copied().unwrap_or(1)]) != 1;
      }
      if lost {
        problems.push(format!("round {round}: a scripted reply did not reach the socket; stopping"));
        break;
      }
      let r = race(1, base);
      let (ok2, inv2, other2) = tally(&r);
      rows.push(vec![round, 1, ok2, inv2, other2]);
      // leave the socket in ReadyToSend with an empty queue for the next round
      for _ in 0..got.len() {
        let f = make_call(&w.sut, &Call { op: 3, tag: 0 });
        let _ = w.rt.block_on(async { tokio::time::timeout(Duration::from_millis(30), f).await });
      }
      if ok == 0 {
        break;
      }
    } else {
      let mut lost = false;
      for p in 0..npeers {
        lost |= w.peer_send(p, &[0, base + p as u64]) != 1;
      }
      if lost {
        problems.push(format!("round {round}: a scripted request did not reach the socket; stopping"));
        break;
      }
      let r = race(1, base);
      let (ok, inv, other) = tally(&r);
      rows.push(vec![round, 0, ok, inv, other]);
      let r2 = race(0, base + 500);
      let (ok2, inv2, other2) = tally(&r2);
      rows.push(vec![round, 1, ok2, inv2, other2]);
      let got = drain(&w, ok2);
      if got.len() as u64 != ok2 {
        problems.push(format!("round {round}: {ok2} replies answered Ok, peers received {}", got.len()));
      }
      // drain what is still queued so the next round starts from ReadyToReceive with an empty queue
      for _ in 0..npeers {
        let f = make_call(&w.sut, &Call { op: 3, tag: 0 });
        let r = w.rt.block_on(async { tokio::time::timeout(Duration::from_millis(30), f).await });
        if let Ok((0, _)) = r {
          let f = make_call(&w.sut, &Call { op: 0, tag: 1 });
          let _ = w.rt.block_on(async { tokio::time::timeout(Duration::from_millis(100), f).await });
        }
      }
      let _ = drain(&w, 0);
    }
  }
  set_point_hook(None);
  w.shutdown();
  json!({"rows": rows, "problems": problems})
}

/// Side probe (not part of ./check): how long does the FIRST message take that is sent right after the
/// socket under test reported the peer attached?  rows: [delivered (0/1), milliseconds]
fn run_attach_probe(c: &Value) -> Value {
  let is_req = c["sock"].as_str().unwrap() == "req";
  let att = if is_req { "req_attached" } else { "rep_attached" };
  let rt = tokio::runtime::Builder::new_multi_thread().worker_threads(2).enable_all().build().unwrap();
  let row = rt.block_on(async {
    let ctx = Context::new().expect("ctx");
    let sut = ctx.socket(if is_req { SocketType::Req } else { SocketType::Rep }).expect("sut");
    sut.set_option_raw(opt::ROUTING_ID, SUT_ID).await.expect("routing id");
    sut.bind("tcp://127.0.0.1:0").await.expect("bind");
    let ep = String::from_utf8(sut.get_option(opt::LAST_ENDPOINT).await.expect("last endpoint")).unwrap();
    let d = ctx.socket(if is_req { SocketType::Router } else { SocketType::Dealer }).expect("peer");
    d.set_option_raw(opt::AUTO_DELIMITER, &0i32.to_ne_bytes()).await.expect("auto_delimiter off");
    let before = marks(att);
    d.connect(&ep).await.expect("connect");
    while marks(att) <= before {
      tokio::time::sleep(Duration::from_millis(1)).await;
    }
    let t0 = Instant::now();
    let ok = if is_req {
      sut.send(frame_of(1)).await.expect("send");
      tokio::time::timeout(Duration::from_millis(10000), d.recv_multipart()).await.map(|r| r.is_ok()).unwrap_or(false)
    } else {
      let mut m0 = frame_of(0);
      m0.set_flags(MsgFlags::MORE);
      d.send_multipart(vec![m0, frame_of(1)]).await.expect("send");
      tokio::time::timeout(Duration::from_millis(10000), sut.recv()).await.map(|r| r.is_ok()).unwrap_or(false)
    };
    let ms = t0.elapsed().as_millis() as u64;
    let _ = tokio::time::timeout(Duration::from_millis(300), sut.close()).await;
    let _ = tokio::time::timeout(Duration::from_millis(300), d.close()).await;
    vec![ok as u64, ms]
  });
  rt.shutdown_timeout(Duration::from_millis(100));
  json!({"rows": [row]})
}

/// Failing-input search for "a call that fails changes nothing": a REQ whose send() is REFUSED by
/// back-pressure (SNDTIMEO=0, the REP never reads, RCVHWM=1 over inproc). Requests are issued until one
/// is refused (each earlier cycle ends with a recv() that times out); then recv() and send() are probed.
/// rows: [[refused_seen, code of the refused send, code of recv() right after it, code of the next send()]]
fn run_bp(c: &Value) -> Value {
  let tr = c["tr"].as_str().unwrap_or("inproc").to_string();
  let rt = tokio::runtime::Builder::new_multi_thread().worker_threads(2).enable_all().build().unwrap();
  let row = rt.block_on(async move {
    let ctx = Context::new().expect("ctx");
    let rep = ctx.socket(SocketType::Rep).expect("rep");
    rep.set_option_raw(opt::RCVHWM, &1i32.to_ne_bytes()).await.expect("rcvhwm");
    let ep = if tr == "inproc" { format!("inproc://c10bp-{}", std::process::id()) } else { "tcp://127.0.0.1:0".to_string() };
    rep.bind(&ep).await.expect("bind");
    let ep = if tr == "inproc" { ep } else { String::from_utf8(rep.get_option(opt::LAST_ENDPOINT).await.expect("le")).unwrap() };
    let req = ctx.socket(SocketType::Req).expect("req");
    req.set_option_raw(opt::SNDHWM, &1i32.to_ne_bytes()).await.expect("sndhwm");
    req.set_option_raw(opt::SNDTIMEO, &0i32.to_ne_bytes()).await.expect("sndtimeo");
    req.set_option_raw(opt::RCVTIMEO, &30i32.to_ne_bytes()).await.expect("rcvtimeo");
    req.connect(&ep).await.expect("connect");
    tokio::time::sleep(Duration::from_millis(150)).await;
    let big = if tr == "inproc" { 64usize } else { 256 * 1024 };
    let mut row = vec![0u64, 0, 0, 0];
    for i in 0..200u64 {
      let r = tokio::time::timeout(Duration::from_millis(3000), req.send(Msg::from_vec(vec![i as u8; big]))).await;
      match r {
        Ok(Ok(())) => {
          // ends the cycle: nobody answers, recv() times out
          let _ = tokio::time::timeout(Duration::from_millis(3000), req.recv()).await;
        }
        Ok(Err(e)) if !matches!(e, ZmqError::InvalidState(_)) => {
          let rc = match tokio::time::timeout(Duration::from_millis(3000), req.recv()).await {
            Ok(Ok(_)) => 0,
            Ok(Err(e2)) => err_code(&e2),
            Err(_) => 99,
          };
          let sc = match tokio::time::timeout(Duration::from_millis(3000), req.send(Msg::from_vec(vec![7u8; big]))).await {
            Ok(Ok(())) => 0,
            Ok(Err(e2)) => err_code(&e2),
            Err(_) => 99,
          };
          row = vec![1, err_code(&e), rc, sc];
          break;
        }
        Ok(Err(e)) => {
          row = vec![2, err_code(&e), 0, 0]; // refused by the state check although the previous cycle had ended
          break;
        }
        Err(_) => {
          row = vec![3, 99, 0, 0];
          break;
        }
      }
    }
    let _ = tokio::time::timeout(Duration::from_millis(300), req.close()).await;
    let _ = tokio::time::timeout(Duration::from_millis(300), rep.close()).await;
    row
  });
  rt.shutdown_timeout(Duration::from_millis(100));
  json!({"rows": [row]})
}

pub fn run_case(c: &Value) -> Value {
  let r = catch_unwind(AssertUnwindSafe(|| match c["k"].as_str().unwrap() {
    "req" | "rep" => {
      // harness self-diagnostics (a delivery that did not show up in time, a stray push) are not results:
      // the case is run again; what persists is reported
      let mut v = run_replay(c);
      for _ in 0..2 {
        if v["problems"].as_array().map(|a| a.is_empty()).unwrap_or(true) {
          break;
        }
        std::thread::sleep(Duration::from_millis(100));
        v = run_replay(c);
      }
      v
    }
    "mt" => run_mt(c),
    "bp" => run_bp(c),
    "attach_probe" => run_attach_probe(c),
    other => panic!("unknown case kind {other}"),
  }));
  let retried: Vec<String> = std::mem::take(&mut *RETRIES.lock().unwrap());
  match r {
    Ok(mut v) => {
      if !retried.is_empty() {
        v["world_retries"] = json!(retried);
      }
      v
    }
    Err(e) => {
      set_point_hook(None);
      json!({"rows": [[77]], "panic": true, "msg": panic_text(&e), "world_retries": retried})
    }
  }
}

/// The hook and the marks are process-wide, so cases run one at a time per process; `c10` fans the
/// cases out over worker processes (`c10w`) and keeps the order.
pub fn run_all(cases: &[Value], out_path: &str) -> Vec<Value> {
  let nproc: usize = std::env::var("VH_C10_PROCS").ok().and_then(|s| s.parse().ok()).unwrap_or(10);
  if cases.len() < 6 || nproc <= 1 {
    return cases.iter().map(run_case).collect();
  }
  let exe = std::env::current_exe().expect("current_exe");
  let mut children = Vec::new();
  for s in 0..nproc {
    let part: Vec<Value> = cases.iter().skip(s).step_by(nproc).cloned().collect();
    if part.is_empty() {
      continue;
    }
    let pin = format!("{out_path}.w{s}.in");
    let pout = format!("{out_path}.w{s}.out");
    std::fs::write(&pin, serde_json::to_string(&part).unwrap()).expect("write shard");
    let ch = std::process::Command::new(&exe).arg("c10w").arg(&pin).arg(&pout).spawn().expect("spawn worker");
    children.push((s, part.len(), pin, pout, ch));
  }
  let mut out: Vec<Value> = vec![json!({"rows": [[95]], "panic": true}); cases.len()];
  for (s, len, pin, pout, mut ch) in children {
    let _ = ch.wait();
    let vals: Vec<Value> = std::fs::read_to_string(&pout).ok().and_then(|t| serde_json::from_str(&t).ok()).unwrap_or_default();
    for j in 0..len {
      if let Some(v) = vals.get(j) {
        out[s + j * nproc] = v.clone();
      }
    }
    let _ = std::fs::remove_file(&pin);
    let _ = std::fs::remove_file(&pout);
  }
  out
}
