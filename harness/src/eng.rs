//! Engine executor: drives the real sans-IO `ZmtpEngine` with scripted inputs.
use crate::c03::mk_msg;
use crate::util::*;
use bytes::Bytes;
use rzmq::protocol::zmtp::actions::{AppAction, EngineOutput, NetAction};
use rzmq::protocol::zmtp::engine::{ZmtpEngine, ZmtpPhase};
use rzmq::verif::engine::{new_engine, VEngineConfig};
use rzmq::{FrameBatch, Msg, ZmqError};
use serde_json::{json, Value};
use std::panic::{catch_unwind, AssertUnwindSafe};
use std::time::{Duration, Instant};

pub fn err_class(e: &ZmqError) -> u64 {
  match e {
    ZmqError::ProtocolViolation(_) => 1,
    ZmqError::SecurityError(_) => 2,
    ZmqError::AuthenticationFailure(_) => 3,
    ZmqError::Timeout => 4,
    ZmqError::Internal(_) => 5,
    ZmqError::InvalidState(_) => 6,
    ZmqError::EncryptionError(_) => 7,
    ZmqError::InvalidCurveKey => 8,
    _ => 20,
  }
}

fn key32(v: &Value) -> Option<[u8; 32]> {
  v.as_array().map(|a| {
    let mut k = [0u8; 32];
    for (i, x) in a.iter().take(32).enumerate() {
      k[i] = x.as_u64().unwrap() as u8;
    }
    k
  })
}

pub fn mk_cfg(c: &Value) -> (bool, VEngineConfig) {
  let mut cfg = VEngineConfig::default();
  cfg.socket_type_name = c["stype"].as_str().unwrap_or("DEALER").to_string();
  cfg.routing_id = c.get("rid").and_then(|v| v.as_array()).map(|a| a.iter().map(|x| x.as_u64().unwrap() as u8).collect());
  cfg.allow_zmtp2 = c.get("allow_v2").and_then(|v| v.as_bool()).unwrap_or(true);
  cfg.use_plain = b(c, "plain");
  cfg.use_curve = b(c, "curve");
  cfg.use_noise_xx = b(c, "noise");
  cfg.security_enabled = cfg.use_plain || cfg.use_curve || cfg.use_noise_xx;
  if let Some(v) = c.get("sec_enabled").and_then(|v| v.as_bool()) {
    cfg.security_enabled = v;
  }
  cfg.plain_username = c.get("user").and_then(|v| v.as_str()).map(|s| s.to_string());
  cfg.plain_password = c.get("pass").and_then(|v| v.as_str()).map(|s| s.to_string());
  cfg.curve_local_secret_key = c.get("curve_sk").and_then(key32);
  cfg.curve_remote_public_key = c.get("curve_pk").and_then(key32);
  cfg.noise_xx_local_sk = c.get("noise_sk").and_then(key32);
  cfg.noise_xx_remote_pk = c.get("noise_pk").and_then(key32);
  cfg.heartbeat_ivl = c.get("hb_ivl_ms").and_then(|v| v.as_u64()).map(Duration::from_millis);
  cfg.heartbeat_timeout = c.get("hb_timeout_ms").and_then(|v| v.as_u64()).map(Duration::from_millis);
  cfg.use_cork = b(c, "cork");
  cfg.use_send_zerocopy = b(c, "zc");
  cfg.max_msg_size = c.get("maxsz").and_then(|v| v.as_i64()).unwrap_or(-1);
  (b(c, "server"), cfg)
}

/// bytes of a list of pieces: {"bytes":[..]} | {"len":n,"seed":s} | {"frame":{more,cmd,len|bytes,seed}}
pub fn pieces_bytes(v: &Value) -> Vec<u8> {
  let mut out = Vec::new();
  for p in v.as_array().unwrap() {
    if let Some(f) = p.get("frame") {
      let m = mk_msg(f);
      let d = m.data().unwrap_or(&[]);
      let mut fl = 0u8;
      if m.is_more() {
        fl |= 1;
      }
      if m.is_command() {
        fl |= 4;
      }
      if d.len() <= 255 {
        out.push(fl);
        out.push(d.len() as u8);
      } else {
        out.push(fl | 2);
        out.extend_from_slice(&(d.len() as u64).to_be_bytes());
      }
      out.extend_from_slice(d);
    } else {
      out.extend_from_slice(&payload_of(p));
    }
  }
  out
}

/// If `data` is exactly one COMMAND frame whose body is a READY command, re-encode its
/// properties in canonical order (Socket-Type, Identity, others by name); HashMap order varies.
pub fn canonical_ready(data: &[u8]) -> Vec<u8> {
  if data.len() < 2 || data[0] & 4 == 0 {
    return data.to_vec();
  }
  let (hl, n) = if data[0] & 2 != 0 {
    if data.len() < 9 {
      return data.to_vec();
    }
    (9usize, u64::from_be_bytes(data[1..9].try_into().unwrap()) as usize)
  } else {
    (2usize, data[1] as usize)
  };
  if data.len() != hl + n || n < 6 || &data[hl..hl + 6] != b"\x05READY" {
    return data.to_vec();
  }
  let body = &data[hl + 6..];
  let mut props: Vec<(Vec<u8>, Vec<u8>)> = Vec::new();
  let mut p = 0usize;
  while p < body.len() {
    let nl = body[p] as usize;
    p += 1;
    if p + nl + 4 > body.len() {
      return data.to_vec();
    }
    let name = body[p..p + nl].to_vec();
    p += nl;
    let vl = u32::from_be_bytes(body[p..p + 4].try_into().unwrap()) as usize;
    p += 4;
    if p + vl > body.len() {
      return data.to_vec();
    }
    props.push((name, body[p..p + vl].to_vec()));
    p += vl;
  }
  let rank = |n: &Vec<u8>| -> (u8, Vec<u8>) {
    if n == b"Socket-Type" {
      (0, vec![])
    } else if n == b"Identity" {
      (1, vec![])
    } else {
      (2, n.clone())
    }
  };
  props.sort_by_key(|(n, _)| rank(n));
  let mut nb = b"\x05READY".to_vec();
  for (n, v) in props {
    nb.push(n.len() as u8);
    nb.extend_from_slice(&n);
    nb.extend_from_slice(&(v.len() as u32).to_be_bytes());
    nb.extend_from_slice(&v);
  }
  let mut out = data[..hl].to_vec();
  out.extend_from_slice(&nb);
  out
}

pub fn msg_row(m: &Msg) -> Vec<u64> {
  let mut r = vec![7, m.is_more() as u64, m.is_command() as u64];
  r.extend(digest(m.data().unwrap_or(&[])));
  r
}

/// rows for one EngineOutput: net actions first, then app actions (the two vectors are
/// separate in the real type, so their relative order is not observable).
pub fn out_rows(out: &EngineOutput, opaque: bool, rows: &mut Vec<Vec<u64>>) -> Vec<Vec<u8>> {
  let mut sent = Vec::new();
  for a in &out.net_actions {
    match a {
      NetAction::Send { data, zc_eligible } => {
        sent.push(data.to_vec());
        if opaque {
          rows.push(vec![2]);
        } else {
          let mut r = vec![1, *zc_eligible as u64];
          r.extend(digest(&canonical_ready(data)));
          rows.push(r);
        }
      }
      NetAction::SetCork(on) => rows.push(vec![3, *on as u64]),
      NetAction::ScheduleClose(d) => rows.push(vec![4, d.is_some() as u64, d.map(|x| x.as_millis() as u64).unwrap_or(0)]),
    }
  }
  for a in &out.app_actions {
    match a {
      AppAction::HandshakeComplete { peer_identity, peer_socket_type } => {
        let mut r = vec![5, peer_identity.is_some() as u64];
        r.extend(digest(peer_identity.as_ref().map(|b| b.as_ref()).unwrap_or(&[])));
        r.push(peer_socket_type.is_some() as u64);
        let t = peer_socket_type.as_ref().map(|s| s.as_bytes().to_vec()).unwrap_or_default();
        // lossy conversion replaces invalid UTF-8 by U+FFFD; report only whether it happened
        let lossy = t.windows(3).any(|w| w == [0xEF, 0xBF, 0xBD]);
        r.push(lossy as u64);
        if !lossy {
          r.extend(digest(&t));
        }
        rows.push(r);
      }
      AppAction::DeliverMessage(fb) => {
        rows.push(vec![6, fb.len() as u64]);
        for m in fb {
          rows.push(msg_row(m));
        }
      }
      AppAction::PeerError(e) => rows.push(vec![8, if opaque { 0 } else { err_class(e) }]),
    }
  }
  sent
}

pub fn phase_code(p: ZmtpPhase) -> u64 {
  match p {
    ZmtpPhase::Greeting => 0,
    ZmtpPhase::Security => 1,
    ZmtpPhase::Ready => 2,
    ZmtpPhase::V2Identity => 3,
    ZmtpPhase::Data => 4,
    ZmtpPhase::Closed => 5,
  }
}

pub struct Eng {
  pub e: ZmtpEngine,
  pub base: Instant,
  pub dead: bool,
}

impl Eng {
  pub fn new(c: &Value) -> Eng {
    let (server, cfg) = mk_cfg(c);
    let base = Instant::now();
    let mut e = new_engine(server, &cfg);
    if c.get("vclock").is_some() {
      // virtual clock: the engine's construction stamp becomes virtual time 0
      e.verif_set_last_activity(base);
    }
    Eng { e, base, dead: false }
  }

  /// apply one scripted input; returns the bytes sent
  pub fn input(&mut self, i: &Value, opaque: bool, rows: &mut Vec<Vec<u64>>) -> Vec<Vec<u8>> {
    if self.dead {
      rows.push(vec![90, 0]);
      return vec![];
    }
    let mut local: Vec<Vec<u64>> = Vec::new();
    let e = &mut self.e;
    let base = self.base;
    let r = catch_unwind(AssertUnwindSafe(|| {
      let mut l: Vec<Vec<u64>> = Vec::new();
      // virtual clock ("at": ms on a net / wrote input): the engine stamps activity with Instant::now();
      // plant a sentinel, see whether the call stamped, and re-stamp with the scripted time
      let at = i.get("at").and_then(|x| x.as_u64());
      let sentinel = base - Duration::from_secs(3600);
      // "frame_before": the session frames an outbound batch (frame_batch / frame_batch_vectored) at virtual time tf just
      // before this input. Framing is not activity: if the call stamps, the stamp is moved to the scripted time so that
      // the consequence shows in the following ticks (the model's heartbeat state ignores framing)
      if let Some(tf) = i.get("frame_before").and_then(|x| x.as_u64()) {
        let saved0 = e.verif_last_activity();
        e.verif_set_last_activity(sentinel);
        let mut fb = FrameBatch::new();
        fb.push(Msg::from_vec(vec![1, 2, 3]));
        let _ = e.frame_batch(&[fb.clone()]);
        let _ = e.frame_batch_vectored(&[fb]);
        let stamped = e.verif_last_activity() != sentinel;
        e.verif_set_last_activity(if stamped { base + Duration::from_millis(tf) } else { saved0 });
      }
      let saved = e.verif_last_activity();
      if at.is_some() {
        e.verif_set_last_activity(sentinel);
      }
      let out = if let Some(p) = i.get("net") {
        e.on_network_bytes(Bytes::from(pieces_bytes(p)))
      } else if i.get("wrote").is_some() {
        e.record_activity();
        EngineOutput::new()
      } else if i.get("deadline").is_some() {
        let d = e.get_pong_deadline();
        l.push(vec![91, d.is_some() as u64, d.map(|x| x.saturating_duration_since(base).as_millis() as u64).unwrap_or(0)]);
        EngineOutput::new()
      } else if let Some(fs) = i.get("app") {
        let mut fb = FrameBatch::new();
        for f in fs.as_array().unwrap() {
          fb.push(mk_msg(f));
        }
        e.on_app_message(fb)
      } else if let Some(t) = i.get("tick") {
        e.on_tick(base + Duration::from_millis(t.as_u64().unwrap()))
      } else if i.get("close").is_some() {
        e.close()
      } else if i.get("start").is_some() {
        e.start()
      } else {
        panic!("bad input {i}")
      };
      if let Some(t) = at {
        let stamped = e.verif_last_activity() != sentinel;
        e.verif_set_last_activity(if stamped { base + Duration::from_millis(t) } else { saved });
      }
      let sent = out_rows(&out, opaque, &mut l);
      (l, sent)
    }));
    match r {
      Ok((l, sent)) => {
        local = l;
        rows.push(vec![90, local.len() as u64]);
        rows.extend(local);
        sent
      }
      Err(_) => {
        self.dead = true;
        local.push(vec![9]);
        rows.push(vec![90, 1]);
        rows.extend(local);
        vec![]
      }
    }
  }

  pub fn final_row(&self) -> Vec<u64> {
    if self.dead {
      return vec![99, 5, 0, 0];
    }
    vec![99, phase_code(self.e.phase), self.e.buffer_len() as u64, self.e.is_waiting_for_pong() as u64]
  }
}

pub fn run_case(c: &Value) -> Value {
  let opaque = b(c, "opaque");
  let mut eng = Eng::new(&c["cfg"]);
  let mut rows: Vec<Vec<u64>> = Vec::new();
  let mut max_buf = 0u64;
  for i in c["inputs"].as_array().unwrap() {
    eng.input(i, opaque, &mut rows);
    if !eng.dead {
      max_buf = max_buf.max(eng.e.buffer_len() as u64);
    }
  }
  rows.push(eng.final_row());
  json!({"rows": rows, "max_buf": max_buf, "panicked": eng.dead})
}
