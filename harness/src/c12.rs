//! C12: subscription trie histories and the SUB-side filter paths, executed on the real code.
use crate::util::*;
use rzmq::verif::trie::{VFilteredPipe, VTrie};
use rzmq::{FrameBatch, Msg, MsgFlags};
use serde_json::{json, Value};
use std::collections::VecDeque;
use std::panic::{catch_unwind, AssertUnwindSafe};

fn apply_op(t: &VTrie, op: &Value) -> Vec<u64> {
  match op["o"].as_str().unwrap() {
    "sub" => {
      t.subscribe(&bytes_of(&op["t"]));
      vec![0]
    }
    "unsub" => vec![1, t.unsubscribe(&bytes_of(&op["t"])) as u64],
    "match" => vec![2, t.matches(&bytes_of(&op["t"])) as u64],
    "topics" => {
      let mut ts = t.get_all_topics();
      ts.sort();
      let mut r = vec![3, ts.len() as u64];
      for x in ts {
        r.push(x.len() as u64);
        r.extend(x.iter().map(|&b| b as u64));
      }
      r
    }
    other => panic!("unknown op {other}"),
  }
}

fn hist(c: &Value) -> Vec<Vec<u64>> {
  let t = VTrie::new();
  c["ops"].as_array().unwrap().iter().map(|op| apply_op(&t, op)).collect()
}

fn mk_message(v: &Value) -> FrameBatch {
  let frames = v.as_array().unwrap();
  let mut fb = FrameBatch::new();
  for (i, f) in frames.iter().enumerate() {
    let mut m = if f.is_null() { Msg::new() } else { Msg::from_vec(bytes_of(f)) };
    if i + 1 < frames.len() {
      m.set_flags(MsgFlags::MORE);
    }
    fb.push(m);
  }
  fb
}

fn msg_row(tag: u64, b: &FrameBatch) -> Vec<u64> {
  let mut r = vec![tag, b.len() as u64];
  for m in b.iter() {
    match m.data() {
      None => r.extend([0, 0]),
      Some(d) => {
        r.extend([1, d.len() as u64]);
        r.extend(d.iter().map(|&x| x as u64));
      }
    }
  }
  r
}

fn filter(c: &Value) -> (Vec<Vec<u64>>, u64) {
  let t = VTrie::new();
  for op in c["ops"].as_array().unwrap() {
    apply_op(&t, op);
  }
  let cap = u(c, "cap") as usize;
  let pipe = VFilteredPipe::new(&t, cap, 1);
  let real_cap = pipe.capacity() as u64;
  if !b(c, "alive") {
    pipe.deregister();
  }
  let items: Vec<FrameBatch> = c["items"].as_array().unwrap().iter().map(mk_message).collect();
  let mut rows = Vec::new();
  match u(c, "path") {
    0 => {
      for it in items {
        let ok = futures::executor::block_on(pipe.send(it));
        match pipe.try_pop() {
          Some(bt) => {
            rows.push(vec![0, ok as u64, 1]);
            rows.push(msg_row(9, &bt));
          }
          None => rows.push(vec![0, ok as u64, 0]),
        }
      }
    }
    1 => {
      for it in items {
        rows.push(vec![1, pipe.try_send_sync(it) as u64]);
      }
    }
    _ => {
      let mut dq: VecDeque<FrameBatch> = items.into_iter().collect();
      let n = pipe.try_send_batch(&mut dq);
      rows.push(vec![2, n as u64, dq.len() as u64]);
      for it in dq.iter() {
        rows.push(msg_row(8, it));
      }
    }
  }
  while let Some(bt) = pipe.try_pop() {
    rows.push(msg_row(9, &bt));
  }
  (rows, real_cap)
}

// ---------------------------------------------------------------- stack level (real sockets)

fn opt_i32(v: i32) -> Vec<u8> {
  v.to_ne_bytes().to_vec()
}

async fn apply_sub_ops(s: &rzmq::Socket, ops: &Value) {
  use rzmq::socket::options::{SUBSCRIBE, UNSUBSCRIBE};
  for op in ops.as_array().unwrap() {
    let t = bytes_of(&op["t"]);
    let _ = match op["o"].as_str().unwrap() {
      "sub" => s.set_option_raw(SUBSCRIBE, &t).await,
      "unsub" => s.set_option_raw(UNSUBSCRIBE, &t).await,
      _ => Ok(()),
    };
  }
}

fn vec_row(tag: u64, frames: &[Msg]) -> Vec<u64> {
  let mut r = vec![tag, frames.len() as u64];
  for m in frames {
    let d = m.data().unwrap_or(&[]);
    r.extend([1, d.len() as u64]);
    r.extend(d.iter().map(|&x| x as u64));
  }
  r
}

/// PUB + n SUB over inproc or tcp. Each SUB applies its subscribe/unsubscribe history, then the PUB
/// publishes `msgs`. SUBs with `reads=false` never call recv (stalled subscriber). Reports what each
/// reading SUB received (in order), how long each publish took and when each message arrived.
async fn stack_async(c: &Value) -> Value {
  use rzmq::socket::options::{RCVHWM, SNDHWM, SNDTIMEO};
  use rzmq::{Context, SocketType};
  use std::time::{Duration, Instant};
  let ctx = Context::new().expect("context");
  let endpoint = if c["transport"].as_str() == Some("tcp") {
    format!("tcp://127.0.0.1:{}", u(c, "port"))
  } else {
    format!("inproc://c12_{}_{}", std::process::id(), u(c, "port"))
  };
  let publisher = ctx.socket(SocketType::Pub).expect("pub");
  if let Some(h) = c["sndhwm"].as_i64() {
    let _ = publisher.set_option_raw(SNDHWM, &opt_i32(h as i32)).await;
  }
  if let Some(t) = c["sndtimeo"].as_i64() {
    let _ = publisher.set_option_raw(SNDTIMEO, &opt_i32(t as i32)).await;
  }
  publisher.bind(&endpoint).await.expect("bind");
  tokio::time::sleep(Duration::from_millis(50)).await;
  let subs_desc = c["subs"].as_array().unwrap();
  let mut subs = Vec::new();
  for sd in subs_desc {
    let s = ctx.socket(SocketType::Sub).expect("sub");
    if let Some(h) = c["rcvhwm"].as_i64() {
      let _ = s.set_option_raw(RCVHWM, &opt_i32(h as i32)).await;
    }
    s.connect(&endpoint).await.expect("connect");
    apply_sub_ops(&s, &sd["ops"]).await;
    subs.push(s);
  }
  tokio::time::sleep(Duration::from_millis(u(c, "settle_ms"))).await;

  let idle = Duration::from_millis(u(c, "idle_ms"));
  let t0 = Instant::now();
  let mut readers = Vec::new();
  let mut stalled = Vec::new();
  for (s, sd) in subs.into_iter().zip(subs_desc.iter()) {
    if b(sd, "reads") {
      readers.push(Some(tokio::spawn(async move {
        let mut got: Vec<Vec<u64>> = Vec::new();
        let mut at: Vec<u64> = Vec::new();
        loop {
          match tokio::time::timeout(idle, s.recv_multipart()).await {
            Ok(Ok(frames)) => {
              got.push(vec_row(9, &frames));
              at.push(t0.elapsed().as_millis() as u64);
            }
            _ => break,
          }
        }
        (got, at, s)
      })));
    } else {
      readers.push(None);
      stalled.push(s);
    }
  }
  let send_to = Duration::from_millis(u(c, "send_timeout_ms"));
  let mut send_ms: Vec<u64> = Vec::new();
  let mut send_at: Vec<u64> = Vec::new();
  let mut timed_out_at: i64 = -1;
  for (i, m) in c["msgs"].as_array().unwrap().iter().enumerate() {
    let frames: Vec<Msg> = m.as_array().unwrap().iter().map(|f| Msg::from_vec(bytes_of(f))).collect();
    let st = Instant::now();
    send_at.push(t0.elapsed().as_millis() as u64);
    let r = tokio::time::timeout(send_to, publisher.send_multipart(frames)).await;
    send_ms.push(st.elapsed().as_millis() as u64);
    if r.is_err() {
      timed_out_at = i as i64;
      break;
    }
  }
  let mut recv = Vec::new();
  let mut recv_at = Vec::new();
  let mut keep = Vec::new();
  for r in readers {
    match r {
      Some(h) => {
        let (got, at, s) = h.await.expect("reader");
        recv.push(json!(got));
        recv_at.push(json!(at));
        keep.push(s);
      }
      None => {
        recv.push(Value::Null);
        recv_at.push(Value::Null);
      }
    }
  }
  drop(keep);
  drop(stalled);
  drop(publisher);
  let _ = tokio::time::timeout(Duration::from_secs(3), ctx.term()).await;
  json!({"rows": [], "recv": recv, "recv_at_ms": recv_at, "send_ms": send_ms, "send_at_ms": send_at,
         "send_timed_out_at": timed_out_at})
}

fn stack(c: &Value) -> Value {
  let rt = tokio::runtime::Builder::new_multi_thread().worker_threads(4).enable_all().build().expect("runtime");
  let v = rt.block_on(stack_async(c));
  rt.shutdown_timeout(std::time::Duration::from_secs(2));
  v
}

pub fn run_case(c: &Value) -> Value {
  let r = catch_unwind(AssertUnwindSafe(|| match c["k"].as_str().unwrap() {
    "hist" => json!({"rows": rows(hist(c))}),
    "filter" => {
      let (r, real_cap) = filter(c);
      json!({"rows": rows(r), "real_cap": real_cap})
    }
    "stack" => stack(c),
    other => panic!("unknown case kind {other}"),
  }));
  match r {
    Ok(v) => v,
    Err(_) => json!({"rows": [[99]], "panic": true}),
  }
}
