//! Stack-level scenarios: real `Context`/`Socket`s, raw TCP peers that control write boundaries.
use crate::eng::{msg_row, pieces_bytes};
use crate::util::*;
use rzmq::socket::options as opt;
use rzmq::{Context, Msg, Socket, SocketType};
use serde_json::{json, Value};
use std::time::{Duration, Instant};
use tokio::io::{AsyncReadExt, AsyncWriteExt};
use tokio::net::TcpStream;

pub fn stype_of(s: &str) -> SocketType {
  match s {
    "PUB" => SocketType::Pub,
    "SUB" => SocketType::Sub,
    "REQ" => SocketType::Req,
    "REP" => SocketType::Rep,
    "DEALER" => SocketType::Dealer,
    "ROUTER" => SocketType::Router,
    "PUSH" => SocketType::Push,
    "PULL" => SocketType::Pull,
    other => panic!("socket type {other}"),
  }
}

pub fn free_port() -> u16 {
  let l = std::net::TcpListener::bind("127.0.0.1:0").unwrap();
  l.local_addr().unwrap().port()
}

/// apply {"name": value} options; integers as i32 ne bytes, i64 for MAXMSGSIZE, strings raw
pub async fn apply_opts(s: &Socket, opts: &Value) {
  if let Some(m) = opts.as_object() {
    for (k, v) in m {
      let id = match k.as_str() {
        "SNDHWM" => opt::SNDHWM,
        "RCVHWM" => opt::RCVHWM,
        "LINGER" => opt::LINGER,
        "SNDTIMEO" => opt::SNDTIMEO,
        "RCVTIMEO" => opt::RCVTIMEO,
        "HANDSHAKE_IVL" => opt::HANDSHAKE_IVL,
        "HEARTBEAT_IVL" => opt::HEARTBEAT_IVL,
        "HEARTBEAT_TIMEOUT" => opt::HEARTBEAT_TIMEOUT,
        "RECONNECT_IVL" => opt::RECONNECT_IVL,
        "RECONNECT_IVL_MAX" => opt::RECONNECT_IVL_MAX,
        "ROUTER_MANDATORY" => opt::ROUTER_MANDATORY,
        "MAX_CONNECTIONS" => opt::MAX_CONNECTIONS,
        "IO_URING_SESSION_ENABLED" => opt::IO_URING_SESSION_ENABLED,
        "IO_URING_SNDZEROCOPY" => opt::IO_URING_SNDZEROCOPY,
        "IO_URING_RCVMULTISHOT" => opt::IO_URING_RCVMULTISHOT,
        "IO_URING_ZC_SEND_THRESHOLD" => opt::IO_URING_ZC_SEND_THRESHOLD,
        "TCP_CORK" => opt::TCP_CORK,
        "SNDBATCH_COUNT" => opt::SNDBATCH_COUNT,
        "SNDBATCH_BYTES" => opt::SNDBATCH_BYTES,
        "RCVBATCH_COUNT" => opt::RCVBATCH_COUNT,
        "RCVBATCH_BYTES" => opt::RCVBATCH_BYTES,
        "PLAIN_SERVER" => opt::PLAIN_SERVER,
        "MAXMSGSIZE" => {
          s.set_option_raw(opt::MAXMSGSIZE, &v.as_i64().unwrap().to_ne_bytes()).await.expect("MAXMSGSIZE");
          continue;
        }
        "ROUTING_ID" => {
          s.set_option_raw(opt::ROUTING_ID, &bytes_of(v)).await.expect("ROUTING_ID");
          continue;
        }
        "PLAIN_USERNAME" => {
          s.set_option_raw(opt::PLAIN_USERNAME, v.as_str().unwrap().as_bytes()).await.expect("user");
          continue;
        }
        "PLAIN_PASSWORD" => {
          s.set_option_raw(opt::PLAIN_PASSWORD, v.as_str().unwrap().as_bytes()).await.expect("pass");
          continue;
        }
        "SUBSCRIBE" => {
          s.set_option_raw(opt::SUBSCRIBE, &bytes_of(v)).await.expect("subscribe");
          continue;
        }
        other => panic!("unknown option {other}"),
      };
      let r = s.set_option_raw(id, &(v.as_i64().unwrap() as i32).to_ne_bytes()).await;
      if let Err(e) = r {
        panic!("set_option {k}: {e}");
      }
    }
  }
}

/// A raw TCP peer writes the given byte pieces in separate writes (TCP_NODELAY, optional gap)
/// to a real listening socket; we then receive with a deadline and report what was delivered.
async fn rawpeer(c: &Value) -> Value {
  let ctx = Context::new().expect("ctx");
  let sock = ctx.socket(stype_of(c["stype"].as_str().unwrap())).expect("socket");
  apply_opts(&sock, &c["opts"]).await;
  let port = free_port();
  let ep = format!("tcp://127.0.0.1:{port}");
  sock.bind(&ep).await.expect("bind");
  tokio::time::sleep(Duration::from_millis(30)).await;
  let mut stream = TcpStream::connect(("127.0.0.1", port)).await.expect("raw connect");
  stream.set_nodelay(true).unwrap();
  let (mut rd, mut wr) = stream.into_split();
  // drain whatever the socket sends so it never blocks on us
  let reader = tokio::spawn(async move {
    let mut buf = vec![0u8; 65536];
    let mut total = 0usize;
    let mut eof_at: Option<Instant> = None;
    loop {
      match rd.read(&mut buf).await {
        Ok(0) => {
          eof_at = Some(Instant::now());
          break;
        }
        Ok(n) => total += n,
        Err(_) => {
          eof_at = Some(Instant::now());
          break;
        }
      }
    }
    (total, eof_at)
  });
  let gap = c.get("gap_ms").and_then(|v| v.as_u64()).unwrap_or(0);
  let t0 = Instant::now();
  for w in c["writes"].as_array().unwrap() {
    let bytes = pieces_bytes(w);
    if wr.write_all(&bytes).await.is_err() {
      break;
    }
    let _ = wr.flush().await;
    if gap > 0 {
      tokio::time::sleep(Duration::from_millis(gap)).await;
    } else {
      tokio::task::yield_now().await;
    }
  }
  // optional: the peer half-closes after its last write (EOF follows the data), and the application starts
  // receiving only after a delay (so that the socket's queue is full and the session holds a backlog by then)
  if c.get("close_after_write").and_then(|v| v.as_bool()).unwrap_or(false) {
    use tokio::io::AsyncWriteExt as _;
    let _ = wr.shutdown().await;
  }
  let app_delay = c.get("app_delay_ms").and_then(|v| v.as_u64()).unwrap_or(0);
  if app_delay > 0 {
    tokio::time::sleep(Duration::from_millis(app_delay)).await;
  }
  let expect = u(c, "expect_msgs") as usize;
  let rt = Duration::from_millis(c.get("recv_timeout_ms").and_then(|v| v.as_u64()).unwrap_or(700));
  let mut rows: Vec<Vec<u64>> = Vec::new();
  let mut got = 0usize;
  // always try one more than expected to detect duplicates / spurious messages
  let app_pace = c.get("app_pace_ms").and_then(|v| v.as_u64()).unwrap_or(0);
  for k in 0..expect + 1 {
    if app_pace > 0 {
      tokio::time::sleep(Duration::from_millis(app_pace)).await;
    }
    // the first expected message also has to wait for the handshake: give it more time on a busy machine
    let this_rt = if k == 0 && expect > 0 { rt.max(Duration::from_millis(2500)) } else { rt };
    match tokio::time::timeout(this_rt, sock.recv_multipart()).await {
      Ok(Ok(frames)) => {
        got += 1;
        rows.push(vec![6, frames.len() as u64]);
        for m in &frames {
          rows.push(msg_row(m));
        }
      }
      _ => break,
    }
  }
  let hold = c.get("hold_ms").and_then(|v| v.as_u64()).unwrap_or(0);
  if hold > 0 {
    tokio::time::sleep(Duration::from_millis(hold)).await;
  }
  let closed_by_socket = reader.is_finished();
  let mut eof_ms = 0u64;
  if closed_by_socket {
    if let Ok((_, Some(at))) = reader.await {
      eof_ms = at.duration_since(t0).as_millis() as u64;
    }
  } else {
    reader.abort();
  }
  drop(wr);
  let _ = tokio::time::timeout(Duration::from_secs(3), sock.close()).await;
  let _ = tokio::time::timeout(Duration::from_secs(5), ctx.term()).await;
  rows.push(vec![98, got as u64]);
  json!({"rows": rows, "closed_by_socket": closed_by_socket, "eof_ms": eof_ms})
}

/// Two real sockets of the given types: `binder` binds, `connector` connects over the transport.
/// Observes whether the connection is established (handshake success / connect Ok) or refused.
/// rows: [[verdict]] with 1 = connected, 0 = refused/failed, 2 = undecided within the deadline.
async fn typepair(c: &Value) -> Value {
  use rzmq::socket::SocketEvent;
  let ctx = Context::new().expect("ctx");
  let binder = ctx.socket(stype_of(c["binder"].as_str().unwrap())).expect("socket");
  let connector = ctx.socket(stype_of(c["connector"].as_str().unwrap())).expect("socket");
  let tr = c["transport"].as_str().unwrap();
  let ep = match tr {
    "tcp" => format!("tcp://127.0.0.1:{}", free_port()),
    "ipc" => format!("ipc:///var/tmp/vh_c05_{}_{}.sock", std::process::id(), free_port()),
    _ => format!("inproc://vh-c05-{}", free_port()),
  };
  // bound how long an unanswered handshake may take, so that a verdict always arrives
  apply_opts(&binder, &json!({"HANDSHAKE_IVL": 2500})).await;
  apply_opts(&connector, &json!({"HANDSHAKE_IVL": 2500})).await;
  let mon = connector.monitor_default().await.expect("monitor");
  let mut verdict = 2u64;
  let mut detail = String::new();
  let mut seen: Vec<String> = Vec::new();
  match binder.bind(&ep).await {
    Ok(()) => {}
    Err(e) => return json!({"rows": [[3]], "detail": format!("bind failed: {e}")}),
  }
  tokio::time::sleep(Duration::from_millis(30)).await;
  match connector.connect(&ep).await {
    Err(e) => {
      verdict = 0;
      detail = format!("connect: {e}");
    }
    Ok(()) => {
      if tr == "inproc" {
        verdict = 1;
      } else {
        let deadline = Instant::now() + Duration::from_millis(9000);
        while Instant::now() < deadline {
          match tokio::time::timeout(Duration::from_millis(100), mon.recv()).await {
            Ok(Ok(ev)) => { seen.push(format!("{:?}", ev).split_whitespace().next().unwrap_or("").to_string()); match ev {
              SocketEvent::HandshakeSucceeded { .. } => {
                verdict = 1;
                break;
              }
              SocketEvent::HandshakeFailed { error_msg, .. } => {
                verdict = 0;
                detail = error_msg;
                break;
              }
              SocketEvent::Disconnected { .. } | SocketEvent::ConnectFailed { .. } => {
                verdict = 0;
                detail = "disconnected".into();
                break;
              }
              _ => {}
            }},
            _ => {}
          }
        }
      }
    }
  }
  if verdict == 2 { detail = format!("events: {:?}", seen); }
  let _ = tokio::time::timeout(Duration::from_secs(3), connector.close()).await;
  let _ = tokio::time::timeout(Duration::from_secs(3), binder.close()).await;
  let _ = tokio::time::timeout(Duration::from_secs(5), ctx.term()).await;
  if tr == "ipc" {
    let _ = std::fs::remove_file(ep.trim_start_matches("ipc://"));
  }
  json!({"rows": [[verdict]], "detail": detail})
}

/// C19 at the session level: a raw TCP peer completes the handshake (bytes in `hs`), reads everything the socket
/// sends, NEVER answers a PING, and - depending on `mode` - stays silent ("idle"), or the local application keeps
/// sending every `period_ms` once the PING is out ("app_writes"), or the peer keeps sending a data frame every
/// `period_ms` ("peer_data"). Row: [97, ping_seen, closed_by_socket, ping_ms (since the handshake bytes were
/// written), close_ms - ping_ms, messages the application sent after the PING].
async fn hbpeer(c: &Value) -> Value {
  if c["mode"].as_str() == Some("stalled") {
    return hbpeer_stalled(c).await;
  }
  let ctx = Context::new().expect("ctx");
  let sock = ctx.socket(stype_of(c["stype"].as_str().unwrap())).expect("socket");
  apply_opts(&sock, &c["opts"]).await;
  let port = free_port();
  let ep = format!("tcp://127.0.0.1:{port}");
  sock.bind(&ep).await.expect("bind");
  tokio::time::sleep(Duration::from_millis(30)).await;
  let stream = TcpStream::connect(("127.0.0.1", port)).await.expect("raw connect");
  stream.set_nodelay(true).unwrap();
  let (mut rd, mut wr) = stream.into_split();
  let ping_at = std::sync::Arc::new(std::sync::Mutex::new(None::<Instant>));
  let ping_w = ping_at.clone();
  let reader = tokio::spawn(async move {
    let mut buf = vec![0u8; 65536];
    let mut all: Vec<u8> = Vec::new();
    loop {
      match rd.read(&mut buf).await {
        Ok(0) | Err(_) => return Some(Instant::now()),
        Ok(n) => {
          if ping_w.lock().unwrap().is_none() {
            all.extend_from_slice(&buf[..n]);
            if all.windows(5).any(|w| w == b"\x04PING") {
              *ping_w.lock().unwrap() = Some(Instant::now());
              all.clear();
            }
          }
        }
      }
    }
  });
  let hs = pieces_bytes(&c["hs"]);
  wr.write_all(&hs).await.expect("handshake write");
  let _ = wr.flush().await;
  let t0 = Instant::now();
  let mode = c["mode"].as_str().unwrap_or("idle").to_string();
  let period = Duration::from_millis(c.get("period_ms").and_then(|v| v.as_u64()).unwrap_or(80));
  let observe = Duration::from_millis(c.get("observe_ms").and_then(|v| v.as_u64()).unwrap_or(2500));
  let data = c.get("data").map(pieces_bytes).unwrap_or_default();
  let mut sent_after = 0u64;
  while t0.elapsed() < observe && !reader.is_finished() {
    tokio::time::sleep(period).await;
    let pinged = ping_at.lock().unwrap().is_some();
    if pinged && mode == "app_writes" {
      if let Ok(Ok(())) = tokio::time::timeout(Duration::from_millis(50), sock.send(Msg::from_vec(b"tick".to_vec()))).await {
        sent_after += 1;
      }
    }
    if pinged && mode == "peer_data" && !data.is_empty() {
      let _ = wr.write_all(&data).await;
      let _ = wr.flush().await;
    }
  }
  let closed = reader.is_finished();
  let eof_at = if closed { reader.await.ok().flatten() } else { reader.abort(); None };
  let p = *ping_at.lock().unwrap();
  let ping_ms = p.map(|x| x.duration_since(t0).as_millis() as u64).unwrap_or(0);
  let close_after_ping = match (p, eof_at) {
    (Some(a), Some(b)) => b.saturating_duration_since(a).as_millis() as u64,
    _ => 0,
  };
  drop(wr);
  let _ = tokio::time::timeout(Duration::from_secs(2), sock.close()).await;
  let _ = tokio::time::timeout(Duration::from_secs(3), ctx.term()).await;
  json!({"rows": [[97, p.is_some() as u64, closed as u64, ping_ms, close_after_ping, sent_after]]})
}

/// C19, a peer that HANGS: the raw peer completes the handshake and never reads again; `backlog_at_ms` after the
/// handshake the application queues `backlog` messages of `backlog_size` bytes, far more than the kernel buffers
/// take, so the session has a pending write (non-empty egress buffer) at every later heartbeat tick. The PING cannot
/// be observed (nobody reads); the socket's monitor shows when the session gives up.
/// Row: [96, closed, close_ms since the handshake bytes were written, messages accepted].
async fn hbpeer_stalled(c: &Value) -> Value {
  let ctx = Context::new().expect("ctx");
  let sock = ctx.socket(stype_of(c["stype"].as_str().unwrap())).expect("socket");
  apply_opts(&sock, &c["opts"]).await;
  let mon = sock.monitor_default().await.expect("monitor");
  let port = free_port();
  let ep = format!("tcp://127.0.0.1:{port}");
  sock.bind(&ep).await.expect("bind");
  tokio::time::sleep(Duration::from_millis(30)).await;
  let stream = TcpStream::connect(("127.0.0.1", port)).await.expect("raw connect");
  stream.set_nodelay(true).unwrap();
  let (rd, mut wr) = stream.into_split();
  let hs = pieces_bytes(&c["hs"]);
  wr.write_all(&hs).await.expect("handshake write");
  let _ = wr.flush().await;
  let t0 = Instant::now();
  let observe = Duration::from_millis(c.get("observe_ms").and_then(|v| v.as_u64()).unwrap_or(3600));
  let at = Duration::from_millis(c.get("backlog_at_ms").and_then(|v| v.as_u64()).unwrap_or(250));
  let n = c.get("backlog").and_then(|v| v.as_u64()).unwrap_or(64);
  let size = c.get("backlog_size").and_then(|v| v.as_u64()).unwrap_or(262144) as usize;
  tokio::time::sleep(at.saturating_sub(t0.elapsed())).await;
  let mut accepted = 0u64;
  for _ in 0..n {
    if let Ok(Ok(())) = tokio::time::timeout(Duration::from_millis(20), sock.send(Msg::from_vec(vec![0x42u8; size]))).await {
      accepted += 1;
    }
  }
  let mut close_ms = 0u64;
  let mut closed = false;
  while t0.elapsed() < observe {
    if let Ok(Ok(ev)) = tokio::time::timeout(Duration::from_millis(50), mon.recv()).await {
      if matches!(ev, rzmq::socket::SocketEvent::Disconnected { .. }) {
        closed = true;
        close_ms = t0.elapsed().as_millis() as u64;
        break;
      }
    }
  }
  drop(rd);
  drop(wr);
  let _ = tokio::time::timeout(Duration::from_secs(2), sock.close()).await;
  let _ = tokio::time::timeout(Duration::from_secs(3), ctx.term()).await;
  json!({"rows": [[96, closed as u64, close_ms, accepted]]})
}

pub fn run_case(c: &Value) -> Value {
  let threads = c.get("threads").and_then(|v| v.as_u64()).unwrap_or(2) as usize;
  let rt = if threads <= 1 {
    tokio::runtime::Builder::new_current_thread().enable_all().build().unwrap()
  } else {
    tokio::runtime::Builder::new_multi_thread().worker_threads(threads).enable_all().build().unwrap()
  };
  let kind = c["k"].as_str().unwrap().to_string();
  let c2 = c.clone();
  let res = std::panic::catch_unwind(std::panic::AssertUnwindSafe(|| {
    rt.block_on(async move {
      let fut = async {
        match kind.as_str() {
          "rawpeer" => rawpeer(&c2).await,
          "typepair" => typepair(&c2).await,
          "hbpeer" => hbpeer(&c2).await,
          other => panic!("unknown stack scenario {other}"),
        }
      };
      match tokio::time::timeout(Duration::from_secs(60), fut).await {
        Ok(v) => v,
        Err(_) => json!({"rows": [[97]], "scenario_timeout": true}),
      }
    })
  }));
  rt.shutdown_timeout(Duration::from_millis(200));
  match res {
    Ok(v) => v,
    Err(_) => json!({"rows": [[96]], "harness_panic": true}),
  }
}

#[allow(dead_code)]
pub fn unused(_: &Msg) {}
