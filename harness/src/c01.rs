//! C01: accepted messages arrive exactly once, in order, intact.
//!  * `pair`   (kind D): real socket pairs over tcp / ipc / inproc, payloads carry (sender, seq, len, checksum)
//!  * `egress` (kind A): op sequences on the real `EgressBuffer` through `rzmq::verif::egress`
//!  * `ingress`(kind A): poll/drop/pop schedules on the real `IngressDriver` + per-pipe queue
//!  * `trace`  (kind C): `pair` run with the batch-assembly trace points switched on
use crate::stack::{apply_opts, free_port, stype_of};
use crate::util::*;
use rzmq::{Context, Msg, Socket};
use serde_json::{json, Value};
use std::sync::atomic::{AtomicU64, Ordering};
use std::time::Duration;
use tokio::time::timeout;

static EP_CTR: AtomicU64 = AtomicU64::new(0);

fn adler(l: &[u8]) -> u64 {
  let (mut a, mut b) = (1u64, 0u64);
  for &x in l {
    a = (a + x as u64) % 65521;
    b = (b + a) % 65521;
  }
  b * 65536 + a
}

/// payload of message `seq` from `sender` with `len` bytes: a 16-byte header
/// (sender, seq, len, adler of the body) followed by fill(len-16, seq); shorter than 16: fill(len, seq)
pub fn payload(sender: u64, seq: u64, len: u64) -> Vec<u8> {
  if len < 16 {
    return fill(len, seq % 256);
  }
  let body = fill(len - 16, seq % 256);
  let mut v = Vec::with_capacity(len as usize);
  v.extend_from_slice(&(sender as u32).to_be_bytes());
  v.extend_from_slice(&(seq as u32).to_be_bytes());
  v.extend_from_slice(&(len as u32).to_be_bytes());
  v.extend_from_slice(&(adler(&body) as u32).to_be_bytes());
  v.extend_from_slice(&body);
  v
}

fn endpoint(tr: &str) -> String {
  let n = EP_CTR.fetch_add(1, Ordering::Relaxed);
  match tr {
    "tcp" => format!("tcp://127.0.0.1:{}", free_port()),
    "ipc" => format!("ipc:///var/tmp/vh_c01_{}_{}.sock", std::process::id(), n),
    "inproc" => format!("inproc://c01_{}_{}", std::process::id(), n),
    other => panic!("transport {other}"),
  }
}

/// one received message -> [6, len, adler, seq-from-header (or 4294967295), header_ok]
fn recv_row(frames: &[Msg]) -> Vec<u64> {
  let d: &[u8] = frames.last().and_then(|m| m.data()).unwrap_or(&[]);
  let mut seq = 4294967295u64;
  let mut ok = 1u64;
  if d.len() >= 16 {
    seq = u32::from_be_bytes([d[4], d[5], d[6], d[7]]) as u64;
    let len = u32::from_be_bytes([d[8], d[9], d[10], d[11]]) as u64;
    let sum = u32::from_be_bytes([d[12], d[13], d[14], d[15]]) as u64;
    if len != d.len() as u64 || sum != (adler(&d[16..]) & 0xffff_ffff) {
      ok = 0;
    }
  }
  vec![6, d.len() as u64, adler(d), seq, ok]
}

const T_SEND: Duration = Duration::from_secs(12);

/// send one message, retrying refusals (back-pressure / HostUnreachable) up to `retries` times.
/// returns 1 accepted, 0 refused for good, 2 outcome unknown (send future timed out and was dropped)
async fn send_one(s: &Socket, frames: Vec<Vec<u8>>, retries: u32, refused: &mut u64) -> u64 {
  let mut left = retries;
  loop {
    let msgs: Vec<Msg> = frames.iter().map(|f| Msg::from_vec(f.clone())).collect();
    let r = if msgs.len() == 1 {
      timeout(T_SEND, s.send(msgs.into_iter().next().unwrap())).await
    } else {
      timeout(T_SEND, s.send_multipart(msgs)).await
    };
    match r {
      Ok(Ok(())) => return 1,
      Ok(Err(_)) => {
        *refused += 1;
        if left == 0 {
          return 0;
        }
        left -= 1;
        tokio::time::sleep(Duration::from_millis(5)).await;
      }
      Err(_) => return 2,
    }
  }
}

async fn recv_some(
  s: &Socket, want: usize, idle: Duration, sleep_us: u64, sleep_every: u64, rows: &mut Vec<Vec<u64>>,
) -> usize {
  let mut got = 0usize;
  // one more than expected, with a short wait, to detect duplicates / spurious messages
  while got < want + 1 {
    if sleep_us > 0 && sleep_every > 0 && (got as u64) % sleep_every == 0 {
      tokio::time::sleep(Duration::from_micros(sleep_us)).await;
    }
    let t = if got >= want { Duration::from_millis(250) } else { idle };
    match timeout(t, s.recv_multipart()).await {
      Ok(Ok(frames)) => {
        got += 1;
        rows.push(recv_row(&frames));
      }
      _ => break,
    }
  }
  got
}

/// PUSH->PULL, DEALER->ROUTER, ROUTER(mandatory)->DEALER: one-way stream of `sizes`.
/// REQ<->REP: lock-step; requests use sizes[2i], replies sizes[2i+1]; both directions are reported
/// (rows 5/6 for requests, 15/16 for replies).
async fn pair(c: &Value) -> Value {
  let pat = c["pat"].as_str().unwrap();
  let (st, rt) = match pat {
    "PUSH_PULL" => ("PUSH", "PULL"),
    "DEALER_ROUTER" => ("DEALER", "ROUTER"),
    "ROUTER_DEALER" => ("ROUTER", "DEALER"),
    "REQ_REP" => ("REQ", "REP"),
    "DUPLEX" => ("DEALER", "DEALER"),
    other => panic!("pattern {other}"),
  };
  let tr = c["tr"].as_str().unwrap();
  let when = u(c, "when");
  let sizes: Vec<u64> = c["sizes"].as_array().unwrap().iter().map(|x| x.as_u64().unwrap()).collect();
  let sleep_us = c.get("recv_sleep_us").and_then(|v| v.as_u64()).unwrap_or(0);
  let sleep_every = c.get("recv_sleep_every").and_then(|v| v.as_u64()).unwrap_or(1);
  let idle = Duration::from_millis(c.get("idle_ms").and_then(|v| v.as_u64()).unwrap_or(3000));
  let send_binds = c.get("send_binds").and_then(|v| v.as_bool()).unwrap_or(false);
  let gap_us = c.get("send_gap_us").and_then(|v| v.as_u64()).unwrap_or(0);
  let gap_every = c.get("send_gap_every").and_then(|v| v.as_u64()).unwrap_or(1).max(1);

  let ctx = Context::new().expect("ctx");
  let ctx2 = if tr == "inproc" { ctx.clone() } else { Context::new().expect("ctx2") };
  let sender = ctx.socket(stype_of(st)).expect("sender socket");
  let receiver = ctx2.socket(stype_of(rt)).expect("receiver socket");
  apply_opts(&sender, &c["sopts"]).await;
  apply_opts(&receiver, &c["ropts"]).await;
  if pat == "ROUTER_DEALER" {
    sender.set_option_raw(rzmq::socket::options::ROUTER_MANDATORY, &1i32.to_ne_bytes()).await.expect("mandatory");
    receiver.set_option_raw(rzmq::socket::options::ROUTING_ID, b"D1").await.expect("rid");
  }
  let (binder, connector) = if send_binds { (&sender, &receiver) } else { (&receiver, &sender) };
  // the probed tcp port can be taken by another process before we bind: retry with a fresh one
  let mut ep = endpoint(tr);
  let mut bound = false;
  for _ in 0..8 {
    if binder.bind(&ep).await.is_ok() {
      bound = true;
      break;
    }
    tokio::time::sleep(Duration::from_millis(20)).await;
    ep = endpoint(tr);
  }
  if !bound {
    return json!({"rows": [[94]], "detail": "bind failed"});
  }
  // when = 0: the sender task starts before connect() is called
  // when = 1: connect() has returned, no waiting
  // when = 2: connect() + 200 ms (handshake done, pipes attached)
  let mut rows: Vec<Vec<u64>> = Vec::new();
  let n = sizes.len();
  let retries: u32 = 4000;
  let ident: Vec<u8> = b"D1".to_vec();

  let res = if pat == "REQ_REP" {
    if connector.connect(&ep).await.is_err() {
      return json!({"rows": [[94]], "detail": "connect failed"});
    }
    if when == 2 {
      tokio::time::sleep(Duration::from_millis(200)).await;
    }
    let mut srows: Vec<Vec<u64>> = Vec::new();
    let mut rrows: Vec<Vec<u64>> = Vec::new();
    let mut refused = 0u64;
    let mut i = 0usize;
    while i + 1 < n {
      let st1 = send_one(&sender, vec![payload(1, i as u64, sizes[i])], retries, &mut refused).await;
      srows.push(vec![5, i as u64, st1]);
      if st1 != 1 {
        break;
      }
      if sleep_us > 0 {
        tokio::time::sleep(Duration::from_micros(sleep_us)).await;
      }
      match timeout(idle, receiver.recv_multipart()).await {
        Ok(Ok(f)) => rrows.push(recv_row(&f)),
        _ => break,
      }
      let st2 = send_one(&receiver, vec![payload(2, (i + 1) as u64, sizes[i + 1])], retries, &mut refused).await;
      srows.push(vec![15, (i + 1) as u64, st2]);
      if st2 != 1 {
        break;
      }
      match timeout(idle, sender.recv_multipart()).await {
        Ok(Ok(f)) => {
          let mut r = recv_row(&f);
          r[0] = 16;
          rrows.push(r)
        }
        _ => break,
      }
      i += 2;
    }
    rows.extend(srows);
    rows.extend(rrows);
    rows.push(vec![97, refused]);
    Ok(())
  } else if pat == "DUPLEX" {
    // both DEALERs send at the same time: even indices go sender -> receiver (rows 5/6), odd indices the other way
    // (rows 15/16); every session reads big chunks while it has egress work of its own
    if connector.connect(&ep).await.is_err() {
      return json!({"rows": [[94]], "detail": "connect failed"});
    }
    tokio::time::sleep(Duration::from_millis(200)).await;
    let side = |sock: Socket, tag: u64, parity: usize, sdir: u64| {
      let sizes = sizes.clone();
      async move {
        let mut srows: Vec<Vec<u64>> = Vec::new();
        let mut refused = 0u64;
        for (i, &len) in sizes.iter().enumerate() {
          if i % 2 != parity {
            continue;
          }
          let st1 = send_one(&sock, vec![payload(tag, i as u64, len)], retries, &mut refused).await;
          srows.push(vec![sdir, i as u64, st1]);
          if st1 != 1 {
            break;
          }
        }
        (srows, refused)
      }
    };
    let n_a = (n + 1) / 2;
    let n_b = n / 2;
    let mut rrows_b: Vec<Vec<u64>> = Vec::new();
    let mut rrows_a: Vec<Vec<u64>> = Vec::new();
    let ((sa, ra), (sb, rb), _, _) = tokio::join!(
      side(sender.clone(), 1, 0, 5),
      side(receiver.clone(), 2, 1, 15),
      recv_some(&receiver, n_a, idle, sleep_us, sleep_every, &mut rrows_b),
      recv_some(&sender, n_b, idle, sleep_us, sleep_every, &mut rrows_a)
    );
    rows.extend(sa);
    rows.extend(sb);
    rows.extend(rrows_b);
    for mut r in rrows_a {
      r[0] = 16;
      rows.push(r);
    }
    rows.push(vec![97, ra + rb]);
    Ok(())
  } else {
    let sizes2 = sizes.clone();
    let is_router = pat == "ROUTER_DEALER";
    // payloads are built up front so that the send loop is as tight as an application's can be
    let payloads: Vec<Vec<u8>> = sizes2.iter().enumerate().map(|(i, &len)| payload(1, i as u64, len)).collect();
    let send_fut = async {
      let mut srows: Vec<Vec<u64>> = Vec::new();
      let mut refused = 0u64;
      for (i, pl) in payloads.into_iter().enumerate() {
        let mut frames = Vec::new();
        if is_router {
          frames.push(ident.clone());
        }
        frames.push(pl);
        let st1 = send_one(&sender, frames, retries, &mut refused).await;
        srows.push(vec![5, i as u64, st1]);
        if st1 != 1 {
          break;
        }
        if gap_us > 0 && (i as u64 + 1) % gap_every == 0 {
          tokio::time::sleep(Duration::from_micros(gap_us)).await;
        }
      }
      (srows, refused)
    };
    let conn_fut = async {
      if when == 0 {
        tokio::time::sleep(Duration::from_millis(30)).await;
      }
      connector.connect(&ep).await.is_ok()
    };
    let mut rrows: Vec<Vec<u64>> = Vec::new();
    if when == 0 {
      let recv_fut = recv_some(&receiver, n, idle, sleep_us, sleep_every, &mut rrows);
      let ((srows, refused), ok, _) = tokio::join!(send_fut, conn_fut, recv_fut);
      if !ok {
        return json!({"rows": [[94]], "detail": "connect failed"});
      }
      rows.extend(srows);
      rows.extend(rrows);
      rows.push(vec![97, refused]);
    } else {
      if !conn_fut.await {
        return json!({"rows": [[94]], "detail": "connect failed"});
      }
      if when == 2 {
        tokio::time::sleep(Duration::from_millis(200)).await;
      }
      let recv_fut = recv_some(&receiver, n, idle, sleep_us, sleep_every, &mut rrows);
      let ((srows, refused), _) = tokio::join!(send_fut, recv_fut);
      rows.extend(srows);
      rows.extend(rrows);
      rows.push(vec![97, refused]);
    }
    Ok::<(), ()>(())
  };
  let _ = res;
  let _ = timeout(Duration::from_secs(3), sender.close()).await;
  let _ = timeout(Duration::from_secs(3), receiver.close()).await;
  let _ = timeout(Duration::from_secs(5), ctx.term()).await;
  if tr != "inproc" {
    let _ = timeout(Duration::from_secs(5), ctx2.term()).await;
  }
  if tr == "ipc" {
    let _ = std::fs::remove_file(ep.trim_start_matches("ipc://"));
  }
  json!({"rows": rows})
}


// ---------------------------------------------------------------- kind A: EgressBuffer + EgressDriver

fn state_row(e: &rzmq::verif::egress::VEgress) -> Vec<u64> {
  vec![
    2,
    e.pending_messages() as u64,
    e.total_pending_bytes() as u64,
    e.is_empty() as u64,
    e.current_slice().map(|s| s.len() as u64).unwrap_or(0),
  ]
}

fn egress_case(c: &Value) -> Value {
  use rzmq::verif::egress::VEgress;
  let r = std::panic::catch_unwind(std::panic::AssertUnwindSafe(|| {
    let mut e = VEgress::new();
    let mut rows: Vec<Vec<u64>> = Vec::new();
    let mut wbytes: Vec<Vec<u8>> = Vec::new();
    for op in c["ops"].as_array().unwrap() {
      match op[0].as_str().unwrap() {
        "push" => {
          e.push(fill(op[1].as_u64().unwrap(), op[2].as_u64().unwrap()), op[3].as_u64().unwrap() as usize);
          rows.push(state_row(&e));
        }
        "prio" => {
          e.push_priority(fill(op[1].as_u64().unwrap(), op[2].as_u64().unwrap()));
          rows.push(state_row(&e));
        }
        "drive" => {
          let script: Vec<usize> = op[1].as_array().unwrap().iter().map(|x| x.as_u64().unwrap() as usize).collect();
          let res = e.drive(script, op[2].as_u64().unwrap() as usize);
          rows.push(vec![1, res.outcome as u64, res.writes.len() as u64]);
          for w in &res.writes {
            let mut r = vec![3];
            r.extend(digest(w));
            rows.push(r);
            wbytes.push(w.clone());
          }
          rows.push(state_row(&e));
        }
        other => panic!("egress op {other}"),
      }
    }
    (rows, wbytes)
  }));
  match r {
    Ok((rows, wbytes)) => json!({"rows": rows, "wbytes": wbytes}),
    Err(_) => json!({"rows": [[96]], "panicked": true}),
  }
}

// ---------------------------------------------------------------- kind A: IngressDriver + per-pipe queue

fn ingress_case(c: &Value) -> Value {
  use rzmq::verif::ingress_driver::{run_schedule, VIngressOp};
  let ops: Vec<VIngressOp> = c["ops"]
    .as_array()
    .unwrap()
    .iter()
    .map(|op| match op[0].as_str().unwrap() {
      "enq" => VIngressOp::Enq(op[1].as_u64().unwrap(), op[2].as_u64().unwrap() as usize),
      "poll" => VIngressOp::Poll,
      "cancel" => VIngressOp::Cancel,
      "pop" => VIngressOp::Pop,
      other => panic!("ingress op {other}"),
    })
    .collect();
  let cap = u(c, "cap") as usize;
  let with_sender = c.get("sender").and_then(|v| v.as_bool()).unwrap_or(true);
  let r = std::panic::catch_unwind(std::panic::AssertUnwindSafe(|| run_schedule(cap, with_sender, &ops)));
  match r {
    Ok(rows) => json!({"rows": rows}),
    Err(_) => json!({"rows": [[96]], "panicked": true}),
  }
}

// ---------------------------------------------------------------- kind C: batch-assembly traces

async fn trace_case(c: &Value) -> Value {
  use rzmq::verif::batch;
  let _ = batch::take();
  batch::enable(true);
  let mut v = pair(c).await;
  batch::enable(false);
  let traces = batch::take();
  let mut trows: Vec<Vec<u64>> = Vec::new();
  for t in traces {
    let mut r = vec![
      20 + t.branch as u64,
      t.handle as u64,
      t.pending as u64,
      t.sndhwm as u64,
      t.sndbatch_count as u64,
      t.max_count as u64,
      t.max_bytes as u64,
      t.logical_max_bytes as u64,
      t.start_len as u64,
      t.batch.len() as u64,
    ];
    for (s, tag) in &t.batch {
      r.push(*s as u64);
      r.push(*tag);
    }
    r.push(t.carry_after.len() as u64);
    for (s, tag) in &t.carry_after {
      r.push(*s as u64);
      r.push(*tag);
    }
    trows.push(r);
  }
  v["traces"] = json!(trows);
  v
}

pub fn run_case(c: &Value) -> Value {
  let kind = c["k"].as_str().unwrap().to_string();
  match kind.as_str() {
    "egress" => return egress_case(c),
    "ingress" => return ingress_case(c),
    _ => {}
  }
  let threads = c.get("threads").and_then(|v| v.as_u64()).unwrap_or(2) as usize;
  let rt = if threads <= 1 {
    tokio::runtime::Builder::new_current_thread().enable_all().build().unwrap()
  } else {
    tokio::runtime::Builder::new_multi_thread().worker_threads(threads).enable_all().build().unwrap()
  };
  let c2 = c.clone();
  let t0 = std::time::Instant::now();
  let res = std::panic::catch_unwind(std::panic::AssertUnwindSafe(|| {
    rt.block_on(async move {
      let fut = async {
        match kind.as_str() {
          "pair" => pair(&c2).await,
          "trace" => trace_case(&c2).await,
          other => panic!("unknown c01 scenario {other}"),
        }
      };
      match timeout(Duration::from_secs(90), fut).await {
        Ok(v) => v,
        Err(_) => json!({"rows": [[93]], "scenario_timeout": true}),
      }
    })
  }));
  rt.shutdown_timeout(Duration::from_millis(200));
  match res {
    Ok(mut v) => {
      v["ms"] = json!(t0.elapsed().as_millis() as u64);
      v
    }
    Err(_) => json!({"rows": [[96]], "harness_panic": true}),
  }
}
