//! opt - option layer (core/src/socket/options.rs) through the PUBLIC api of a real socket:
//! a history of set_option_raw(id, bytes) calls followed by get_option(id) reads.
//! case: {"st": "PUSH", "ops": [[id, [b..]], ..], "gets": [id..]}
//! rows: per op [0] | [1, class, id]; per get [2, id, b..] | [3, class, id]
use rzmq::{Context, SocketType, ZmqError};
use serde_json::{json, Value};

fn class(e: &ZmqError) -> (u64, u64) {
  match e {
    ZmqError::InvalidOptionValue(i) => (1, *i as u32 as u64),
    ZmqError::UnsupportedOption(i) => (2, *i as u32 as u64),
    ZmqError::InvalidOption(i) => (3, *i as u32 as u64),
    ZmqError::Internal(_) => (4, 0),
    ZmqError::PermissionDenied(_) => (5, 0),
    _ => (9, 0),
  }
}

fn stype(s: &str) -> SocketType {
  match s {
    "PULL" => SocketType::Pull,
    "PUB" => SocketType::Pub,
    "REQ" => SocketType::Req,
    "REP" => SocketType::Rep,
    _ => SocketType::Push,
  }
}

pub fn run_all(cases: &[Value]) -> Vec<Value> {
  let rt = tokio::runtime::Builder::new_current_thread().enable_all().build().unwrap();
  rt.block_on(async {
    let ctx = Context::new().expect("context");
    let mut out = Vec::new();
    for c in cases {
      let sock = ctx.socket(stype(c["st"].as_str().unwrap_or("PUSH"))).expect("socket");
      let mut rows: Vec<Vec<u64>> = Vec::new();
      for op in c["ops"].as_array().unwrap() {
        let id = op[0].as_i64().unwrap() as i32;
        let b: Vec<u8> = op[1].as_array().unwrap().iter().map(|x| x.as_u64().unwrap() as u8).collect();
        match sock.set_option_raw(id, &b).await {
          Ok(()) => rows.push(vec![0]),
          Err(e) => {
            let (k, i) = class(&e);
            rows.push(vec![1, k, i]);
          }
        }
      }
      for g in c["gets"].as_array().unwrap() {
        let id = g.as_i64().unwrap() as i32;
        match sock.get_option(id).await {
          Ok(v) => {
            let mut r = vec![2, id as u32 as u64];
            r.extend(v.iter().map(|x| *x as u64));
            rows.push(r);
          }
          Err(e) => {
            let (k, i) = class(&e);
            rows.push(vec![3, k, i]);
          }
        }
      }
      let _ = sock.close().await;
      out.push(json!({ "rows": rows }));
    }
    let _ = ctx.term().await;
    out
  })
}

/// optslot: calculate_required_slot_size(target, count) (a pub fn) - case {"target": t, "count": c} -> rows [[4, size]]
pub fn run_slot(c: &Value) -> Value {
  let t = c["target"].as_u64().unwrap() as usize;
  let n = c["count"].as_u64().unwrap() as usize;
  match std::panic::catch_unwind(|| rzmq::socket::options::calculate_required_slot_size(t, n)) {
    Ok(v) => json!({ "rows": [[4, v as u64]] }),
    Err(_) => json!({ "rows": [[5, 0]] }),
  }
}
