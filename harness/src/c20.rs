//! C20: the io_uring backend is observably equivalent to the Tokio backend.
//!  function level (kind A), through `rzmq::verif::uring`:
//!   * `pool`    - op sequences on a real `SendBufferPool` (registered with a real ring)
//!   * `ring`    - op sequences on a real `ProvidedBufferRing`; the kernel really consumes buffers
//!   * `handler` - a real `ZmtpUringHandler` fed with byte chunks, attach/drain/pop/eof/close events
//!  stack level (kind D), real sockets; the process-wide io_uring worker is configured once from
//!  the environment variable VH_URING (`zc=0|1,ms=0|1,sb=<send bufs>,ss=<send buf size>,rb=..,rs=..`):
//!   * `rawpeer` - raw TCP peer with controlled write boundaries against a listening socket
//!   * `pair`    - two real sockets, size mixes, slow receiver, multipart
//!   * `churn`   - connect / transfer / disconnect cycles with fd and buffer accounting
//!   * `stall`   - a peer that stops reading
//!   * `closerace` - peer close racing the local close (close-path trace)
use crate::eng::{err_class, mk_cfg, msg_row, pieces_bytes};
use crate::stack::{apply_opts, free_port, stype_of};
use crate::util::*;
use rzmq::socket::SocketEvent;
use rzmq::verif::uring as vu;
use rzmq::{Context, Msg};
use serde_json::{json, Value};
use std::collections::HashMap;
use std::time::{Duration, Instant};
use tokio::io::{AsyncReadExt, AsyncWriteExt};
use tokio::net::TcpStream;
use tokio::time::timeout;

pub fn init_backend_from_env() {
  let spec = match std::env::var("VH_URING") {
    Ok(s) => s,
    Err(_) => return,
  };
  let mut m: HashMap<String, usize> = HashMap::new();
  for kv in spec.split(',') {
    let mut it = kv.split('=');
    if let (Some(k), Some(v)) = (it.next(), it.next()) {
      if let Ok(n) = v.parse::<usize>() {
        m.insert(k.to_string(), n);
      }
    }
  }
  let d = rzmq::uring::UringConfig::default();
  let cfg = rzmq::uring::UringConfig {
    default_send_zerocopy: m.get("zc").map(|v| *v != 0).unwrap_or(d.default_send_zerocopy),
    default_recv_multishot: m.get("ms").map(|v| *v != 0).unwrap_or(d.default_recv_multishot),
    default_send_buffer_count: *m.get("sb").unwrap_or(&d.default_send_buffer_count),
    default_send_buffer_size: *m.get("ss").unwrap_or(&d.default_send_buffer_size),
    default_recv_buffer_count: *m.get("rb").unwrap_or(&d.default_recv_buffer_count),
    default_recv_buffer_size: *m.get("rs").unwrap_or(&d.default_recv_buffer_size),
    ..d
  };
  if let Err(e) = rzmq::uring::initialize_uring_backend(cfg) {
    eprintln!("io_uring backend initialisation failed: {e}");
  }
}

// ------------------------------------------------------------------ kind A: pool

fn pool_case(c: &Value) -> Value {
  let mut rows: Vec<Vec<u64>> = Vec::new();
  let mut p = match vu::VSendPool::new(u(c, "count") as usize, u(c, "cap") as usize) {
    Ok(p) => p,
    Err(e) => return json!({"rows": [[94]], "error": e}),
  };
  let snap = |p: &vu::VSendPool, head: Vec<u64>| -> Vec<u64> {
    let (free, inuse) = p.snapshot();
    let mut r = head;
    r.push(77);
    r.extend(free.iter().map(|x| *x as u64));
    r.push(88);
    r.extend(inuse.iter().map(|x| *x as u64));
    r
  };
  rows.push(snap(&p, vec![0, 0]));
  for op in c["ops"].as_array().unwrap() {
    let name = op[0].as_str().unwrap();
    let head = match name {
      "acq" => vec![1, p.acquire(op[1].as_u64().unwrap() as usize).map(|i| i as u64 + 1).unwrap_or(0)],
      "lease" => vec![2, p.lease().map(|(_, id)| id as u64 + 1).unwrap_or(0)],
      "hand" => vec![3, p.hand_over(op[1].as_u64().unwrap() as usize).map(|i| i as u64 + 1).unwrap_or(0)],
      "drop" => match p.drop_lease(op[1].as_u64().unwrap() as usize) {
        Some((id, fl)) => vec![4, id as u64 + 1, fl as u64],
        None => vec![4, 0, 0],
      },
      "rel" => {
        p.release(op[1].as_u64().unwrap() as u16);
        vec![5, 0]
      }
      other => panic!("pool op {other}"),
    };
    rows.push(snap(&p, head));
  }
  json!({"rows": rows})
}

// ------------------------------------------------------------------ kind A: provided buffer ring

struct Canon {
  ids: HashMap<usize, u64>,
  next: u64,
}
impl Canon {
  fn get(&mut self, a: usize) -> u64 {
    if let Some(v) = self.ids.get(&a) {
      return *v;
    }
    let v = self.next;
    self.next += 1;
    self.ids.insert(a, v);
    v
  }
}

fn ring_case(c: &Value) -> Value {
  let mut rows: Vec<Vec<u64>> = Vec::new();
  let cap = u(c, "cap") as usize;
  let mut r = match vu::VRing::new(u(c, "entries") as u16, cap) {
    Ok(r) => r,
    Err(e) => return json!({"rows": [[94]], "error": e}),
  };
  // canonical buffer numbers: addresses in order of first appearance
  let mut ids = Canon { ids: HashMap::new(), next: 0 };
  let mut chunk_addr: Vec<usize> = Vec::new();
  let mut content_ok = true;
  let mut fills: HashMap<u16, u8> = HashMap::new();
  let mut last_kernel: Option<(u16, usize)> = None;
  let mut fill_ctr = 1u8;
  let snap = |r: &vu::VRing, head: Vec<u64>, ids: &mut Canon| -> Vec<u64> {
    let s = r.snapshot();
    let mut row = head;
    row.push(77);
    for sl in &s.slots {
      row.push(match sl {
        Some(a) => ids.get(*a) + 1,
        None => 0,
      });
    }
    row.push(88);
    for a in &s.free {
      row.push(ids.get(*a) + 1);
    }
    row.push(99);
    row.push(s.tail as u64);
    row
  };
  rows.push(snap(&r, vec![0, 0, 0], &mut ids));
  for op in c["ops"].as_array().unwrap() {
    let name = op[0].as_str().unwrap();
    let head: Vec<u64> = match name {
      "kernel" => {
        fill_ctr = fill_ctr.wrapping_add(1).max(1);
        match r.kernel_recv(op[1].as_u64().unwrap() as usize, fill_ctr) {
          Ok((bid, n)) => {
            fills.insert(bid, fill_ctr);
            last_kernel = Some((bid, n));
            vec![1, bid as u64 + 1, n as u64]
          }
          Err(e) => {
            last_kernel = None;
            vec![1, 0, e as u64]
          }
        }
      }
      "take" | "take_last" => {
        let (bid, filled) = if name == "take_last" {
          match last_kernel.take() {
            Some(x) => x,
            None => (60000, 1),
          }
        } else {
          (op[1].as_u64().unwrap() as u16, op[2].as_u64().unwrap() as usize)
        };
        match r.take(bid, filled) {
          Ok((h, addr, n, first)) => {
            while chunk_addr.len() <= h {
              chunk_addr.push(0);
            }
            chunk_addr[h] = addr;
            if let Some(f) = fills.get(&bid) {
              if n > 0 && first != *f {
                content_ok = false;
              }
            }
            vec![2, ids.get(addr) + 1, n as u64]
          }
          Err(_) => vec![2, 0, 0],
        }
      }
      "reprov" => {
        let bid = if op.as_array().unwrap().len() > 1 { op[1].as_u64().unwrap() as u16 } else { last_kernel.take().map(|x| x.0).unwrap_or(60000) };
        vec![3, r.reprovide(bid) as u64, 0]
      }
      "dropc" => {
        let h = op[1].as_u64().unwrap() as usize;
        let before = r.snapshot().free.len();
        let ok = r.drop_chunk(h);
        let after = r.snapshot().free.len();
        if ok && after == before {
          // deallocated: the address may be handed out again by the allocator
          if let Some(a) = chunk_addr.get(h) {
            ids.ids.remove(a);
          }
        }
        vec![4, ok as u64, (after > before) as u64]
      }
      other => panic!("ring op {other}"),
    };
    rows.push(snap(&r, head, &mut ids));
  }
  let live = vu::live_recv_pools();
  json!({"rows": rows, "content_ok": content_ok, "live": live})
}

// ------------------------------------------------------------------ kind A: handler

fn ops_rows(rows: &mut Vec<Vec<u64>>, code: u64, v: &vu::VOps, h: &vu::VUringHandler, extra: u64) {
  let (sp, thr, cl, dl, at) = h.flags();
  rows.push(vec![90, code, v.close_requests as u64, v.error_close as u64, sp as u64, thr as u64, cl as u64, dl as u64, at as u64, extra]);
  for s in &v.sends {
    let mut r = vec![1, 0];
    r.extend(digest(&crate::eng::canonical_ready(s)));
    rows.push(r);
  }
  for c in &v.cork {
    rows.push(vec![3, *c as u64]);
  }
  for c in h.mailbox_drain() {
    match c {
      vu::VCtrl::Established { peer_identity } => {
        let mut r = vec![5, peer_identity.is_some() as u64];
        r.extend(digest(peer_identity.as_deref().unwrap_or(&[])));
        rows.push(r);
      }
      vu::VCtrl::FdError(e) => rows.push(vec![8, err_class(&e)]),
    }
  }
}

fn handler_case(c: &Value) -> Value {
  let (server, cfg) = mk_cfg(&c["cfg"]);
  let mut h = vu::VUringHandler::new(server, &cfg, u(c, "cap") as usize, b(c, "multishot"));
  let mut rows: Vec<Vec<u64>> = Vec::new();
  let none = vu::VOps::default();
  for op in c["ops"].as_array().unwrap() {
    let name = op[0].as_str().unwrap();
    match name {
      "start" => {
        let v = h.start();
        ops_rows(&mut rows, 1, &v, &h, 0)
      }
      "read" => {
        let v = h.read(&pieces_bytes(&op[1]));
        ops_rows(&mut rows, 2, &v, &h, 0)
      }
      "eof" => {
        let v = h.read(&[]);
        ops_rows(&mut rows, 3, &v, &h, 0)
      }
      "attach" => {
        let ok = h.attach();
        ops_rows(&mut rows, 4, &none, &h, ok as u64)
      }
      "prepare" => {
        let v = h.prepare();
        ops_rows(&mut rows, 5, &v, &h, 0)
      }
      "resume" => {
        h.resume();
        ops_rows(&mut rows, 6, &none, &h, 0)
      }
      "poll" => {
        let t = h.throttle();
        ops_rows(&mut rows, 7, &none, &h, t as u64)
      }
      "close" => {
        let v = h.close_initiated();
        ops_rows(&mut rows, 8, &v, &h, 0)
      }
      "ioerr" => {
        let v = h.io_error(104);
        ops_rows(&mut rows, 9, &v, &h, 0)
      }
      "droprx" => {
        h.drop_receiver();
        ops_rows(&mut rows, 10, &none, &h, 0)
      }
      "pop" => {
        let k = op[1].as_u64().unwrap();
        let mut got: Vec<rzmq::FrameBatch> = Vec::new();
        for _ in 0..k {
          match h.pop() {
            Some(fb) => got.push(fb),
            None => break,
          }
        }
        ops_rows(&mut rows, 11, &none, &h, got.len() as u64);
        for fb in got {
          rows.push(vec![6, fb.len() as u64]);
          for m in &fb {
            rows.push(msg_row(m));
          }
        }
      }
      other => panic!("handler op {other}"),
    }
  }
  json!({"rows": rows})
}

// ------------------------------------------------------------------ kind D helpers

fn fd_count() -> u64 {
  std::fs::read_dir("/proc/self/fd").map(|d| d.count() as u64).unwrap_or(0)
}

/// sockets (by inode) currently open in this process
fn socket_fd_count() -> u64 {
  let mut n = 0;
  if let Ok(d) = std::fs::read_dir("/proc/self/fd") {
    for e in d.flatten() {
      if let Ok(t) = std::fs::read_link(e.path()) {
        if t.to_string_lossy().starts_with("socket:") {
          n += 1;
        }
      }
    }
  }
  n
}

fn ev_name(ev: &SocketEvent) -> &'static str {
  match ev {
    SocketEvent::Listening { .. } => "Listening",
    SocketEvent::BindFailed { .. } => "BindFailed",
    SocketEvent::Accepted { .. } => "Accepted",
    SocketEvent::AcceptFailed { .. } => "AcceptFailed",
    SocketEvent::Connected { .. } => "Connected",
    SocketEvent::ConnectDelayed { .. } => "ConnectDelayed",
    SocketEvent::ConnectRetried { .. } => "ConnectRetried",
    SocketEvent::ConnectFailed { .. } => "ConnectFailed",
    SocketEvent::Closed { .. } => "Closed",
    SocketEvent::Disconnected { .. } => "Disconnected",
    SocketEvent::HandshakeFailed { .. } => "HandshakeFailed",
    SocketEvent::HandshakeSucceeded { .. } => "HandshakeSucceeded",
    SocketEvent::ConnectionCongested { .. } => "ConnectionCongested",
    SocketEvent::ConnectionUncongested { .. } => "ConnectionUncongested",
    #[allow(unreachable_patterns)]
    _ => "Other",
  }
}

fn count_sub(hay: &[u8], needle: &[u8]) -> u64 {
  if hay.len() < needle.len() {
    return 0;
  }
  hay.windows(needle.len()).filter(|w| *w == needle).count() as u64
}

fn buffers_json() -> Value {
  let recv: Vec<Value> = vu::live_recv_pools().into_iter().map(|(f, m, o)| json!([f, m, o])).collect();
  let send = vu::live_send_pool().map(|(free, inuse)| json!({"free": free, "inuse": inuse.iter().map(|b| *b as u8).collect::<Vec<u8>>()}));
  json!({"recv": recv, "send": send})
}

/// A raw TCP peer writes byte pieces in separate writes to a real listening socket (or the socket
/// connects to a raw listener when "socket_connects" is set) and optionally shuts down its sending
/// side right after the last write; the application receives after `app_delay_ms`.
async fn rawpeer(c: &Value) -> Value {
  let ctx = Context::new().expect("ctx");
  let sock = ctx.socket(stype_of(c["stype"].as_str().unwrap())).expect("socket");
  apply_opts(&sock, &c["opts"]).await;
  let mon = sock.monitor_default().await.expect("monitor");
  let port = free_port();
  let ep = format!("tcp://127.0.0.1:{port}");
  let fd0 = socket_fd_count();
  sock.bind(&ep).await.expect("bind");
  tokio::time::sleep(Duration::from_millis(30)).await;
  let stream = TcpStream::connect(("127.0.0.1", port)).await.expect("raw connect");
  stream.set_nodelay(true).unwrap();
  let (mut rd, mut wr) = stream.into_split();
  let reader = tokio::spawn(async move {
    let mut buf = vec![0u8; 65536];
    let mut all: Vec<u8> = Vec::new();
    let mut eof_at: Option<Instant> = None;
    loop {
      match rd.read(&mut buf).await {
        Ok(0) | Err(_) => {
          eof_at = Some(Instant::now());
          break;
        }
        Ok(n) => {
          if all.len() < 1 << 20 {
            all.extend_from_slice(&buf[..n]);
          }
        }
      }
    }
    (all, eof_at)
  });
  let gap = c.get("gap_ms").and_then(|v| v.as_u64()).unwrap_or(0);
  let t0 = Instant::now();
  for w in c["writes"].as_array().unwrap() {
    let bytes = pieces_bytes(w);
    if wr.write_all(&bytes).await.is_err() {
      break;
    }
    let _ = wr.flush().await;
    if gap > 0 {
      tokio::time::sleep(Duration::from_millis(gap)).await;
    } else {
      tokio::task::yield_now().await;
    }
  }
  let close_after = b(c, "close_after_write");
  if close_after {
    let _ = wr.shutdown().await;
  }
  let delay = c.get("app_delay_ms").and_then(|v| v.as_u64()).unwrap_or(0);
  if delay > 0 {
    tokio::time::sleep(Duration::from_millis(delay)).await;
  }
  let expect = u(c, "expect_msgs") as usize;
  let rt = Duration::from_millis(c.get("recv_timeout_ms").and_then(|v| v.as_u64()).unwrap_or(700));
  let mut rows: Vec<Vec<u64>> = Vec::new();
  let mut got = 0usize;
  for _ in 0..expect + 1 {
    match timeout(rt, sock.recv_multipart()).await {
      Ok(Ok(frames)) => {
        got += 1;
        rows.push(vec![6, frames.len() as u64]);
        for m in &frames {
          rows.push(msg_row(m));
        }
      }
      _ => break,
    }
  }
  let hold = c.get("hold_ms").and_then(|v| v.as_u64()).unwrap_or(0);
  if hold > 0 {
    tokio::time::sleep(Duration::from_millis(hold)).await;
  }
  let closed_by_socket = reader.is_finished();
  let mut eof_ms = 0u64;
  let mut peer_rx: Vec<u8> = Vec::new();
  if closed_by_socket {
    if let Ok((all, at)) = reader.await {
      peer_rx = all;
      if let Some(at) = at {
        eof_ms = at.duration_since(t0).as_millis() as u64;
      }
    }
  } else {
    reader.abort();
    let _ = reader.await;
  }
  let mut events: Vec<String> = Vec::new();
  while let Ok(Ok(ev)) = timeout(Duration::from_millis(20), mon.recv()).await {
    events.push(ev_name(&ev).to_string());
  }
  drop(wr);
  let _ = timeout(Duration::from_secs(3), sock.close()).await;
  let _ = timeout(Duration::from_secs(5), ctx.term()).await;
  tokio::time::sleep(Duration::from_millis(50)).await;
  let fd1 = socket_fd_count();
  rows.push(vec![98, got as u64]);
  json!({"rows": rows, "closed_by_socket": closed_by_socket, "eof_ms": eof_ms, "events": events,
         "pings": count_sub(&peer_rx, b"\x04PING"), "peer_rx": peer_rx.len(), "sock_fds_before": fd0, "sock_fds_after": fd1})
}

/// A raw peer that records everything it receives for `listen_ms` while the socket stays open
/// (heartbeat / handshake-deadline observation). The peer performs the handshake bytes in
/// `writes` (possibly none) and then stays silent.
async fn silentpeer(c: &Value) -> Value {
  let ctx = Context::new().expect("ctx");
  let sock = ctx.socket(stype_of(c["stype"].as_str().unwrap())).expect("socket");
  apply_opts(&sock, &c["opts"]).await;
  let mon = sock.monitor_default().await.expect("monitor");
  let port = free_port();
  let ep = format!("tcp://127.0.0.1:{port}");
  sock.bind(&ep).await.expect("bind");
  tokio::time::sleep(Duration::from_millis(30)).await;
  let mut stream = TcpStream::connect(("127.0.0.1", port)).await.expect("raw connect");
  stream.set_nodelay(true).unwrap();
  let t0 = Instant::now();
  for w in c["writes"].as_array().unwrap() {
    let bytes = pieces_bytes(w);
    let _ = stream.write_all(&bytes).await;
    let _ = stream.flush().await;
    tokio::time::sleep(Duration::from_millis(5)).await;
  }
  let listen = Duration::from_millis(u(c, "listen_ms"));
  let mut all: Vec<u8> = Vec::new();
  let mut buf = vec![0u8; 4096];
  let mut eof_ms: Option<u64> = None;
  let mut ping_ms: Vec<u64> = Vec::new();
  while t0.elapsed() < listen {
    let left = listen.saturating_sub(t0.elapsed());
    match timeout(left, stream.read(&mut buf)).await {
      Ok(Ok(0)) | Ok(Err(_)) => {
        eof_ms = Some(t0.elapsed().as_millis() as u64);
        break;
      }
      Ok(Ok(n)) => {
        let before = count_sub(&all, b"\x04PING");
        all.extend_from_slice(&buf[..n]);
        let after = count_sub(&all, b"\x04PING");
        for _ in before..after {
          ping_ms.push(t0.elapsed().as_millis() as u64);
        }
      }
      Err(_) => break,
    }
  }
  let mut events: Vec<String> = Vec::new();
  while let Ok(Ok(ev)) = timeout(Duration::from_millis(20), mon.recv()).await {
    events.push(ev_name(&ev).to_string());
  }
  drop(stream);
  let _ = timeout(Duration::from_secs(3), sock.close()).await;
  let _ = timeout(Duration::from_secs(5), ctx.term()).await;
  json!({"rows": [[98, ping_ms.len() as u64, eof_ms.is_some() as u64]], "pings": ping_ms.len(), "ping_ms": ping_ms,
         "closed_by_socket": eof_ms.is_some(), "eof_ms": eof_ms.unwrap_or(0), "events": events, "peer_rx": all.len()})
}

fn frames_of(m: &Value) -> Vec<Vec<u8>> {
  m.as_array().unwrap().iter().map(payload_of).collect()
}

/// Two real sockets (sender connects, receiver binds unless "send_binds"), one-way stream of
/// messages (each a list of frames); the receiver may start late and sleep between receives.
async fn pair(c: &Value) -> Value {
  let tr = c.get("tr").and_then(|v| v.as_str()).unwrap_or("tcp");
  let ctx = Context::new().expect("ctx");
  let ctx2 = Context::new().expect("ctx2");
  let sender = ctx.socket(stype_of(c["send_type"].as_str().unwrap())).expect("sender");
  let recvr = ctx2.socket(stype_of(c["recv_type"].as_str().unwrap())).expect("receiver");
  apply_opts(&sender, &c["send_opts"]).await;
  apply_opts(&recvr, &c["recv_opts"]).await;
  let ep = match tr {
    "ipc" => format!("ipc:///var/tmp/vh_c20_{}_{}.sock", std::process::id(), free_port()),
    _ => format!("tcp://127.0.0.1:{}", free_port()),
  };
  let rmon = recvr.monitor_default().await.expect("monitor");
  let smon = sender.monitor_default().await.expect("monitor");
  recvr.bind(&ep).await.expect("bind");
  tokio::time::sleep(Duration::from_millis(30)).await;
  let mut connect_err = String::new();
  if let Err(e) = sender.connect(&ep).await {
    connect_err = e.to_string();
  }
  tokio::time::sleep(Duration::from_millis(c.get("settle_ms").and_then(|v| v.as_u64()).unwrap_or(150))).await;
  let msgs: Vec<Vec<Vec<u8>>> = c["msgs"].as_array().unwrap().iter().map(frames_of).collect();
  let n = msgs.len();
  let recv_delay = c.get("recv_delay_ms").and_then(|v| v.as_u64()).unwrap_or(0);
  let sleep_us = c.get("recv_sleep_us").and_then(|v| v.as_u64()).unwrap_or(0);
  let idle = Duration::from_millis(c.get("idle_ms").and_then(|v| v.as_u64()).unwrap_or(2500));
  let strip_envelope = c["recv_type"].as_str().unwrap() == "ROUTER";
  let rtask = tokio::spawn(async move {
    let mut rows: Vec<Vec<u64>> = Vec::new();
    if recv_delay > 0 {
      tokio::time::sleep(Duration::from_millis(recv_delay)).await;
    }
    let mut got = 0usize;
    while got < n + 1 {
      if sleep_us > 0 {
        tokio::time::sleep(Duration::from_micros(sleep_us)).await;
      }
      let t = if got >= n { Duration::from_millis(300) } else { idle };
      match timeout(t, recvr.recv_multipart()).await {
        Ok(Ok(frames)) => {
          got += 1;
          let fs: &[Msg] = if strip_envelope && !frames.is_empty() { &frames[1..] } else { &frames[..] };
          rows.push(vec![6, fs.len() as u64]);
          for m in fs {
            rows.push(msg_row(m));
          }
        }
        _ => break,
      }
    }
    (rows, got, recvr)
  });
  let mut send_res: Vec<u64> = Vec::new();
  for m in &msgs {
    let parts: Vec<Msg> = m.iter().map(|f| Msg::from_vec(f.clone())).collect();
    let r = if parts.len() == 1 {
      timeout(Duration::from_secs(10), sender.send(parts.into_iter().next().unwrap())).await
    } else {
      timeout(Duration::from_secs(10), sender.send_multipart(parts)).await
    };
    send_res.push(match r {
      Ok(Ok(())) => 1,
      Ok(Err(_)) => 0,
      Err(_) => 2,
    });
  }
  let (mut rows, got, recvr) = rtask.await.expect("receiver task");
  let mut sev: Vec<String> = Vec::new();
  while let Ok(Ok(ev)) = timeout(Duration::from_millis(10), smon.recv()).await {
    sev.push(ev_name(&ev).to_string());
  }
  let mut rev: Vec<String> = Vec::new();
  while let Ok(Ok(ev)) = timeout(Duration::from_millis(10), rmon.recv()).await {
    rev.push(ev_name(&ev).to_string());
  }
  let _ = timeout(Duration::from_secs(3), sender.close()).await;
  let _ = timeout(Duration::from_secs(3), recvr.close()).await;
  let _ = timeout(Duration::from_secs(5), ctx.term()).await;
  let _ = timeout(Duration::from_secs(5), ctx2.term()).await;
  if tr == "ipc" {
    let _ = std::fs::remove_file(ep.trim_start_matches("ipc://"));
  }
  rows.push(vec![98, got as u64]);
  json!({"rows": rows, "send_results": send_res, "sender_events": sev, "receiver_events": rev, "connect_err": connect_err})
}

/// N cycles: a fresh PUSH connects to one long-lived PULL (or a fresh pair per cycle), sends `per`
/// messages, they are received, the connection is torn down from the chosen side.
async fn churn(c: &Value) -> Value {
  let cycles = u(c, "cycles");
  let per = u(c, "per") as usize;
  let size = u(c, "size");
  let who_closes = c.get("closer").and_then(|v| v.as_str()).unwrap_or("connector").to_string();
  let ctx = Context::new().expect("ctx");
  vu::trace_enable(true);
  let _ = vu::trace_take();
  // warm-up cycle is not counted: it starts the global worker, its eventfd and ring
  let mut lost = 0u64;
  let mut delivered = 0u64;
  let mut base_fds = 0u64;
  let mut base_sock = 0u64;
  let mut samples: Vec<u64> = Vec::new();
  let mut per_cycle: Vec<Vec<u64>> = Vec::new();
  let pull = ctx.socket(rzmq::SocketType::Pull).expect("pull");
  apply_opts(&pull, &c["recv_opts"]).await;
  let port = free_port();
  let ep = format!("tcp://127.0.0.1:{port}");
  pull.bind(&ep).await.expect("bind");
  tokio::time::sleep(Duration::from_millis(30)).await;
  for cyc in 0..cycles + 1 {
    let push = ctx.socket(rzmq::SocketType::Push).expect("push");
    apply_opts(&push, &c["send_opts"]).await;
    if push.connect(&ep).await.is_err() {
      lost += per as u64;
      continue;
    }
    let settle = c.get("settle_ms").and_then(|v| v.as_u64()).unwrap_or(0);
    if settle > 0 {
      tokio::time::sleep(Duration::from_millis(settle)).await;
    }
    let mut sres = 0u64;
    for i in 0..per {
      if let Ok(Ok(())) = timeout(Duration::from_secs(5), push.send(Msg::from_vec(fill(size, (i % 251) as u64)))).await {
        sres += 1;
      }
    }
    let mut dcyc = 0u64;
    for _ in 0..per {
      match timeout(Duration::from_millis(c.get("recv_ms").and_then(|v| v.as_u64()).unwrap_or(2000)), pull.recv()).await {
        Ok(Ok(_)) => {
          delivered += 1;
          dcyc += 1
        }
        _ => lost += 1,
      }
    }
    per_cycle.push(vec![sres, dcyc]);
    let _ = timeout(Duration::from_secs(3), push.close()).await;
    drop(push);
    if who_closes == "both" {
      // nothing more: the binder keeps running, its side of the connection must go away by itself
    }
    if cyc == 0 {
      tokio::time::sleep(Duration::from_millis(300)).await;
      base_fds = fd_count();
      base_sock = socket_fd_count();
      delivered = 0;
      lost = 0;
    } else if cyc % 10 == 0 {
      samples.push(socket_fd_count());
    }
  }
  // quiescence
  let mut end_fds = fd_count();
  let mut end_sock = socket_fd_count();
  for _ in 0..30 {
    if end_sock <= base_sock {
      break;
    }
    tokio::time::sleep(Duration::from_millis(100)).await;
    end_fds = fd_count();
    end_sock = socket_fd_count();
  }
  let bufs_open = buffers_json();
  let _ = timeout(Duration::from_secs(3), pull.close()).await;
  let _ = timeout(Duration::from_secs(5), ctx.term()).await;
  tokio::time::sleep(Duration::from_millis(200)).await;
  let closed_fds = fd_count();
  let closed_sock = socket_fd_count();
  let tr = vu::trace_take();
  vu::trace_enable(false);
  let trace: Vec<Value> = tr.iter().map(|(k, a, b)| json!([k, a, b])).collect();
  json!({"rows": [[98, delivered, lost]], "base_fds": base_fds, "end_fds": end_fds, "base_sock": base_sock, "end_sock": end_sock,
         "closed_fds": closed_fds, "closed_sock": closed_sock, "samples": samples, "per_cycle": per_cycle, "buffers": bufs_open, "buffers_closed": buffers_json(), "trace": trace})
}

/// N live PUSH sockets (none is closed before the end) send `per` messages each to one PULL.
async fn fanin(c: &Value) -> Value {
  let n = u(c, "n");
  let mut burn: Vec<std::fs::File> = Vec::new();
  for _ in 0..c.get("burn_fds").and_then(|v| v.as_u64()).unwrap_or(0) {
    burn.push(std::fs::File::open("/dev/null").unwrap());
  }
  let per = u(c, "per");
  let ctx = Context::new().expect("ctx");
  let pull = ctx.socket(rzmq::SocketType::Pull).expect("pull");
  apply_opts(&pull, &c["recv_opts"]).await;
  let mon = pull.monitor_default().await.expect("monitor");
  let ep = format!("tcp://127.0.0.1:{}", free_port());
  pull.bind(&ep).await.expect("bind");
  tokio::time::sleep(Duration::from_millis(30)).await;
  let mut pushes = Vec::new();
  let mut per_sender: Vec<u64> = Vec::new();
  let mut total = 0u64;
  for s in 0..n {
    let push = ctx.socket(rzmq::SocketType::Push).expect("push");
    apply_opts(&push, &c["send_opts"]).await;
    let _ = push.connect(&ep).await;
    for i in 0..per {
      let mut p = fill(u(c, "size"), i % 251);
      if !p.is_empty() {
        p[0] = s as u8;
      }
      let _ = timeout(Duration::from_secs(3), push.send(Msg::from_vec(p))).await;
    }
    let mut got = 0u64;
    for _ in 0..per {
      match timeout(Duration::from_millis(u(c, "recv_ms")), pull.recv()).await {
        Ok(Ok(_)) => got += 1,
        _ => break,
      }
    }
    total += got;
    per_sender.push(got);
    pushes.push(push);
  }
  let mut events: Vec<String> = Vec::new();
  while let Ok(Ok(ev)) = timeout(Duration::from_millis(20), mon.recv()).await {
    events.push(ev_name(&ev).to_string());
  }
  for p in pushes {
    let _ = timeout(Duration::from_secs(2), p.close()).await;
  }
  let _ = timeout(Duration::from_secs(3), pull.close()).await;
  let _ = timeout(Duration::from_secs(5), ctx.term()).await;
  let hs = events.iter().filter(|e| *e == "HandshakeSucceeded").count();
  let acc = events.iter().filter(|e| *e == "Accepted").count();
  drop(burn);
  json!({"rows": [[98, total]], "per_sender": per_sender, "accepted": acc, "handshakes": hs, "fds": fd_count()})
}

/// The socket sends to a raw peer that completes the handshake and then never reads.
async fn stall(c: &Value) -> Value {
  let ctx = Context::new().expect("ctx");
  vu::trace_enable(true);
  let _ = vu::trace_take();
  let base_sock = socket_fd_count();
  let sock = ctx.socket(rzmq::SocketType::Push).expect("push");
  apply_opts(&sock, &c["opts"]).await;
  let port = free_port();
  sock.bind(&format!("tcp://127.0.0.1:{port}")).await.expect("bind");
  tokio::time::sleep(Duration::from_millis(30)).await;
  let mut stream = TcpStream::connect(("127.0.0.1", port)).await.expect("raw connect");
  for w in c["writes"].as_array().unwrap() {
    let _ = stream.write_all(&pieces_bytes(w)).await;
  }
  tokio::time::sleep(Duration::from_millis(150)).await;
  let size = u(c, "size");
  let mut accepted = 0u64;
  let mut refused = 0u64;
  let t0 = Instant::now();
  let budget = Duration::from_millis(u(c, "send_ms"));
  while t0.elapsed() < budget && accepted < u(c, "max_msgs") {
    match timeout(Duration::from_millis(300), sock.send(Msg::from_vec(fill(size, accepted % 251)))).await {
      Ok(Ok(())) => accepted += 1,
      _ => {
        refused += 1;
        if refused > 3 {
          break;
        }
      }
    }
  }
  let mid = buffers_json();
  let closed_in_time = timeout(Duration::from_secs(4), sock.close()).await.is_ok();
  drop(stream);
  let term_in_time = timeout(Duration::from_secs(5), ctx.term()).await.is_ok();
  let mut end_sock = socket_fd_count();
  for _ in 0..30 {
    if end_sock <= base_sock {
      break;
    }
    tokio::time::sleep(Duration::from_millis(100)).await;
    end_sock = socket_fd_count();
  }
  let tr = vu::trace_take();
  vu::trace_enable(false);
  let trace: Vec<Value> = tr.iter().map(|(k, a, b)| json!([k, a, b])).collect();
  json!({"rows": [[98, (accepted > 0) as u64]], "accepted": accepted, "refused": refused, "closed_in_time": closed_in_time, "term_in_time": term_in_time,
         "base_sock": base_sock, "end_sock": end_sock, "buffers_mid": mid, "buffers_end": buffers_json(), "trace": trace})
}

/// The raw peer shuts the connection down while the application closes its socket: traces the
/// worker's close path (how many Close SQEs per registered fd).
async fn closerace(c: &Value) -> Value {
  let rounds = u(c, "rounds");
  vu::trace_enable(true);
  let _ = vu::trace_take();
  let base_sock = socket_fd_count();
  for r in 0..rounds {
    let ctx = Context::new().expect("ctx");
    let sock = ctx.socket(rzmq::SocketType::Pull).expect("pull");
    apply_opts(&sock, &c["opts"]).await;
    let port = free_port();
    sock.bind(&format!("tcp://127.0.0.1:{port}")).await.expect("bind");
    tokio::time::sleep(Duration::from_millis(20)).await;
    let mut stream = TcpStream::connect(("127.0.0.1", port)).await.expect("raw connect");
    stream.set_nodelay(true).unwrap();
    for w in c["writes"].as_array().unwrap() {
      let _ = stream.write_all(&pieces_bytes(w)).await;
    }
    tokio::time::sleep(Duration::from_millis(40)).await;
    let jitter = Duration::from_micros((r * 37) % 400);
    let peer = tokio::spawn(async move {
      tokio::time::sleep(jitter).await;
      let _ = stream.write_all(&[0u8, 1, 42]).await;
      drop(stream);
    });
    let _ = timeout(Duration::from_secs(3), sock.close()).await;
    let _ = peer.await;
    let _ = timeout(Duration::from_secs(5), ctx.term()).await;
  }
  let mut end_sock = socket_fd_count();
  for _ in 0..30 {
    if end_sock <= base_sock {
      break;
    }
    tokio::time::sleep(Duration::from_millis(100)).await;
    end_sock = socket_fd_count();
  }
  let tr = vu::trace_take();
  vu::trace_enable(false);
  let trace: Vec<Value> = tr.iter().map(|(k, a, b)| json!([k, a, b])).collect();
  json!({"rows": [[98, rounds]], "base_sock": base_sock, "end_sock": end_sock, "trace": trace})
}

pub fn run_case(c: &Value) -> Value {
  let kind = c["k"].as_str().unwrap().to_string();
  match kind.as_str() {
    "pool" | "ring" | "handler" => {
      let c2 = c.clone();
      let r = std::panic::catch_unwind(std::panic::AssertUnwindSafe(|| match kind.as_str() {
        "pool" => pool_case(&c2),
        "ring" => ring_case(&c2),
        _ => handler_case(&c2),
      }));
      return r.unwrap_or_else(|_| json!({"rows": [[96]], "harness_panic": true}));
    }
    _ => {}
  }
  let threads = c.get("threads").and_then(|v| v.as_u64()).unwrap_or(2) as usize;
  let rt = tokio::runtime::Builder::new_multi_thread().worker_threads(threads.max(2)).enable_all().build().unwrap();
  let c2 = c.clone();
  let limit = Duration::from_secs(c.get("limit_s").and_then(|v| v.as_u64()).unwrap_or(60));
  let res = std::panic::catch_unwind(std::panic::AssertUnwindSafe(|| {
    rt.block_on(async move {
      let fut = async {
        match kind.as_str() {
          "rawpeer" => rawpeer(&c2).await,
          "silentpeer" => silentpeer(&c2).await,
          "pair" => pair(&c2).await,
          "churn" => churn(&c2).await,
          "fanin" => fanin(&c2).await,
          "stall" => stall(&c2).await,
          "closerace" => closerace(&c2).await,
          other => panic!("unknown c20 scenario {other}"),
        }
      };
      match timeout(limit, fut).await {
        Ok(v) => v,
        Err(_) => json!({"rows": [[97]], "scenario_timeout": true}),
      }
    })
  }));
  rt.shutdown_timeout(Duration::from_millis(200));
  match res {
    Ok(v) => v,
    Err(_) => json!({"rows": [[96]], "harness_panic": true}),
  }
}

/// Cases marked `"seq": true` (fd accounting must not see other scenarios' sockets) run one by one
/// after all the others, which run on up to 6 threads. Results keep the input order.
pub fn run_all(cases: &[Value]) -> Vec<Value> {
  init_backend_from_env();
  use std::sync::{Arc, Mutex};
  let n = std::env::var("VH_THREADS").ok().and_then(|s| s.parse().ok()).unwrap_or(6usize);
  let out: Arc<Mutex<Vec<Option<Value>>>> = Arc::new(Mutex::new(vec![None; cases.len()]));
  let par: Vec<usize> = (0..cases.len()).filter(|i| !b(&cases[*i], "seq")).collect();
  let seq: Vec<usize> = (0..cases.len()).filter(|i| b(&cases[*i], "seq")).collect();
  let next = Arc::new(std::sync::atomic::AtomicUsize::new(0));
  let cases_arc: Arc<Vec<Value>> = Arc::new(cases.to_vec());
  let par = Arc::new(par);
  let mut hs = Vec::new();
  for _ in 0..n.max(1) {
    let (out, next, cases_arc, par) = (out.clone(), next.clone(), cases_arc.clone(), par.clone());
    hs.push(std::thread::spawn(move || loop {
      let j = next.fetch_add(1, std::sync::atomic::Ordering::SeqCst);
      if j >= par.len() {
        break;
      }
      let i = par[j];
      let v = run_case(&cases_arc[i]);
      out.lock().unwrap()[i] = Some(v);
    }));
  }
  for h in hs {
    let _ = h.join();
  }
  for i in seq {
    let v = run_case(&cases[i]);
    out.lock().unwrap()[i] = Some(v);
  }
  let g = out.lock().unwrap();
  g.iter().map(|x| x.clone().unwrap_or(json!({"rows": [[95]]}))).collect()
}
