//! C08: the ready-pipe queue under a baton scheduler, and WaitGroup::wait poll schedules, on the
//! real code through `rzmq::verif::rpq`.
//!
//! Every model thread (one producer per pipe, the consumers) is an OS thread with a tiny executor:
//! it starts its next operation / polls its current future only when the controller hands it the
//! baton (`Cmd::Go`), and gives the baton back when it reaches the next `cfg(rzmq_verif)` schedule
//! point inside rzmq (the hook blocks the thread there), when the poll returns `Pending`, or when
//! the operation returns.  So exactly one atomic action of the real code runs per `Run` event and
//! all other threads stand still.  `Cancel` drops a pending future; `Dereg` calls
//! `deregister_pipe` from the controller thread.  After every event the controller logs
//! `[kind, idx, status, result.., 99, (queued, reserved, len) per pipe.., ready_len]`.
//!
//! Wakers are real: a `Pending` thread is *runnable* only once the channel implementation has woken
//! its waker.  `mode = "auto"` / `"dfs"` choose only runnable events (random / bounded DFS) and
//! report the schedules they produced; `mode = "explicit"` replays a given schedule (a `Run` of a
//! pending thread whose waker has not fired is a no-op, as it is for an executor).  The last
//! column of every row is the bit mask of pending threads whose waker has fired.
use rzmq::verif::rpq::{set_schedule_hook, VQueue, VWaitGroup};
use serde_json::{json, Value};
use std::cell::{Cell, RefCell};
use std::future::Future;
use std::panic::{catch_unwind, AssertUnwindSafe};
use std::pin::Pin;
use std::rc::Rc;
use std::sync::atomic::{AtomicBool, Ordering};
use std::sync::mpsc::{channel, Receiver, Sender};
use std::sync::{Arc, Once};
use std::task::{Context, Poll, Wake, Waker};
use std::thread::JoinHandle;
use std::time::Duration;

#[derive(Clone, Copy, PartialEq, Debug)]
enum Cmd {
  Go,
  Cancel,
  Drain,
}

#[derive(Debug)]
enum Rep {
  At(&'static str),
  Pending,
  Done(Vec<u64>),
  Cancelled,
  Finished,
  Panicked,
}

struct Ctx {
  cmd: Receiver<Cmd>,
  rep: Sender<Rep>,
  drain: Cell<bool>,
}

thread_local! {
  static CTX: RefCell<Option<Rc<Ctx>>> = RefCell::new(None);
  // single-threaded (WaitGroup) cases: what to do at a schedule point reached on this thread
  static GAP: RefCell<Option<Box<dyn FnMut(&'static str)>>> = RefCell::new(None);
}

fn hook(name: &'static str) {
  let ctx = CTX.with(|c| c.borrow().clone());
  if let Some(ctx) = ctx {
    if ctx.drain.get() {
      if name.ends_with("_spin") {
        panic!("spinning on a full ready list while draining");
      }
      return;
    }
    let _ = ctx.rep.send(Rep::At(name));
    match ctx.cmd.recv() {
      Ok(Cmd::Go) => {}
      _ => ctx.drain.set(true),
    }
    return;
  }
  let g = GAP.with(|g| g.borrow_mut().take());
  if let Some(mut f) = g {
    f(name);
    GAP.with(|g| *g.borrow_mut() = Some(f));
  }
}

static INSTALL: Once = Once::new();
fn install_hook() {
  INSTALL.call_once(|| set_schedule_hook(Some(Arc::new(hook))));
}

struct Flag(AtomicBool);
impl Wake for Flag {
  fn wake(self: Arc<Self>) {
    self.0.store(true, Ordering::SeqCst)
  }
  fn wake_by_ref(self: &Arc<Self>) {
    self.0.store(true, Ordering::SeqCst)
  }
}

#[derive(Clone, Debug)]
enum Op {
  Send(u64),
  TrySend(u64),
  Batch(Vec<u64>),
  Pop,
  TryPop,
}

fn parse_op(v: &Value) -> Op {
  match v[0].as_str().unwrap() {
    "s" => Op::Send(v[1].as_u64().unwrap()),
    "t" => Op::TrySend(v[1].as_u64().unwrap()),
    "b" => Op::Batch(v[1].as_array().unwrap().iter().map(|x| x.as_u64().unwrap()).collect()),
    "p" => Op::Pop,
    "q" => Op::TryPop,
    other => panic!("unknown op {other}"),
  }
}

type OpFut = Pin<Box<dyn Future<Output = Vec<u64>> + Send>>;

fn make(q: &VQueue, idx: usize, op: &Op) -> OpFut {
  match op {
    Op::Send(x) => {
      let f = q.send(idx, *x);
      Box::pin(async move { vec![1, f.await] })
    }
    Op::TrySend(x) => {
      let (q, x) = (q.clone(), *x);
      Box::pin(async move { vec![2, q.try_send(idx, x)] })
    }
    Op::Batch(xs) => {
      let (q, xs) = (q.clone(), xs.clone());
      Box::pin(async move { vec![3, q.try_send_batch(idx, xs).0] })
    }
    Op::Pop => {
      let f = q.pop();
      Box::pin(async move {
        match f.await {
          Some((p, x)) => vec![4, 0, p, x],
          None => vec![4, 9],
        }
      })
    }
    Op::TryPop => {
      let q = q.clone();
      Box::pin(async move {
        match q.try_pop() {
          Some((p, x)) => vec![5, 0, p, x],
          None => vec![5, 4],
        }
      })
    }
  }
}

fn worker(q: VQueue, idx: usize, ops: Vec<Op>, cmd: Receiver<Cmd>, rep: Sender<Rep>, flag: Arc<Flag>) {
  let ctx = Rc::new(Ctx { cmd, rep, drain: Cell::new(false) });
  CTX.with(|c| *c.borrow_mut() = Some(ctx.clone()));
  let waker = Waker::from(flag.clone());
  let mut cx = Context::from_waker(&waker);
  'ops: for op in ops.iter() {
    match ctx.cmd.recv() {
      Ok(Cmd::Go) => {}
      _ => {
        ctx.drain.set(true);
        break 'ops;
      }
    }
    let mut fut: Option<OpFut> = Some(make(&q, idx, op));
    loop {
      flag.0.store(false, Ordering::SeqCst);
      let r = catch_unwind(AssertUnwindSafe(|| fut.as_mut().unwrap().as_mut().poll(&mut cx)));
      match r {
        Err(_) => {
          let _ = ctx.rep.send(Rep::Panicked);
          break 'ops;
        }
        Ok(Poll::Ready(res)) => {
          fut = None;
          if ctx.drain.get() {
            break 'ops;
          }
          let _ = ctx.rep.send(Rep::Done(res));
          break;
        }
        Ok(Poll::Pending) => {
          if ctx.drain.get() {
            break 'ops;
          }
          let _ = ctx.rep.send(Rep::Pending);
          match ctx.cmd.recv() {
            Ok(Cmd::Go) => continue,
            Ok(Cmd::Cancel) => {
              fut = None; // the drop glue of the real future runs here
              let _ = ctx.rep.send(Rep::Cancelled);
              break;
            }
            _ => {
              ctx.drain.set(true);
              break 'ops;
            }
          }
        }
      }
    }
    drop(fut);
  }
  if !ctx.drain.get() {
    while let Ok(Cmd::Go) = ctx.cmd.recv() {
      let _ = ctx.rep.send(Rep::Finished);
    }
  }
  CTX.with(|c| *c.borrow_mut() = None);
}

#[derive(Clone, Copy, PartialEq, Debug)]
enum TSt {
  Idle,
  At(&'static str),
  Pending,
  Dead(u64),
}

struct Th {
  cmd: Sender<Cmd>,
  rep: Receiver<Rep>,
  flag: Arc<Flag>,
  nops: usize,
  started: usize,
  st: TSt,
  last: &'static str,
  handle: Option<JoinHandle<()>>,
  is_prod: bool,
}

fn pcode(st: TSt, last: &str) -> u64 {
  match st {
    TSt::Idle => 0,
    TSt::Dead(c) => c,
    TSt::Pending => match last {
      "rpq_send_block" => 4,
      "rpq_send_arm" => 7,
      _ => 90,
    },
    TSt::At(n) => match n {
      "rpq_send_reserve" => 1,
      "rpq_send_write" => 2,
      "rpq_send_block" => 3,
      "rpq_send_count" => 5,
      "rpq_send_arm" => 6,
      "rpq_trysend_reserve" => 8,
      "rpq_trysend_write" => 9,
      "rpq_trysend_count" => 10,
      "rpq_trysend_arm" | "rpq_trysend_spin" => 11,
      "rpq_batch_reserve" => 12,
      "rpq_batch_write" => 13,
      "rpq_batch_count" => 14,
      "rpq_batch_rollback" => 15,
      "rpq_batch_arm" | "rpq_batch_spin" => 16,
      _ => 91,
    },
  }
}

fn ccode(st: TSt, last: &str) -> u64 {
  match st {
    TSt::Idle => 0,
    TSt::Dead(c) => c,
    TSt::Pending => match last {
      "" | "rpq_pop_stale" => 1,
      "rpq_pop_rearm" => 7,
      _ => 90,
    },
    TSt::At(n) => match n {
      "rpq_pop_stale" => 2,
      "rpq_pop_recv" => 3,
      "rpq_pop_decq" => 4,
      "rpq_pop_decr" => 5,
      "rpq_pop_rearm" => 6,
      "rpq_trypop_recv" => 8,
      "rpq_trypop_decq" => 9,
      "rpq_trypop_decr" => 10,
      "rpq_trypop_rearm" => 11,
      _ => 91,
    },
  }
}

/// events: [0,p] RunP, [1,i] RunC, [2,p] CancelP, [3,i] CancelC, [4,p] Dereg
type Ev = (u64, usize);

struct World {
  q: VQueue,
  np: usize,
  rcap: u64,
  ths: Vec<Th>, // producers 0..np, then consumers
  rows: Vec<Vec<u64>>,
  sched: Vec<Ev>,
}

impl World {
  fn new(c: &Value) -> World {
    install_hook();
    let caps: Vec<usize> = c["caps"].as_array().unwrap().iter().map(|x| x.as_u64().unwrap() as usize).collect();
    let rcap = c["rcap"].as_u64().unwrap();
    let q = VQueue::new(rcap as usize, &caps);
    let np = caps.len();
    let mut ths = Vec::new();
    let progs = |k: &str| -> Vec<Vec<Op>> {
      c[k].as_array().unwrap().iter().map(|p| p.as_array().unwrap().iter().map(parse_op).collect()).collect()
    };
    let pp = progs("prods");
    assert_eq!(pp.len(), np);
    for (is_prod, list) in [(true, pp), (false, progs("cons"))] {
      for (idx, ops) in list.into_iter().enumerate() {
        let (ctx, crx) = channel::<Cmd>();
        let (rtx, rrx) = channel::<Rep>();
        let flag = Arc::new(Flag(AtomicBool::new(false)));
        let (q2, f2, nops) = (q.clone(), flag.clone(), ops.len());
        let handle = std::thread::Builder::new()
          .stack_size(256 * 1024)
          .spawn(move || worker(q2, idx, ops, crx, rtx, f2))
          .unwrap();
        ths.push(Th { cmd: ctx, rep: rrx, flag, nops, started: 0, st: TSt::Idle, last: "", handle: Some(handle), is_prod });
      }
    }
    World { q, np, rcap, ths, rows: Vec::new(), sched: Vec::new() }
  }

  fn code(&self, t: usize) -> u64 {
    let th = &self.ths[t];
    if th.is_prod {
      pcode(th.st, th.last)
    } else {
      ccode(th.st, th.last)
    }
  }

  fn runnable(&self, t: usize) -> bool {
    let th = &self.ths[t];
    match th.st {
      TSt::Idle => th.started < th.nops,
      TSt::At(n) => !n.ends_with("_spin") || self.q.ready_len() < self.rcap,
      TSt::Pending => th.flag.0.load(Ordering::SeqCst),
      TSt::Dead(_) => false,
    }
  }

  /// wait for the thread's report after it got the baton
  fn await_rep(&mut self, t: usize) -> Vec<u64> {
    let th = &mut self.ths[t];
    match th.rep.recv_timeout(Duration::from_secs(10)) {
      Ok(Rep::At(n)) => {
        th.st = TSt::At(n);
        th.last = n;
        vec![]
      }
      Ok(Rep::Pending) => {
        th.st = TSt::Pending;
        vec![]
      }
      Ok(Rep::Done(res)) => {
        th.st = TSt::Idle;
        res
      }
      Ok(Rep::Cancelled) => {
        th.st = TSt::Idle;
        if th.is_prod {
          vec![1, 2]
        } else {
          vec![4, 2]
        }
      }
      Ok(Rep::Finished) => vec![],
      Ok(Rep::Panicked) => {
        th.st = TSt::Dead(97);
        vec![]
      }
      Err(_) => {
        th.st = TSt::Dead(98); // hang: the thread never reached another schedule point
        vec![]
      }
    }
  }

  fn tid(&self, kind: u64, idx: usize) -> Option<usize> {
    let t = if kind == 0 || kind == 2 { idx } else { self.np + idx };
    let ok = if kind == 0 || kind == 2 { idx < self.np } else { t < self.ths.len() };
    if ok {
      Some(t)
    } else {
      None
    }
  }

  fn exec(&mut self, ev: Ev) {
    let (kind, idx) = ev;
    let mut res: Vec<u64> = vec![];
    let mut status = 0u64;
    match kind {
      0 | 1 => {
        if let Some(t) = self.tid(kind, idx) {
          let go = match self.ths[t].st {
            TSt::Idle => {
              if self.ths[t].started < self.ths[t].nops {
                self.ths[t].started += 1;
                self.ths[t].last = "";
                true
              } else {
                false
              }
            }
            TSt::At(_) => true,
            // a real executor polls a pending task only after its waker fired
            TSt::Pending => self.ths[t].flag.0.load(Ordering::SeqCst),
            TSt::Dead(_) => false,
          };
          if go {
            let _ = self.ths[t].cmd.send(Cmd::Go);
            res = self.await_rep(t);
          }
          status = self.code(t);
        }
      }
      2 | 3 => {
        if let Some(t) = self.tid(kind, idx) {
          if self.ths[t].st == TSt::Pending {
            let _ = self.ths[t].cmd.send(Cmd::Cancel);
            res = self.await_rep(t);
          }
          status = self.code(t);
        }
      }
      4 => {
        if idx < self.np {
          self.q.deregister(idx);
        }
      }
      _ => {}
    }
    let mut row = vec![kind, idx as u64, status];
    row.extend(res);
    row.push(99);
    for p in 0..self.np {
      let (a, b, c) = self.q.observe(p);
      row.extend([a, b, c]);
    }
    row.push(self.q.ready_len());
    let mut mask = 0u64;
    for (t, th) in self.ths.iter().enumerate() {
      if th.st == TSt::Pending && th.flag.0.load(Ordering::SeqCst) {
        mask |= 1 << t;
      }
    }
    row.push(mask);
    self.rows.push(row);
    self.sched.push(ev);
  }

  /// Run events of runnable threads, in the fixed order used by auto / dfs
  fn run_events(&self, last: Option<usize>) -> Vec<(Ev, bool)> {
    // (event, is_continuation_of_last_thread)
    let mut out = Vec::new();
    if let Some(t) = last {
      if self.runnable(t) {
        out.push((self.ev_of(t), true));
      }
    }
    for t in 0..self.ths.len() {
      if Some(t) != last && self.runnable(t) {
        out.push((self.ev_of(t), false));
      }
    }
    out
  }

  fn ev_of(&self, t: usize) -> Ev {
    if t < self.np {
      (0, t)
    } else {
      (1, t - self.np)
    }
  }

  fn cancel_events(&self) -> Vec<Ev> {
    (0..self.ths.len())
      .filter(|&t| self.ths[t].st == TSt::Pending)
      .map(|t| if t < self.np { (2, t) } else { (3, t - self.np) })
      .collect()
  }

  fn fin(&self) -> Value {
    let runnable = (0..self.ths.len()).filter(|&t| self.runnable(t)).count();
    let mut parked_pop = 0;
    let mut parked_pop_unwoken = 0;
    let mut parked_send = 0;
    let mut midop = 0;
    let mut dead = 0;
    for (t, th) in self.ths.iter().enumerate() {
      match th.st {
        TSt::Pending => {
          if th.is_prod {
            parked_send += 1;
          } else if self.code(t) == 1 {
            parked_pop += 1;
            if !th.flag.0.load(Ordering::SeqCst) {
              parked_pop_unwoken += 1;
            }
          } else {
            midop += 1;
          }
        }
        TSt::At(_) => midop += 1,
        TSt::Dead(_) => dead += 1,
        TSt::Idle => {}
      }
    }
    let lens: Vec<u64> = (0..self.np).map(|p| self.q.observe(p).2).collect();
    json!({"runnable": runnable, "parked_pop": parked_pop, "parked_pop_unwoken": parked_pop_unwoken,
           "parked_send": parked_send, "midop": midop, "dead": dead, "lens": lens, "ready_len": self.q.ready_len()})
  }

  fn finish(mut self) -> Value {
    let fin = self.fin();
    for th in self.ths.iter_mut() {
      let _ = th.cmd.send(Cmd::Drain);
    }
    for th in self.ths.iter_mut() {
      if let TSt::Dead(98) = th.st {
        continue; // hung thread: cannot be joined
      }
      if let Some(h) = th.handle.take() {
        let _ = h.join();
      }
    }
    let sched: Vec<Value> = self.sched.iter().map(|(k, i)| json!([k, i])).collect();
    json!({"rows": self.rows, "sched": sched, "fin": fin})
  }
}

fn parse_sched(v: &Value) -> Vec<Ev> {
  v.as_array().map(|a| a.iter().map(|e| (e[0].as_u64().unwrap(), e[1].as_u64().unwrap() as usize)).collect()).unwrap_or_default()
}

fn run_explicit(c: &Value) -> Value {
  let mut w = World::new(c);
  for ev in parse_sched(&c["sched"]) {
    w.exec(ev);
  }
  w.finish()
}

struct Rng(u64);
impl Rng {
  fn next(&mut self) -> u64 {
    self.0 ^= self.0 << 13;
    self.0 ^= self.0 >> 7;
    self.0 ^= self.0 << 17;
    self.0
  }
  fn below(&mut self, n: u64) -> u64 {
    (self.next() >> 11) % n.max(1)
  }
}

/// random schedule over runnable events; `stick` % chance to continue the same thread,
/// `pcancel` % chance (while `max_cancel` lasts) to drop a pending future, deregistrations at the
/// listed step numbers.
fn run_auto(c: &Value) -> Value {
  let mut w = World::new(c);
  let mut rng = Rng(c["seed"].as_u64().unwrap_or(1).wrapping_mul(0x9E37_79B9_7F4A_7C15) | 1);
  let steps = c["steps"].as_u64().unwrap_or(200);
  let stick = c["stick"].as_u64().unwrap_or(50);
  let pcancel = c["pcancel"].as_u64().unwrap_or(0);
  let mut cancels = c["max_cancel"].as_u64().unwrap_or(0);
  let dereg: Vec<(u64, usize)> =
    c["dereg_at"].as_array().map(|a| a.iter().map(|e| (e[0].as_u64().unwrap(), e[1].as_u64().unwrap() as usize)).collect()).unwrap_or_default();
  let mut last: Option<usize> = None;
  for n in 0..steps {
    for (at, p) in dereg.iter() {
      if *at == n {
        w.exec((4, *p));
      }
    }
    let cs = w.cancel_events();
    if cancels > 0 && !cs.is_empty() && rng.below(100) < pcancel {
      let e = cs[rng.below(cs.len() as u64) as usize];
      cancels -= 1;
      w.exec(e);
      continue;
    }
    let evs = w.run_events(last);
    if evs.is_empty() {
      // nothing can move; a late cancellation may still be due
      if cancels > 0 && !cs.is_empty() && pcancel > 0 {
        let e = cs[rng.below(cs.len() as u64) as usize];
        cancels -= 1;
        w.exec(e);
        continue;
      }
      break;
    }
    let e = if evs[0].1 && rng.below(100) < stick { evs[0].0 } else { evs[rng.below(evs.len() as u64) as usize].0 };
    w.exec(e);
    last = Some(if e.0 == 0 { e.1 } else { w.np + e.1 });
  }
  w.finish()
}

/// Bounded depth-first enumeration of ALL schedules over runnable events with at most
/// `max_preempt` preemptions (switching away from a thread that could continue), at most
/// `max_cancel` cancellations and at most one deregistration per pipe listed in `dereg_pipes`.
/// Stateless: every schedule is executed from scratch on a fresh queue.
fn run_dfs(c: &Value) -> Value {
  let max_preempt = c["max_preempt"].as_u64().unwrap_or(2);
  let max_cancel = c["max_cancel"].as_u64().unwrap_or(0);
  let max_runs = c["max_runs"].as_u64().unwrap_or(2000);
  let max_steps = c["steps"].as_u64().unwrap_or(120);
  let dereg_pipes: Vec<usize> = c["dereg_pipes"].as_array().map(|a| a.iter().map(|x| x.as_u64().unwrap() as usize).collect()).unwrap_or_default();
  let mut prefix: Vec<usize> = Vec::new();
  let mut runs: Vec<Value> = Vec::new();
  let mut complete = false;
  loop {
    let mut w = World::new(c);
    // per step: (chosen index, number of alternatives, cost of each alternative given the budgets left)
    let mut trail: Vec<(usize, Vec<bool>)> = Vec::new();
    let (mut pre, mut can) = (0u64, 0u64);
    let mut dereg_left = dereg_pipes.clone();
    let mut last: Option<usize> = None;
    for depth in 0..max_steps as usize {
      let runs_ev = w.run_events(last);
      let cont = runs_ev.first().map(|x| x.1).unwrap_or(false);
      let mut alts: Vec<(Ev, u64, u64)> = Vec::new(); // (event, preempt cost, cancel cost)
      for (e, is_cont) in runs_ev.iter() {
        alts.push((*e, if cont && !*is_cont { 1 } else { 0 }, 0));
      }
      for e in w.cancel_events() {
        alts.push((e, 0, 1));
      }
      for p in dereg_left.iter() {
        alts.push(((4, *p), if cont { 1 } else { 0 }, 0));
      }
      let allowed: Vec<bool> = alts.iter().map(|(_, pc, cc)| pre + pc <= max_preempt && can + cc <= max_cancel).collect();
      if !allowed.iter().any(|&a| a) || runs_ev.is_empty() && w.cancel_events().is_empty() {
        break;
      }
      let choice = if depth < prefix.len() { prefix[depth] } else { allowed.iter().position(|&a| a).unwrap() };
      if choice >= alts.len() || !allowed[choice] {
        break; // the tree changed under us (non-determinism): reported through the replay check
      }
      let (e, pc, cc) = alts[choice];
      pre += pc;
      can += cc;
      if e.0 == 4 {
        dereg_left.retain(|p| *p != e.1);
      }
      trail.push((choice, allowed));
      w.exec(e);
      if e.0 <= 1 {
        last = Some(if e.0 == 0 { e.1 } else { w.np + e.1 });
      }
    }
    runs.push(w.finish());
    // backtrack: deepest step with a later allowed alternative
    let mut next: Option<Vec<usize>> = None;
    for d in (0..trail.len()).rev() {
      let (ch, allowed) = &trail[d];
      if let Some(j) = (ch + 1..allowed.len()).find(|&j| allowed[j]) {
        let mut p: Vec<usize> = trail[..d].iter().map(|x| x.0).collect();
        p.push(j);
        next = Some(p);
        break;
      }
    }
    match next {
      None => {
        complete = true;
        break;
      }
      Some(p) => prefix = p,
    }
    if runs.len() as u64 >= max_runs {
      break;
    }
  }
  json!({"rows": [[runs.len() as u64, complete as u64]], "runs": runs, "complete": complete})
}

// ---------------------------------------------------------------- WaitGroup::wait

fn poll_once<T>(f: &mut Pin<Box<dyn Future<Output = T> + Send>>) -> Option<T> {
  let waker = futures::task::noop_waker();
  let mut cx = Context::from_waker(&waker);
  match f.as_mut().poll(&mut cx) {
    Poll::Ready(r) => Some(r),
    Poll::Pending => None,
  }
}

fn wg_apply(w: &VWaitGroup, ops: &Value) {
  for o in ops.as_array().unwrap() {
    match o[0].as_str().unwrap() {
      "a" => w.add(o[1].as_u64().unwrap() as usize),
      "d" => w.done(),
      other => panic!("unknown wg op {other}"),
    }
  }
}

/// WaitGroup::wait polled by hand on this thread; the add()/done() calls of "other tasks" that land
/// between the count check and `notified()` are executed by the hook at exactly that point.
fn run_wg(c: &Value) -> Value {
  install_hook();
  let w = VWaitGroup::new();
  let mut fut: Option<Pin<Box<dyn Future<Output = ()> + Send>>> = None;
  let mut status = 3u64; // 3 not started, 0 pending, 1 returned
  let mut rows: Vec<Vec<u64>> = Vec::new();
  for item in c["items"].as_array().unwrap() {
    match item[0].as_str().unwrap() {
      "poll" => {
        if fut.is_none() {
          fut = Some(w.wait());
        }
        let gap = item[1].clone();
        let fired = Rc::new(Cell::new(false));
        let (w2, f2) = (w.clone(), fired.clone());
        GAP.with(|g| {
          *g.borrow_mut() = Some(Box::new(move |name| {
            if name == "wg_wait_before_notified" && !f2.replace(true) {
              wg_apply(&w2, &gap);
            }
          }))
        });
        let r = poll_once(fut.as_mut().unwrap());
        GAP.with(|g| *g.borrow_mut() = None);
        match r {
          Some(()) => {
            status = 1;
            fut = None;
          }
          None => status = 0,
        }
        rows.push(vec![0, status, w.count(), fired.get() as u64]);
      }
      "env" => {
        wg_apply(&w, &item[1]);
        rows.push(vec![1, status, w.count(), 0]);
      }
      other => panic!("unknown wg item {other}"),
    }
  }
  json!({ "rows": rows })
}

/// The same race with real parallelism: Context::term's shape — the waiter runs on a tokio runtime
/// under a timeout and is held at the schedule point (gap = true) while this thread calls done().
fn run_wg_mt(c: &Value) -> Value {
  use std::sync::mpsc;
  use std::sync::Mutex;
  let gap = c["gap"].as_bool().unwrap();
  let w = VWaitGroup::new();
  w.add(1);
  let rt = tokio::runtime::Builder::new_multi_thread().worker_threads(2).enable_all().build().unwrap();
  let (at_tx, at_rx) = mpsc::channel::<()>();
  let (go_tx, go_rx) = mpsc::channel::<()>();
  let (at_tx, go_rx) = (Mutex::new(at_tx), Mutex::new(go_rx));
  let fired = AtomicBool::new(false);
  // this case installs its own hook (it runs alone: the c08 subcommand is sequential)
  set_schedule_hook(Some(Arc::new(move |name| {
    if name == "wg_wait_before_notified" && !fired.swap(true, Ordering::SeqCst) {
      let _ = at_tx.lock().unwrap().send(());
      let _ = go_rx.lock().unwrap().recv();
    }
  })));
  let w2 = w.clone();
  let h = rt.spawn(async move { tokio::time::timeout(Duration::from_millis(400), w2.wait()).await });
  at_rx.recv().unwrap(); // the waiter has seen count = 1 and has not yet created its Notified future
  if gap {
    w.done();
    go_tx.send(()).unwrap();
  } else {
    go_tx.send(()).unwrap();
    std::thread::sleep(Duration::from_millis(100));
    w.done();
  }
  let r = rt.block_on(h).unwrap();
  set_schedule_hook(Some(Arc::new(hook)));
  json!({ "rows": [[r.is_err() as u64, w.count()]] })
}

pub fn run_case(c: &Value) -> Value {
  let r = catch_unwind(AssertUnwindSafe(|| match c["k"].as_str().unwrap() {
    "rpq" => match c["mode"].as_str().unwrap_or("explicit") {
      "explicit" => run_explicit(c),
      "auto" => run_auto(c),
      "dfs" => run_dfs(c),
      other => panic!("unknown mode {other}"),
    },
    "wg" => run_wg(c),
    "wgmt" => run_wg_mt(c),
    other => panic!("unknown case kind {other}"),
  }));
  match r {
    Ok(v) => v,
    Err(_) => {
      GAP.with(|g| *g.borrow_mut() = None);
      json!({"rows": [[77]], "panic": true})
    }
  }
}

pub fn run_all(cases: &[Value]) -> Vec<Value> {
  cases.iter().map(run_case).collect()
}
