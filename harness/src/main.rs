//! vh - executes verification cases against the real rzmq code.
//! usage: vh <subcommand> <cases.json> <obs.json>
//! cases.json: JSON array of case objects; obs.json: JSON array of observations (same order).
mod util;
mod c01;
mod c02;
mod c03;
mod c08;
mod c09;
mod c10;
mod c18;
mod c20;
mod c11;
mod c12;
mod c13;
mod c14;
mod c15;
mod c16;
mod c17;
mod eng;
mod opt;
mod pair;
mod stack;

use serde_json::Value;
use std::fs;

/// run cases on `n` OS threads (each scenario builds its own runtime), keeping order
fn run_parallel(cases: &[Value], f: fn(&Value) -> Value, n: usize) -> Vec<Value> {
  use std::sync::{Arc, Mutex};
  let n = std::env::var("VH_THREADS").ok().and_then(|s| s.parse().ok()).unwrap_or(n);
  let out: Arc<Mutex<Vec<Option<Value>>>> = Arc::new(Mutex::new(vec![None; cases.len()]));
  let next = Arc::new(std::sync::atomic::AtomicUsize::new(0));
  let cases: Arc<Vec<Value>> = Arc::new(cases.to_vec());
  let mut hs = Vec::new();
  for _ in 0..n.max(1) {
    let (out, next, cases) = (out.clone(), next.clone(), cases.clone());
    hs.push(std::thread::spawn(move || loop {
      let i = next.fetch_add(1, std::sync::atomic::Ordering::SeqCst);
      if i >= cases.len() {
        break;
      }
      let v = f(&cases[i]);
      out.lock().unwrap()[i] = Some(v);
    }));
  }
  for h in hs {
    let _ = h.join();
  }
  let g = out.lock().unwrap();
  g.iter().map(|x| x.clone().unwrap_or(serde_json::json!({"rows": [[95]]}))).collect()
}

fn main() {
  let args: Vec<String> = std::env::args().collect();
  if args.len() < 4 {
    eprintln!("usage: vh <subcommand> <cases.json> <obs.json>");
    std::process::exit(2);
  }
  // silence panic messages from catch_unwind'ed cases
  if std::env::var("VH_PANIC").is_err() {
    std::panic::set_hook(Box::new(|_| {}));
  }
  let cases: Value = serde_json::from_str(&fs::read_to_string(&args[2]).expect("read cases")).expect("parse cases");
  let cases = cases.as_array().expect("cases array");
  let obs: Vec<Value> = match args[1].as_str() {
    "c03" => cases.iter().map(c03::run_case).collect(),
    "eng" => cases.iter().map(eng::run_case).collect(),
    "opt" => opt::run_all(cases),
    "optslot" => cases.iter().map(opt::run_slot).collect(),
    "pair" => cases.iter().map(pair::run_case).collect(),
    "c12" => cases.iter().map(c12::run_case).collect(),
    "c10" => c10::run_all(cases, &args[3]),
    "c10w" => cases.iter().map(c10::run_case).collect(),
    "c11" => c11::run_all(cases),
    "c01" => run_parallel(cases, c01::run_case, 8),
    "c01seq" => cases.iter().map(c01::run_case).collect(),
    "c02" => c02::run_all(cases),
    "c08" => c08::run_all(cases),
    "c18" => run_parallel(cases, c18::run_case, 8),
    "c13" => cases.iter().map(c13::run_case).collect(),
    "c09" => run_parallel(cases, c09::run_case, 16),
    "c14" => run_parallel(cases, c14::run_case, 8),
    "c14seq" => cases.iter().map(c14::run_case).collect(),
    "c20" => c20::run_all(cases),
    "c15" => run_parallel(cases, c15::run_case, 8),
    "c16" => {
      c16::install_panic_counter();
      run_parallel(cases, c16::run_case, 10)
    }
    "c17" => c17::run_all(cases),
    "stack" => run_parallel(cases, stack::run_case, 8),
    other => {
      eprintln!("unknown subcommand {other}");
      std::process::exit(2);
    }
  };
  fs::write(&args[3], serde_json::to_string(&Value::Array(obs)).unwrap()).expect("write obs");
}
