//! vh - executes verification cases against the real rzmq code.
//! usage: vh <subcommand> <cases.json> <obs.json>
//! cases.json: JSON array of case objects; obs.json: JSON array of observations (same order).
mod util;
mod c03;

use serde_json::Value;
use std::fs;

fn main() {
  let args: Vec<String> = std::env::args().collect();
  if args.len() < 4 {
    eprintln!("usage: vh <subcommand> <cases.json> <obs.json>");
    std::process::exit(2);
  }
  // silence panic messages from catch_unwind'ed cases
  std::panic::set_hook(Box::new(|_| {}));
  let cases: Value = serde_json::from_str(&fs::read_to_string(&args[2]).expect("read cases")).expect("parse cases");
  let cases = cases.as_array().expect("cases array");
  let obs: Vec<Value> = match args[1].as_str() {
    "c03" => cases.iter().map(c03::run_case).collect(),
    other => {
      eprintln!("unknown subcommand {other}");
      std::process::exit(2);
    }
  };
  fs::write(&args[3], serde_json::to_string(&Value::Array(obs)).unwrap()).expect("write obs");
}
