//! C13: LoadBalancer / OutgoingMessageOrchestrator histories and the wait_for_connection
//! schedules, executed on the real code through `rzmq::verif::balancer`.
use rzmq::verif::balancer::{set_schedule_hook, VAttempt, VMop, VReady, VRouteResult, VScript, VWorld};
use serde_json::{json, Value};
use std::future::Future;
use std::panic::{catch_unwind, AssertUnwindSafe};
use std::pin::Pin;
use std::sync::atomic::{AtomicBool, Ordering};
use std::sync::{mpsc, Arc, Mutex};
use std::task::{Context, Poll};
use std::time::Duration;

fn u64s(v: &Value) -> Vec<u64> {
  v.as_array().map(|a| a.iter().map(|x| x.as_u64().unwrap()).collect()).unwrap_or_default()
}

fn mops(v: &Value) -> Vec<VMop> {
  v.as_array()
    .map(|a| {
      a.iter()
        .map(|o| match o[0].as_str().unwrap() {
          "a" => VMop::Add(o[1].as_u64().unwrap()),
          "r" => VMop::Remove(o[1].as_u64().unwrap()),
          "d" => VMop::Deactivate,
          other => panic!("unknown mop {other}"),
        })
        .collect()
    })
    .unwrap_or_default()
}

fn poll_once<T>(f: &mut Pin<Box<dyn Future<Output = T> + Send>>) -> Option<T> {
  let waker = futures::task::noop_waker();
  let mut cx = Context::from_waker(&waker);
  match f.as_mut().poll(&mut cx) {
    Poll::Ready(r) => Some(r),
    Poll::Pending => None,
  }
}

fn res_code(r: VReady) -> u64 {
  match r {
    VReady::Full => 0,
    VReady::Accept => 1,
    VReady::Closed => 2,
  }
}

/// (outcome code, peer): 0 Returned, 1 Delivered, 2 DeliveredSlow, 3 ReturnedErr, 4 Dropped
fn classify(r: &VRouteResult, log: &[VAttempt]) -> (u64, u64) {
  let last = log.last();
  if r.ok {
    match last {
      Some(a) if a.slow => (2, a.peer),
      Some(a) => (1, a.peer),
      None => (1, 99), // success without any send call: impossible, made visible
    }
  } else if r.err_kind == 0 {
    (0, 0)
  } else if r.returned_id.is_some() {
    (3, last.map(|a| a.peer).unwrap_or(99))
  } else {
    (4, last.map(|a| a.peer).unwrap_or(99))
  }
}

fn finish_row(mut row: Vec<u64>, w: &VWorld, log: &[VAttempt]) -> Vec<u64> {
  let (peers, idx) = w.snapshot();
  row.push(idx as u64);
  row.push(peers.len() as u64);
  row.extend(peers);
  row.push(log.len() as u64);
  for a in log {
    row.extend([a.t, a.peer, a.slow as u64, res_code(a.res)]);
  }
  row
}

fn run_hist(c: &Value) -> Value {
  let script = VScript {
    fast_acc: u64s(&c["acc"]),
    fast_closed: u64s(&c["closed"]),
    slow_acc: u64s(&c["sacc"]),
    slow_closed: u64s(&c["sclosed"]),
    env: c["env"].as_array().map(|a| a.iter().map(|e| (e[0].as_u64().unwrap(), mops(&e[1]))).collect()).unwrap_or_default(),
  };
  let w = VWorld::new(script);
  let mut pending: Option<(u64, Pin<Box<dyn Future<Output = VRouteResult> + Send>>)> = None;
  let mut next_id = 1u64;
  let mut rows: Vec<Vec<u64>> = Vec::new();
  // per routed message: what the caller was told, and every delivery any peer recorded for it
  let mut msgs: Vec<Value> = Vec::new();
  let mut deliveries: Vec<(u64, u64, u64)> = Vec::new(); // (msg id, t, peer)
  let record = |msgs: &mut Vec<Value>, id: u64, op: usize, r: Option<&VRouteResult>| {
    msgs.retain(|m| m["id"].as_u64() != Some(id));
    msgs.push(match r {
      Some(r) => json!({"id": id, "op": op, "state": if r.ok { "ok" } else { "err" }, "err": r.err_kind, "ret": r.returned_id}),
      None => json!({"id": id, "op": op, "state": "pending", "err": 0, "ret": null}),
    });
  };
  for (i, op) in c["ops"].as_array().unwrap().iter().enumerate() {
    let kind = op[0].as_str().unwrap();
    let row: Vec<u64>;
    match kind {
      "add" => {
        let u = op[1].as_u64().unwrap();
        w.add(u);
        row = vec![0, u, 0, 0];
      }
      "rem" => {
        let u = op[1].as_u64().unwrap();
        w.remove(u);
        row = vec![1, u, 0, 0];
      }
      "next" => {
        let r = w.next();
        row = vec![2, 0, r.is_some() as u64, r.unwrap_or(0)];
      }
      "try" => {
        let id = next_id;
        next_id += 1;
        let r = w.try_route(id);
        let log = w.take_log();
        let (code, peer) = classify(&r, &log);
        record(&mut msgs, id, i, Some(&r));
        row = vec![3, 0, code, peer];
        deliveries.extend(log.iter().filter(|a| a.res == VReady::Accept).map(|a| (a.msg_id, a.t, a.peer)));
        rows.push(finish_row(row, &w, &log));
        continue;
      }
      "route" | "resume" => {
        let wait = kind == "route" && op[1].as_u64().unwrap() != 0;
        let started = if kind == "route" {
          let id = next_id;
          next_id += 1;
          Some((id, w.route(id, wait)))
        } else {
          pending.take()
        };
        let arg = if kind == "route" { wait as u64 } else { 0 };
        let opc = if kind == "route" { 4 } else { 5 };
        match started {
          None => row = vec![opc, arg, 9, 0],
          Some((id, mut f)) => match poll_once(&mut f) {
            Some(r) => {
              let log = w.take_log();
              let (code, peer) = classify(&r, &log);
              record(&mut msgs, id, i, Some(&r));
              deliveries.extend(log.iter().filter(|a| a.res == VReady::Accept).map(|a| (a.msg_id, a.t, a.peer)));
              rows.push(finish_row(vec![opc, arg, code, peer], &w, &log));
              continue;
            }
            None => {
              let log = w.take_log();
              record(&mut msgs, id, i, None);
              deliveries.extend(log.iter().filter(|a| a.res == VReady::Accept).map(|a| (a.msg_id, a.t, a.peer)));
              // a newer waiting send replaces an older one (the older future is dropped)
              pending = Some((id, f));
              rows.push(finish_row(vec![opc, arg, 5, 0], &w, &log));
              continue;
            }
          },
        }
      }
      other => panic!("unknown op {other}"),
    }
    let log = w.take_log();
    rows.push(finish_row(row, &w, &log));
  }
  json!({"rows": rows, "msgs": msgs, "deliveries": deliveries})
}

/// wait_for_connection polled by hand on this thread; the operations of "other tasks" that land
/// between the check and `notified()` are executed by the schedule hook at exactly that point.
fn run_wait(c: &Value) -> Value {
  let w = VWorld::new(VScript::default());
  let mut fut: Option<Pin<Box<dyn Future<Output = bool> + Send>>> = None;
  let mut status = 3u64; // 3 not started, 0 pending, 1 returned Ok, 2 returned Err
  let mut rows: Vec<Vec<u64>> = Vec::new();
  for item in c["items"].as_array().unwrap() {
    match item[0].as_str().unwrap() {
      "poll" => {
        if fut.is_none() {
          fut = Some(w.wait_for_connection());
        }
        let gap = mops(&item[1]);
        let fired = Arc::new(AtomicBool::new(false));
        let (w2, f2) = (w.clone(), fired.clone());
        set_schedule_hook(Some(Arc::new(move |name| {
          if name == "lb_wait_after_check" && !f2.swap(true, Ordering::SeqCst) {
            w2.apply(&gap);
          }
        })));
        let r = poll_once(fut.as_mut().unwrap());
        set_schedule_hook(None);
        match r {
          Some(ok) => {
            status = if ok { 1 } else { 2 };
            fut = None;
          }
          None => status = 0,
        }
        rows.push(vec![0, status, w.connection_count() as u64, fired.load(Ordering::SeqCst) as u64]);
      }
      "env" => {
        w.apply(&mops(&item[1]));
        rows.push(vec![1, status, w.connection_count() as u64, 0]);
      }
      other => panic!("unknown wait item {other}"),
    }
  }
  json!({ "rows": rows })
}

/// The same race with real parallelism: the waiter runs as a task of a multi-thread tokio
/// runtime and is held at the schedule point (gap = true) while this thread calls add_connection.
fn run_wait_mt(c: &Value) -> Value {
  let gap = c["gap"].as_bool().unwrap();
  let w = VWorld::new(VScript::default());
  let rt = tokio::runtime::Builder::new_multi_thread().worker_threads(2).enable_all().build().unwrap();
  let (at_tx, at_rx) = mpsc::channel::<()>();
  let (go_tx, go_rx) = mpsc::channel::<()>();
  let (at_tx, go_rx) = (Mutex::new(at_tx), Mutex::new(go_rx));
  let fired = AtomicBool::new(false);
  set_schedule_hook(Some(Arc::new(move |name| {
    if name == "lb_wait_after_check" && !fired.swap(true, Ordering::SeqCst) {
      let _ = at_tx.lock().unwrap().send(());
      let _ = go_rx.lock().unwrap().recv();
    }
  })));
  let w2 = w.clone();
  let h = rt.spawn(async move { tokio::time::timeout(Duration::from_millis(400), w2.wait_for_connection()).await });
  at_rx.recv().unwrap(); // the waiter has seen "no peers" and has not yet created its Notified future
  if gap {
    w.add(1);
    go_tx.send(()).unwrap();
  } else {
    go_tx.send(()).unwrap();
    std::thread::sleep(Duration::from_millis(100)); // let it create the future and park
    w.add(1);
  }
  let r = rt.block_on(h).unwrap();
  set_schedule_hook(None);
  let timed_out = r.is_err();
  json!({ "rows": [[timed_out as u64, w.connection_count() as u64]] })
}

/// Stack-level probe (not part of ./check): DEALER with a finite SNDTIMEO whose only peer never
/// reads.  route_message's blocking send times out, the orchestrator reports
/// `Err((FrameBatch::new(), Timeout))`, and DealerSocket queues that *empty* batch and answers Ok.
/// Emits rows [n sends answered Ok, n Ok-answered payloads the ROUTER finally received, n lost].
fn run_dealer_loss(c: &Value) -> Value {
  use rzmq::socket::options::{RCVHWM, SNDHWM, SNDTIMEO};
  use rzmq::{Context, Msg, SocketType};
  let n = c["n"].as_u64().unwrap_or(12);
  let ep = c["endpoint"].as_str().unwrap_or("inproc://c13-dealer-loss").to_string();
  let rt = tokio::runtime::Builder::new_multi_thread().worker_threads(2).enable_all().build().unwrap();
  let out = rt.block_on(async move {
    let ctx = Context::new().unwrap();
    let router = ctx.socket(SocketType::Router).unwrap();
    let dealer = ctx.socket(SocketType::Dealer).unwrap();
    router.set_option_raw(RCVHWM, &1i32.to_ne_bytes()).await.unwrap();
    dealer.set_option_raw(SNDHWM, &4i32.to_ne_bytes()).await.unwrap();
    dealer.set_option_raw(SNDTIMEO, &50i32.to_ne_bytes()).await.unwrap();
    router.bind(&ep).await.unwrap();
    tokio::time::sleep(Duration::from_millis(50)).await;
    dealer.connect(&ep).await.unwrap();
    tokio::time::sleep(Duration::from_millis(150)).await;
    let mut ok: Vec<u64> = Vec::new();
    let mut errs: Vec<String> = Vec::new();
    for i in 0..n {
      match dealer.send(Msg::from_vec(i.to_le_bytes().to_vec())).await {
        Ok(()) => ok.push(i),
        Err(e) => errs.push(format!("{i}:{e:?}")),
      }
    }
    let mut got: Vec<u64> = Vec::new();
    let mut other = 0u64;
    loop {
      match tokio::time::timeout(Duration::from_millis(1500), router.recv()).await {
        Ok(Ok(m)) => {
          let d = m.data().unwrap_or(&[]);
          if d.len() == 8 && !m.is_more() {
            let mut b = [0u8; 8];
            b.copy_from_slice(d);
            got.push(u64::from_le_bytes(b));
          } else if !m.is_more() {
            other += 1;
          }
        }
        _ => break,
      }
    }
    let lost: Vec<u64> = ok.iter().copied().filter(|i| !got.contains(i)).collect();
    json!({"rows": [[ok.len() as u64, got.len() as u64, lost.len() as u64, other]], "ok": ok, "got": got, "lost": lost, "errs": errs})
  });
  out
}

/// n tasks of a multi-thread runtime are parked in wait_for_connection() (what several tasks blocked in send() on a
/// peerless socket do); then ONE peer is added. rows: [[n, returned Ok within 600 ms, still parked / timed out]]
fn run_wait_n(c: &Value) -> Value {
  let n = c["n"].as_u64().unwrap() as usize;
  let w = VWorld::new(VScript::default());
  let rt = tokio::runtime::Builder::new_multi_thread().worker_threads(3).enable_all().build().unwrap();
  let mut hs = Vec::new();
  for _ in 0..n {
    let w2 = w.clone();
    hs.push(rt.spawn(async move { tokio::time::timeout(Duration::from_millis(700), w2.wait_for_connection()).await }));
  }
  std::thread::sleep(Duration::from_millis(100)); // every waiter has created its future and parked
  w.add(1);
  let mut ok = 0u64;
  let mut late = 0u64;
  for h in hs {
    match rt.block_on(h) {
      Ok(Ok(true)) => ok += 1,
      _ => late += 1,
    }
  }
  json!({ "rows": [[n as u64, ok, late]] })
}

pub fn run_case(c: &Value) -> Value {
  let r = catch_unwind(AssertUnwindSafe(|| match c["k"].as_str().unwrap() {
    "hist" => run_hist(c),
    "wait" => run_wait(c),
    "waitmt" => run_wait_mt(c),
    "waitn" => run_wait_n(c),
    "dealer_loss" => run_dealer_loss(c),
    other => panic!("unknown case kind {other}"),
  }));
  match r {
    Ok(v) => v,
    Err(_) => {
      set_schedule_hook(None);
      json!({"rows": [[77]], "panic": true})
    }
  }
}
