//! C15: LINGER governs what happens to accepted messages at close.
//!  * `coord`  (kind A): scripted op sequences on the real `ShutdownCoordinator` / `initiate_core_shutdown` /
//!                       `check_and_advance_linger` through `rzmq::verif::shutdown::VShutdown`
//!                       (scripted pipe emptiness; the clock is real, steps sit on a 40 ms grid)
//!  * `linger` (kind D): real PUSH -> PULL pairs over tcp / ipc / inproc; the sender queues messages and
//!                       then close()s / term()s / drops its handle; the peer counts and checks what arrives
use crate::c01::payload;
use crate::stack::{apply_opts, free_port};
use rzmq::verif::shutdown::VShutdown;
use rzmq::{Context, Msg, SocketType};
use serde_json::{json, Value};
use std::sync::atomic::{AtomicU64, Ordering};
use std::time::{Duration, Instant};
use tokio::time::{sleep, timeout};

static EP_CTR: AtomicU64 = AtomicU64::new(0);

fn adler(l: &[u8]) -> u64 {
  let (mut a, mut b) = (1u64, 0u64);
  for &x in l {
    a = (a + x as u64) % 65521;
    b = (b + a) % 65521;
  }
  b * 65536 + a
}

pub fn endpoint(tr: &str, tag: &str) -> String {
  let n = EP_CTR.fetch_add(1, Ordering::Relaxed);
  match tr {
    "tcp" => format!("tcp://127.0.0.1:{}", free_port()),
    "ipc" => format!("ipc:///var/tmp/vh_{}_{}_{}.sock", tag, std::process::id(), n),
    "inproc" => format!("inproc://{}_{}_{}", tag, std::process::id(), n),
    other => panic!("transport {other}"),
  }
}

// ------------------------------------------------------------------ (A) coordinator

const GRID: u64 = 40; // ms

/// ops: [0] initiate, [1] tick, [2,p] force phase, [3] start_linger, [4] check, [5] advance,
///      [6,l] set LINGER (ms, 4294967295 = -1), [7,i,b] pipe i non-empty/empty, [8,i] remove pipe i,
///      [9,k] wait until grid slot k (absolute: t0 + 20 ms + 40 ms * k), [10] clear deadline
/// row per op: [op, phase, deadline: 0 none / 1 + slot, is_running, pipes_left, result]
async fn coord_once(c: &Value) -> Option<Vec<Vec<u64>>> {
  let ctx = Context::new().expect("ctx");
  let lin = |v: u64| if v == 4294967295 { -1i64 } else { v as i64 };
  let mut v = VShutdown::new(&ctx, lin(c["linger"].as_u64().unwrap()), c["pipes"].as_u64().unwrap() as usize);
  let t0 = Instant::now();
  let mut slot = 0u64;
  let mut rows = Vec::new();
  let mut stable = true;
  // the first op happens at slot 0
  tokio::time::sleep_until((t0 + Duration::from_millis(GRID / 2)).into()).await;
  for op in c["ops"].as_array().unwrap() {
    let o: Vec<u64> = op.as_array().unwrap().iter().map(|x| x.as_u64().unwrap()).collect();
    let before = t0.elapsed().as_millis() as i64;
    let mut res = 0u64;
    match o[0] {
      0 => v.initiate().await,
      1 => res = v.tick().await as u64,
      2 => v.force_phase(o[1] as u8).await,
      3 => v.start_linger().await,
      4 => res = v.check().await as u64,
      5 => v.advance().await,
      6 => v.set_linger(lin(o[1])),
      7 => v.set_pipe(o[1] as usize, o[2] != 0),
      8 => v.remove_pipe(o[1] as usize),
      9 => {
        slot = o[1];
        tokio::time::sleep_until((t0 + Duration::from_millis(GRID / 2 + GRID * slot)).into()).await;
      }
      10 => v.clear_deadline().await,
      _ => {}
    }
    let after = t0.elapsed().as_millis() as i64;
    // every clock read of this op must lie strictly inside the slot
    let lo = (GRID * slot) as i64 + 4;
    let hi = (GRID * (slot + 1)) as i64 - 4;
    let check_before = if o[0] == 9 { after } else { before };
    if check_before < lo || after > hi {
      stable = false;
    }
    let dl = match v.deadline().await {
      None => 0,
      Some(d) => 1 + (d.saturating_duration_since(t0).as_millis() as u64) / GRID,
    };
    rows.push(vec![o[0], v.phase().await as u64, dl, v.is_running() as u64, v.pipes_left() as u64, res]);
  }
  let _ = timeout(Duration::from_secs(2), ctx.term()).await;
  if stable {
    Some(rows)
  } else {
    None
  }
}

async fn coord(c: &Value) -> Value {
  for _ in 0..4 {
    if let Some(rows) = coord_once(c).await {
      return json!({ "rows": rows });
    }
  }
  json!({"rows": [[97]], "unstable": true})
}

// ------------------------------------------------------------------ (D) linger scenarios

/// one received message -> (seq, intact)
fn check_msg(d: &[u8], want_len: usize) -> (u64, bool) {
  if d.len() < 16 {
    return (u64::MAX, false);
  }
  let seq = u32::from_be_bytes([d[4], d[5], d[6], d[7]]) as u64;
  let len = u32::from_be_bytes([d[8], d[9], d[10], d[11]]) as usize;
  let sum = u32::from_be_bytes([d[12], d[13], d[14], d[15]]) as u64;
  let ok = len == d.len() && d.len() == want_len && sum == (adler(&d[16..]) & 0xffff_ffff);
  (seq, ok)
}

/// case: tr, linger (ms, -1 infinite), n, size, sndhwm, rcvhwm, pace_us (receiver delay per message),
///       stall_ms (receiver does not read before this long after the sender started closing),
///       mode: "close" | "term" | "close_term" | "drop_term", idle_ms (receiver gives up after this idle time)
/// row: [accepted, received, intact, in_order_prefix, close_ms, term_ms, actors_left, done_ms]
async fn linger(c: &Value) -> Value {
  let tr = c["tr"].as_str().unwrap();
  let n = c["n"].as_u64().unwrap();
  let size = c["size"].as_u64().unwrap();
  let mode = c["mode"].as_str().unwrap().to_string();
  let pace = Duration::from_micros(c["pace_us"].as_u64().unwrap_or(0));
  let stall = Duration::from_millis(c["stall_ms"].as_u64().unwrap_or(0));
  let idle = Duration::from_millis(c["idle_ms"].as_u64().unwrap_or(700));
  let ctx_s = Context::new().expect("ctx");
  // inproc endpoints live in one context
  let ctx_r = if tr == "inproc" { ctx_s.clone() } else { Context::new().expect("ctx") };
  let push = ctx_s.socket(SocketType::Push).expect("push");
  let pull = ctx_r.socket(SocketType::Pull).expect("pull");
  apply_opts(&push, &json!({"LINGER": c["linger"], "SNDHWM": c["sndhwm"], "SNDTIMEO": c.get("sndtimeo").cloned().unwrap_or(json!(200))})).await;
  apply_opts(&pull, &json!({"LINGER": 0, "RCVHWM": c["rcvhwm"]})).await;
  let ep = endpoint(tr, "c15");
  pull.bind(&ep).await.expect("bind");
  sleep(Duration::from_millis(30)).await;
  push.connect(&ep).await.expect("connect");
  // warm-up: the connection is up when one message got through (seq 4294967294, not counted)
  let warm = payload(7, 4294967294, 32);
  let mut up = false;
  for _ in 0..50 {
    if let Ok(Ok(())) = timeout(Duration::from_millis(300), push.send(Msg::from_vec(warm.clone()))).await {
      if let Ok(Ok(_)) = timeout(Duration::from_millis(1500), pull.recv()).await {
        up = true;
        break;
      }
    }
    sleep(Duration::from_millis(50)).await;
  }
  if !up {
    return json!({"rows": [[95]], "detail": "setup: connection never came up"});
  }
  // receiver task
  let (go_tx, go_rx) = tokio::sync::oneshot::channel::<Instant>();
  let size_us = size as usize;
  let rx_task = tokio::spawn(async move {
    let mut received = 0u64;
    let mut bad: Vec<Vec<u64>> = Vec::new();
    let mut intact = 0u64;
    let mut prefix = true;
    let mut last_at = Instant::now();
    let mut closing_at: Option<Instant> = None;
    let mut go_rx = Some(go_rx);
    if !stall.is_zero() {
      // stalled peer: do not read at all until `stall` after the sender started closing
      if let Some(rx) = go_rx.take() {
        if let Ok(t) = rx.await {
          closing_at = Some(t);
          tokio::time::sleep_until((t + stall).into()).await;
        }
      }
    }
    loop {
      if !pace.is_zero() {
        sleep(pace).await;
      }
      match timeout(idle, pull.recv()).await {
        Ok(Ok(m)) => {
          let d = m.data().unwrap_or(&[]);
          let (seq, ok) = check_msg(d, size_us);
          if seq == 4294967294 && d.len() == 32 {
            continue; // a repeated warm-up message
          }
          if seq != received {
            prefix = false;
          }
          if (!ok || seq != received) && bad.len() < 6 {
            let mut r = vec![received, d.len() as u64, seq, ok as u64];
            r.extend(d.iter().take(20).map(|&x| x as u64));
            bad.push(r);
          }
          received += 1;
          intact += ok as u64;
          last_at = Instant::now();
        }
        Ok(Err(_)) => break,
        Err(_) => {
          // idle: stop only once the sender has started closing
          if closing_at.is_none() {
            if let Some(rx) = go_rx.as_mut() {
              if let Ok(t) = rx.try_recv() {
                closing_at = Some(t);
              }
            }
          }
          if closing_at.is_some() {
            break;
          }
        }
      }
    }
    let _ = timeout(Duration::from_secs(2), pull.close()).await;
    (received, intact, prefix, last_at, bad)
  });
  // sender: queue n messages as fast as send() accepts them
  let mut accepted = 0u64;
  for seq in 0..n {
    match timeout(Duration::from_secs(5), push.send(Msg::from_vec(payload(7, accepted, size)))).await {
      Ok(Ok(())) => accepted += 1,
      _ => {
        let _ = seq;
        break;
      }
    }
  }
  let hold = c.get("hold_ms").and_then(|v| v.as_u64()).unwrap_or(0);
  if hold > 0 {
    sleep(Duration::from_millis(hold)).await;
  }
  let t0 = Instant::now();
  let _ = go_tx.send(t0);
  let mut close_ms = 0u64;
  let mut term_ms = 0u64;
  let mut close_timeout = false;
  let cap = Duration::from_millis(c.get("cap_ms").and_then(|v| v.as_u64()).unwrap_or(15000));
  if mode == "close" || mode == "close_term" {
    if timeout(cap, push.close()).await.is_err() {
      close_timeout = true;
    }
    close_ms = t0.elapsed().as_millis() as u64;
  }
  if mode == "drop_term" {
    drop(push);
  }
  let mut actors_left = 0u64;
  if mode != "close" && tr != "inproc" {
    let t1 = Instant::now();
    if timeout(cap, ctx_s.term()).await.is_err() {
      close_timeout = true;
    }
    term_ms = t1.elapsed().as_millis() as u64;
    actors_left = ctx_s.verif_live_actor_count() as u64;
  }
  let (received, intact, prefix, last_at, bad) = rx_task.await.unwrap_or((0, 0, false, Instant::now(), Vec::new()));
  let done_ms = last_at.saturating_duration_since(t0).as_millis() as u64;
  if mode == "close" || tr == "inproc" {
    // the sender's socket core finishes in the background; give the context a chance to end cleanly
    let _ = timeout(Duration::from_secs(12), ctx_s.term()).await;
  }
  if tr != "inproc" {
    let _ = timeout(Duration::from_secs(3), ctx_r.term()).await;
  }
  if tr == "ipc" {
    let _ = std::fs::remove_file(ep.trim_start_matches("ipc://"));
  }
  json!({"rows": [[accepted, received, intact, prefix as u64, close_ms, term_ms, actors_left, done_ms]],
         "close_timeout": close_timeout, "bad": bad})
}

pub fn run_case(c: &Value) -> Value {
  let threads = c.get("threads").and_then(|v| v.as_u64()).unwrap_or(2) as usize;
  let rt = if threads <= 1 {
    tokio::runtime::Builder::new_current_thread().enable_all().build().unwrap()
  } else {
    tokio::runtime::Builder::new_multi_thread().worker_threads(threads).enable_all().build().unwrap()
  };
  let kind = c["k"].as_str().unwrap().to_string();
  let c2 = c.clone();
  let res = std::panic::catch_unwind(std::panic::AssertUnwindSafe(|| {
    rt.block_on(async move {
      let fut = async {
        match kind.as_str() {
          "coord" => coord(&c2).await,
          "linger" => linger(&c2).await,
          other => json!({"rows": [[99]], "detail": format!("unknown kind {other}")}),
        }
      };
      match timeout(Duration::from_secs(60), fut).await {
        Ok(v) => v,
        Err(_) => json!({"rows": [[97]], "scenario_timeout": true}),
      }
    })
  }));
  rt.shutdown_timeout(Duration::from_millis(300));
  match res {
    Ok(v) => v,
    Err(_) => json!({"rows": [[96]], "harness_panic": true}),
  }
}
