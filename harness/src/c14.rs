//! C14: high-water marks bound buffering; SNDTIMEO / RCVTIMEO mean what they say.
//!  * `iface` (kind A): the real ISocketConnection objects (ScaConnectionIface, DirectInprocConnection,
//!    ZmtpSmartConnection) over a bounded pipe whose receiver we keep, driven under a PAUSED tokio
//!    clock: answer, virtual elapsed ms, how often the message ended up on the pipe, what came back.
//!  * `recv`  (kind A): AnonymousIngressEngine / AddressedIngressEngine recv paths under a paused clock.
//!  * `send_hwm` / `recv_idle` (kind D): real sockets at their high-water mark, wall-clock times.
//!  * `calib`: how many bytes the kernel takes on a loopback TCP connection nobody reads.
use crate::stack::{apply_opts, free_port, stype_of};
use crate::util::*;
use rzmq::socket::options as opt;
use rzmq::{Context, Msg, Socket, ZmqError};
use serde_json::{json, Value};
use std::sync::atomic::{AtomicU64, Ordering};
use std::sync::Arc;
use std::time::{Duration, Instant};

static EP_CTR: AtomicU64 = AtomicU64::new(0);

fn timeo_of(v: &Value) -> Option<Duration> {
  let x = v.as_i64().unwrap();
  if x < 0 {
    None
  } else {
    Some(Duration::from_millis(x as u64))
  }
}

fn opt_u64(c: &Value, k: &str) -> Option<u64> {
  c.get(k).and_then(|v| v.as_u64())
}

// ---------------------------------------------------------------- kind A: send paths, paused clock

/// rows: [[answer, elapsed_ms, copies_on_pipe, back]]
///   answer: 0 Ok, 1 WouldBlock, 2 Timeout, 3 Closed, 4 other, 9 never returned within the horizon
///   back:   0 nothing, 1 empty batch, 2 the batch itself, 3 some other batch
fn iface_case(c: &Value) -> Value {
  use rzmq::verif::hwm::{new_pipe, VAnswer, VBack, VKind, VMethod};
  let kind = match c["kind"].as_str().unwrap() {
    "sca" => VKind::Sca,
    "inproc" => VKind::Inproc,
    "uring" => VKind::Uring,
    o => panic!("kind {o}"),
  };
  let method = match c["method"].as_str().unwrap() {
    "message" => VMethod::Message,
    "multipart" => VMethod::Multipart,
    "owned" => VMethod::Owned,
    "sync" => VMethod::Sync,
    o => panic!("method {o}"),
  };
  let cap = u(c, "cap") as usize;
  let sndtimeo = timeo_of(&c["sndtimeo"]);
  let fill_n = c["fill"].as_u64(); // None => fill to the brim
  let closed0 = b(c, "closed0");
  let pop_at = opt_u64(c, "pop_at");
  let close_at = opt_u64(c, "close_at");
  let horizon = opt_u64(c, "horizon").unwrap_or(400_000);
  let pop_n = opt_u64(c, "pop_n");
  const ID: u64 = 7_000_007;

  let rt = tokio::runtime::Builder::new_current_thread().enable_all().start_paused(true).build().unwrap();
  let out = rt.block_on(async move {
    let (tx, mut rx) = match new_pipe(kind, cap, sndtimeo) {
      Ok(p) => p,
      Err(e) => return json!({"rows": [[92]], "detail": e}),
    };
    let real_cap = rx.capacity();
    // prefill through the synchronous fast path (always try_send)
    let want = fill_n.map(|n| n as usize).unwrap_or(usize::MAX);
    let mut filled = 0usize;
    while filled < want {
      let (a, _) = tx.send(VMethod::Sync, 1000 + filled as u64).await;
      if a != VAnswer::Ok {
        break;
      }
      filled += 1;
    }
    if closed0 {
      rx.close();
    }
    let t0 = tokio::time::Instant::now();
    let txc = tx.clone();
    let mut h = tokio::spawn(async move {
      let s = tokio::time::Instant::now();
      let (a, bk) = txc.send(method, ID).await;
      (a, bk, s.elapsed().as_millis() as u64)
    });
    // consumer script
    let mut evs: Vec<(u64, u8)> = Vec::new();
    if let Some(t) = pop_at {
      evs.push((t, 0));
    }
    if let Some(t) = close_at {
      evs.push((t, 1));
    }
    evs.sort();
    let mut popped: Vec<u64> = Vec::new();
    for (t, what) in evs {
      tokio::time::sleep_until(t0 + Duration::from_millis(t)).await;
      if what == 0 {
        // the consumer takes `pop_n` batches (default: everything queued). fibre recycles the
        // slots of a bounded channel chunk-wise, so room for the sender appears only once a whole
        // chunk has been consumed; draining everything always makes room.
        let n = pop_n.unwrap_or(u64::MAX);
        let mut k = 0u64;
        while k < n {
          match rx.pop() {
            Some(id) => popped.push(id),
            None => break,
          }
          k += 1;
        }
      } else {
        rx.close();
      }
    }
    let res = tokio::time::timeout_at(t0 + Duration::from_millis(horizon), &mut h).await;
    let (ans, back, ms) = match res {
      Ok(Ok((a, bk, ms))) => {
        let a = match a {
          VAnswer::Ok => 0,
          VAnswer::WouldBlock => 1,
          VAnswer::Timeout => 2,
          VAnswer::Closed => 3,
          VAnswer::Other(_) => 4,
        };
        let bk = match bk {
          VBack::Nothing => 0,
          VBack::Empty => 1,
          VBack::Batch(id) if id == ID => 2,
          VBack::Batch(_) => 3,
        };
        (a, bk, ms)
      }
      Ok(Err(_)) => (8, 0, 0),
      Err(_) => {
        h.abort();
        let _ = (&mut h).await;
        (9, 0, 0)
      }
    };
    // how many copies of our message are on the pipe now
    while let Some(id) = rx.pop() {
      popped.push(id);
    }
    let copies = popped.iter().filter(|&&x| x == ID).count() as u64;
    json!({"rows": [[ans, ms, copies, back]], "filled": filled, "real_cap": real_cap})
  });
  out
}

// ---------------------------------------------------------------- kind A: recv paths, paused clock

/// rows: [[answer, elapsed_ms, popped_from_queue, returned_id]]  (returned_id = id+1 of the frame/batch, 0 none)
fn recv_case(c: &Value) -> Value {
  use rzmq::verif::ingress::{VAddrIngress, VAnonIngress};
  let eng = c["eng"].as_str().unwrap().to_string();
  let rcvtimeo = timeo_of(&c["rcvtimeo"]);
  let pre = b(c, "pre");
  let queued = u(c, "queued");
  let push_at = opt_u64(c, "push_at");
  let close_at = opt_u64(c, "close_at");
  let horizon = opt_u64(c, "horizon").unwrap_or(400_000);

  fn mk(id: u64, frames: usize) -> rzmq::message::FrameBatch {
    let mut fb = rzmq::message::FrameBatch::new();
    for k in 0..frames {
      let mut m = Msg::from_vec(id.to_le_bytes().to_vec());
      if k + 1 < frames {
        m.set_flags(rzmq::MsgFlags::MORE);
      }
      fb.push(m);
    }
    fb
  }
  fn id_of(d: Option<&[u8]>) -> u64 {
    match d {
      Some(d) if d.len() >= 8 => {
        let mut a = [0u8; 8];
        a.copy_from_slice(&d[..8]);
        u64::from_le_bytes(a) + 1
      }
      _ => 0,
    }
  }

  let rt = tokio::runtime::Builder::new_current_thread().enable_all().start_paused(true).build().unwrap();
  rt.block_on(async move {
    enum E {
      Anon(Arc<VAnonIngress>),
      Addr(Arc<VAddrIngress>),
    }
    let (e, sender) = if eng == "addr" {
      let e = Arc::new(VAddrIngress::new(8));
      let s = e.register_pipe(5, 16, 4);
      (E::Addr(e), s)
    } else {
      let e = Arc::new(VAnonIngress::new(8));
      let s = e.register_pipe(5, 16, 4);
      (E::Anon(e), s)
    };
    let mut sender = Some(sender);
    macro_rules! snd { () => { sender.as_ref().unwrap() }; }
    if pre {
      // a two-frame message of which one frame is taken: the rest sits in the cache
      if let E::Anon(a) = &e {
        assert_eq!(snd!().try_send_sync(mk(500, 2)), 0);
        let _ = a.recv(Some(Duration::ZERO)).await;
      }
    }
    for i in 0..queued {
      assert_eq!(snd!().try_send_sync(mk(100 + i, 1)), 0);
    }
    let len_before = snd!().len() as u64;
    let t0 = tokio::time::Instant::now();
    let eng2 = eng.clone();
    let ec = match &e {
      E::Anon(a) => E::Anon(a.clone()),
      E::Addr(a) => E::Addr(a.clone()),
    };
    let mut h = tokio::spawn(async move {
      let s = tokio::time::Instant::now();
      let r: Result<u64, ZmqError> = match (&ec, eng2.as_str()) {
        (E::Anon(a), "anon") => a.recv(rcvtimeo).await.map(|m| id_of(m.data())),
        (E::Anon(a), _) => a.recv_multipart(rcvtimeo).await.map(|b| id_of(b.first().and_then(|m| m.data()))),
        (E::Addr(a), _) => a.recv_logical_message(rcvtimeo).await.map(|(_, b)| id_of(b.first().and_then(|m| m.data()))),
      };
      (r, s.elapsed().as_millis() as u64)
    });
    let mut evs: Vec<(u64, u8)> = Vec::new();
    if let Some(t) = push_at {
      evs.push((t, 0));
    }
    if let Some(t) = close_at {
      evs.push((t, 1));
    }
    evs.sort();
    let mut pushed = 0u64;
    let mut len_at_close: Option<u64> = None;
    for (t, what) in evs {
      tokio::time::sleep_until(t0 + Duration::from_millis(t)).await;
      if what == 0 {
        if let Some(s) = sender.as_ref() {
          if s.try_send_sync(mk(300, 1)) == 0 {
            pushed += 1;
          }
        }
      } else {
        // socket close: the engine is closed and the connection's producer handle goes away
        len_at_close = sender.as_ref().map(|s| s.len() as u64);
        match &e {
          E::Anon(a) => a.close(),
          E::Addr(a) => a.close(),
        }
        sender = None;
      }
    }
    let res = tokio::time::timeout_at(t0 + Duration::from_millis(horizon), &mut h).await;
    let (ans, ms, rid) = match res {
      Ok(Ok((Ok(id), ms))) => (0, ms, id),
      Ok(Ok((Err(ZmqError::ResourceLimitReached), ms))) => (1, ms, 0),
      Ok(Ok((Err(ZmqError::Timeout), ms))) => (2, ms, 0),
      Ok(Ok((Err(ZmqError::InvalidState(_)), ms))) => (3, ms, 0),
      Ok(Ok((Err(_), ms))) => (4, ms, 0),
      Ok(Err(_)) => (8, 0, 0),
      Err(_) => {
        h.abort();
        let _ = (&mut h).await;
        (9, 0, 0)
      }
    };
    // after a close the queue is gone; what matters is what the call took before that
    let len_after = sender.as_ref().map(|s| s.len() as u64).or(len_at_close).unwrap_or(0);
    let popped = (len_before + pushed).saturating_sub(len_after);
    json!({"rows": [[ans, ms, popped, rid]]})
  })
}

// ---------------------------------------------------------------- kind D: real sockets

fn endpoint(tr: &str) -> String {
  let n = EP_CTR.fetch_add(1, Ordering::Relaxed);
  match tr {
    "tcp" => format!("tcp://127.0.0.1:{}", free_port()),
    "inproc" => format!("inproc://c14_{}_{}", std::process::id(), n),
    other => panic!("transport {other}"),
  }
}

fn class_of(e: &ZmqError) -> u64 {
  match e {
    ZmqError::ResourceLimitReached => 1,
    ZmqError::Timeout => 2,
    ZmqError::ConnectionClosed => 3,
    _ => 4,
  }
}

/// payload: 8 bytes seq (LE) + filler up to `len`
fn payload(seq: u64, len: usize) -> Vec<u8> {
  let mut v = vec![0xA5u8; len.max(8)];
  v[..8].copy_from_slice(&seq.to_le_bytes());
  v
}
fn seq_of(frames: &[Msg]) -> u64 {
  let d = frames.last().and_then(|m| m.data()).unwrap_or(&[]);
  if d.len() < 8 {
    return u64::MAX;
  }
  let mut a = [0u8; 8];
  a.copy_from_slice(&d[..8]);
  u64::from_le_bytes(a)
}

async fn set_i32(s: &Socket, id: i32, v: i32) {
  s.set_option_raw(id, &v.to_ne_bytes()).await.expect("set option");
}

struct Pair {
  ep: String,
  ctx: Context,
  ctx2: Option<Context>,
  sender: Socket,
  receiver: Socket,
  is_router: bool,
  is_req: bool,
}

/// sender socket with `sopts`, receiver with `ropts`; receiver binds. Waits until a first probe
/// message (seq = u64::MAX - 1, 8 bytes) went through, so that the connection is fully attached
/// (and ROUTER knows the DEALER's identity).
async fn make_pair(pat: &str, tr: &str, sopts: &Value, ropts: &Value) -> Result<Pair, String> {
  let (st, rt_) = match pat {
    "PUSH_PULL" => ("PUSH", "PULL"),
    "DEALER_ROUTER" => ("DEALER", "ROUTER"),
    "DEALER_DEALER" => ("DEALER", "DEALER"),
    "ROUTER_DEALER" => ("ROUTER", "DEALER"),
    "REQ_REP" => ("REQ", "REP"),
    "PUB_SUB" => ("PUB", "SUB"),
    other => return Err(format!("pattern {other}")),
  };
  let ctx = Context::new().map_err(|e| e.to_string())?;
  let ctx2 = if tr == "inproc" { None } else { Some(Context::new().map_err(|e| e.to_string())?) };
  let sender = ctx.socket(stype_of(st)).map_err(|e| e.to_string())?;
  let receiver = ctx2.as_ref().unwrap_or(&ctx).socket(stype_of(rt_)).map_err(|e| e.to_string())?;
  // the options under test are applied BEFORE bind/connect, as an application would: the
  // connection object snapshots SNDTIMEO when it is created, SO_SNDBUF/SO_RCVBUF are set on connect
  apply_opts(&sender, &filter_opts(sopts)).await;
  apply_opts(&receiver, &filter_opts(ropts)).await;
  apply_bufs(&sender, sopts).await;
  apply_bufs(&receiver, ropts).await;
  let is_router = pat == "ROUTER_DEALER";
  let is_req = pat == "REQ_REP";
  if is_router {
    set_i32(&sender, opt::ROUTER_MANDATORY, 1).await;
    receiver.set_option_raw(opt::ROUTING_ID, b"D1").await.map_err(|e| e.to_string())?;
  }
  if pat == "PUB_SUB" {
    receiver.set_option_raw(opt::SUBSCRIBE, b"").await.map_err(|e| e.to_string())?;
  }
  let mut ep = endpoint(tr);
  let mut bound = false;
  for _ in 0..8 {
    if receiver.bind(&ep).await.is_ok() {
      bound = true;
      break;
    }
    tokio::time::sleep(Duration::from_millis(20)).await;
    ep = endpoint(tr);
  }
  if !bound {
    return Err("bind failed".into());
  }
  sender.connect(&ep).await.map_err(|e| format!("connect: {e}"))?;
  Ok(Pair { ep, ctx, ctx2, sender, receiver, is_router, is_req })
}

fn filter_opts(o: &Value) -> Value {
  // options understood by apply_opts only (SNDBUF / RCVBUF are applied separately)
  let mut m = serde_json::Map::new();
  if let Some(o) = o.as_object() {
    for (k, v) in o {
      if k != "SNDBUF" && k != "RCVBUF" {
        m.insert(k.clone(), v.clone());
      }
    }
  }
  Value::Object(m)
}

async fn apply_bufs(s: &Socket, o: &Value) {
  if let Some(v) = o.get("SNDBUF").and_then(|v| v.as_i64()) {
    set_i32(s, opt::SNDBUF, v as i32).await;
  }
  if let Some(v) = o.get("RCVBUF").and_then(|v| v.as_i64()) {
    set_i32(s, opt::RCVBUF, v as i32).await;
  }
}

async fn send_seq(p: &Pair, seq: u64, len: usize) -> Result<(), ZmqError> {
  if p.is_router {
    p.sender.send_multipart(vec![Msg::from_vec(b"D1".to_vec()), Msg::from_vec(payload(seq, len))]).await
  } else {
    p.sender.send(Msg::from_vec(payload(seq, len))).await
  }
}

async fn close_pair(p: Pair) {
  let _ = tokio::time::timeout(Duration::from_secs(3), p.sender.close()).await;
  let _ = tokio::time::timeout(Duration::from_secs(3), p.receiver.close()).await;
  let _ = tokio::time::timeout(Duration::from_secs(5), p.ctx.term()).await;
  if let Some(c2) = p.ctx2 {
    let _ = tokio::time::timeout(Duration::from_secs(5), c2.term()).await;
  }
}

const PROBE: u64 = u64::MAX - 1;

/// Sender at its high-water mark.
/// case: pat, tr, sopts (SNDHWM, SNDTIMEO, SNDBUF, ...), ropts (RCVHWM, RCVBUF, ...), mode
/// ("never" | "slow" | "fast"), len, nmax, slow_ms.
/// obs: accepted (seqs), failures [(seq, class, elapsed_us)], blocked (seq, waited_ms, resumed
/// class, resumed after ms), delivered (seqs in order), max_outstanding, rows [[first failure class | 5 blocked | 0 none]]
async fn send_hwm(c: &Value) -> Value {
  let pat = c["pat"].as_str().unwrap();
  let tr = c["tr"].as_str().unwrap();
  let mode = c["mode"].as_str().unwrap().to_string();
  let len = u(c, "len") as usize;
  let nmax = u(c, "nmax");
  let slow_ms = opt_u64(c, "slow_ms").unwrap_or(25);
  let block_ms = opt_u64(c, "block_ms").unwrap_or(900);
  // `late_sopts`: options the application sets AFTER the connection exists (they are what it expects to hold now)
  let late = c.get("late_sopts").cloned().unwrap_or(Value::Null);
  let sndtimeo = late.get("SNDTIMEO").and_then(|v| v.as_i64()).unwrap_or_else(|| c["sopts"]["SNDTIMEO"].as_i64().unwrap_or(-1));
  let budget = Duration::from_millis(opt_u64(c, "budget_ms").unwrap_or(6000));

  let p = match make_pair(pat, tr, &c["sopts"], &c["ropts"]).await {
    Ok(p) => p,
    Err(e) => return json!({"rows": [[94]], "detail": e}),
  };

  // ---- probe: get one small message through (retrying refusals while the handshake runs)
  let mut probe_ok = false;
  let t_probe = Instant::now();
  while t_probe.elapsed() < Duration::from_secs(5) {
    let r = tokio::time::timeout(Duration::from_millis(1500), send_seq(&p, PROBE, 8)).await;
    if let Ok(Ok(())) = r {
      probe_ok = true;
      break;
    }
    tokio::time::sleep(Duration::from_millis(20)).await;
  }
  if !probe_ok {
    close_pair(p).await;
    return json!({"rows": [[94]], "detail": "probe send failed"});
  }
  let mut got_probe = false;
  for _ in 0..3 {
    match tokio::time::timeout(Duration::from_secs(3), p.receiver.recv_multipart()).await {
      Ok(Ok(f)) if seq_of(&f) == PROBE => {
        got_probe = true;
        break;
      }
      Ok(Ok(_)) => continue,
      _ => break,
    }
  }
  if !got_probe {
    close_pair(p).await;
    return json!({"rows": [[94]], "detail": "probe not delivered"});
  }
  if p.is_req {
    // REP answers the probe so that REQ may send again
    let _ = p.receiver.send(Msg::from_vec(vec![1])).await;
    let _ = tokio::time::timeout(Duration::from_secs(2), p.sender.recv()).await;
  }

  if late.is_object() {
    apply_opts(&p.sender, &filter_opts(&late)).await;
  }
  let delivered: Arc<std::sync::Mutex<Vec<u64>>> = Arc::new(std::sync::Mutex::new(Vec::new()));
  let delivered_n = Arc::new(AtomicU64::new(0));
  let drain_on = Arc::new(std::sync::atomic::AtomicBool::new(mode != "never"));
  let stop = Arc::new(std::sync::atomic::AtomicBool::new(false));
  let receiver = p.receiver.clone();
  let (d2, dn2, on2, stop2, mode2) = (delivered.clone(), delivered_n.clone(), drain_on.clone(), stop.clone(), mode.clone());
  let is_req2 = p.is_req;
  let rtask = tokio::spawn(async move {
    let mut idle_since: Option<Instant> = None;
    loop {
      if !on2.load(Ordering::SeqCst) {
        if stop2.load(Ordering::SeqCst) {
          break;
        }
        tokio::time::sleep(Duration::from_millis(5)).await;
        continue;
      }
      match tokio::time::timeout(Duration::from_millis(150), receiver.recv_multipart()).await {
        Ok(Ok(f)) => {
          idle_since = None;
          d2.lock().unwrap().push(seq_of(&f));
          dn2.fetch_add(1, Ordering::SeqCst);
          if is_req2 {
            // REP must answer before it may read the next request
            let _ = tokio::time::timeout(Duration::from_millis(300), receiver.send(Msg::from_vec(vec![1]))).await;
          }
          if mode2 == "slow" && !stop2.load(Ordering::SeqCst) {
            tokio::time::sleep(Duration::from_millis(slow_ms)).await;
          }
        }
        Ok(Err(_)) => {
          // an immediate refusal (e.g. REP that has not replied yet) must not turn into a spin
          tokio::time::sleep(Duration::from_millis(5)).await;
          if stop2.load(Ordering::SeqCst) {
            let s = *idle_since.get_or_insert_with(Instant::now);
            if s.elapsed() > Duration::from_millis(500) {
              break;
            }
          }
        }
        Err(_) => {
          if stop2.load(Ordering::SeqCst) {
            let s = *idle_since.get_or_insert_with(Instant::now);
            if s.elapsed() > Duration::from_millis(500) {
              break;
            }
          }
        }
      }
    }
  });

  let mut accepted: Vec<u64> = Vec::new();
  let mut failures: Vec<Vec<u64>> = Vec::new();
  let mut blocked: Vec<u64> = Vec::new(); // [seq, waited_ms, resumed_class, resumed_after_ms]
  let mut max_out = 0u64;
  let mut hang = false;
  let t_start = Instant::now();
  let mut seq = 0u64;
  while seq < nmax && t_start.elapsed() < budget {
    if p.is_req && seq > 0 {
      // REQ must recv() between sends; a timed-out recv() puts it back into the sending state
      let _ = tokio::time::timeout(Duration::from_millis(500), p.sender.recv()).await;
    }
    let t0 = Instant::now();
    let fut = send_seq(&p, seq, len);
    tokio::pin!(fut);
    let wait = if sndtimeo < 0 { Duration::from_millis(block_ms) } else { Duration::from_millis(sndtimeo as u64 + 3000) };
    match tokio::time::timeout(wait, &mut fut).await {
      Ok(Ok(())) => {
        accepted.push(seq);
        let out = accepted.len() as u64 - delivered_n.load(Ordering::SeqCst).min(accepted.len() as u64);
        max_out = max_out.max(out);
      }
      Ok(Err(e)) => {
        failures.push(vec![seq, class_of(&e), t0.elapsed().as_micros() as u64]);
        if mode == "never" || failures.len() >= 6 {
          break;
        }
      }
      Err(_) => {
        if sndtimeo < 0 {
          // -1: the call is waiting. Let the peer drain and see it complete.
          let waited = t0.elapsed().as_millis() as u64;
          drain_on.store(true, Ordering::SeqCst);
          let t1 = Instant::now();
          let r = tokio::time::timeout(Duration::from_secs(8), &mut fut).await;
          let (cls, after) = match r {
            Ok(Ok(())) => {
              accepted.push(seq);
              (0, t1.elapsed().as_millis() as u64)
            }
            Ok(Err(e)) => (class_of(&e), t1.elapsed().as_millis() as u64),
            Err(_) => (9, 8000),
          };
          blocked = vec![seq, waited, cls, after];
          break;
        } else {
          hang = true;
          failures.push(vec![seq, 9, t0.elapsed().as_micros() as u64]);
          break;
        }
      }
    }
    seq += 1;
  }
  // drain everything that was accepted
  drain_on.store(true, Ordering::SeqCst);
  stop.store(true, Ordering::SeqCst);
  let _ = tokio::time::timeout(Duration::from_secs(20), rtask).await;
  let deliv = delivered.lock().unwrap().clone();
  close_pair(p).await;
  let first = if !blocked.is_empty() {
    5
  } else if let Some(f) = failures.first() {
    f[1]
  } else {
    0
  };
  json!({"rows": [[first]], "accepted": accepted.len(), "accepted_last": accepted.last().copied().unwrap_or(0),
         "accepted_seqs": accepted, "failures": failures, "blocked": blocked, "delivered": deliv,
         "max_outstanding": max_out, "hang": hang})
}

/// Receiver with nothing queued. case: pat (sender type irrelevant, it stays silent), tr, ropts
/// (RCVTIMEO, RCVHWM), push_after_ms (optional: the peer sends one message that long after recv started).
/// obs rows: [[class | 5 blocked]], elapsed_us, then two messages are sent and must arrive in order.
async fn recv_idle(c: &Value) -> Value {
  let pat = c["pat"].as_str().unwrap();
  let tr = c["tr"].as_str().unwrap();
  let rcvtimeo = c["ropts"]["RCVTIMEO"].as_i64().unwrap_or(-1);
  let block_ms = opt_u64(c, "block_ms").unwrap_or(900);
  let push_after = opt_u64(c, "push_after_ms");
  // the sender must not block on us
  let p = match make_pair(pat, tr, &c["sopts"], &c["ropts"]).await {
    Ok(p) => p,
    Err(e) => return json!({"rows": [[94]], "detail": e}),
  };
  // wait for the connection: probe until one arrives (PUB/SUB drops until subscribed)
  let mut ok = false;
  let t_probe = Instant::now();
  let saved = rcvtimeo;
  while t_probe.elapsed() < Duration::from_secs(6) && !ok {
    let _ = tokio::time::timeout(Duration::from_millis(500), send_seq(&p, PROBE, 8)).await;
    let t_in = Instant::now();
    while t_in.elapsed() < Duration::from_millis(300) {
      match tokio::time::timeout(Duration::from_millis(300), p.receiver.recv_multipart()).await {
        Ok(Ok(f)) if seq_of(&f) == PROBE => {
          ok = true;
          break;
        }
        Ok(Ok(_)) => {}
        Ok(Err(_)) => tokio::time::sleep(Duration::from_millis(10)).await,
        Err(_) => break,
      }
    }
  }
  if !ok {
    close_pair(p).await;
    return json!({"rows": [[94]], "detail": "probe not delivered"});
  }
  // swallow further probes that were in flight
  tokio::time::sleep(Duration::from_millis(150)).await;
  loop {
    set_i32(&p.receiver, opt::RCVTIMEO, 0).await;
    match p.receiver.recv_multipart().await {
      Ok(_) => continue,
      Err(_) => break,
    }
  }
  set_i32(&p.receiver, opt::RCVTIMEO, saved as i32).await;

  let sender = p.sender.clone();
  let is_router = p.is_router;
  let pusher = push_after.map(|ms| {
    tokio::spawn(async move {
      tokio::time::sleep(Duration::from_millis(ms)).await;
      let m = Msg::from_vec(payload(77, 8));
      if is_router {
        let _ = sender.send_multipart(vec![Msg::from_vec(b"D1".to_vec()), m]).await;
      } else {
        let _ = sender.send(m).await;
      }
    })
  });

  // optional churn: while the recv is pending, further (silent) peers of the sender's type connect every `churn_ms`
  let churner = opt_u64(c, "churn_ms").map(|ms| {
    let n = opt_u64(c, "churn_n").unwrap_or(10);
    let ctx = p.ctx.clone();
    let ep = p.ep.clone();
    let sty = pat.split('_').next().unwrap_or("PUSH").to_string();
    tokio::spawn(async move {
      let mut keep: Vec<Socket> = Vec::new();
      for _ in 0..n {
        tokio::time::sleep(Duration::from_millis(ms)).await;
        if let Ok(s) = ctx.socket(stype_of(&sty)) {
          let _ = s.connect(&ep).await;
          keep.push(s);
        }
      }
      tokio::time::sleep(Duration::from_millis(300)).await;
      for s in keep {
        let _ = tokio::time::timeout(Duration::from_secs(1), s.close()).await;
      }
    })
  });
  let t0 = Instant::now();
  let rcv_main = p.receiver.clone();
  let fut = rcv_main.recv_multipart();
  tokio::pin!(fut);
  let wait = if rcvtimeo < 0 { Duration::from_millis(block_ms) } else { Duration::from_millis(rcvtimeo as u64 + 3000) };
  let mut got: Vec<u64> = Vec::new();
  let (cls, el_us, blocked) = match tokio::time::timeout(wait, &mut fut).await {
    Ok(Ok(f)) => {
      got.push(seq_of(&f));
      (0u64, t0.elapsed().as_micros() as u64, vec![])
    }
    Ok(Err(e)) => {
      let k = match e {
        ZmqError::ResourceLimitReached => 1,
        ZmqError::Timeout => 2,
        ZmqError::ConnectionClosed => 3,
        _ => 4,
      };
      (k, t0.elapsed().as_micros() as u64, vec![])
    }
    Err(_) => {
      if rcvtimeo < 0 && push_after.is_none() {
        // waiting: now the peer sends and the very same call must return that message
        let waited = t0.elapsed().as_millis() as u64;
        let _ = tokio::time::timeout(Duration::from_secs(2), send_seq(&p, 1, 8)).await;
        let t1 = Instant::now();
        let r = tokio::time::timeout(Duration::from_secs(5), &mut fut).await;
        let c2 = match r {
          Ok(Ok(f)) => {
            got.push(seq_of(&f));
            0
          }
          Ok(Err(_)) => 4,
          Err(_) => 9,
        };
        (5, t0.elapsed().as_micros() as u64, vec![waited, c2, t1.elapsed().as_millis() as u64])
      } else {
        (9, t0.elapsed().as_micros() as u64, vec![])
      }
    }
  };
  if let Some(h) = pusher {
    let _ = h.await;
  }
  if let Some(h) = churner {
    let _ = h.await;
  }
  // nothing was lost by the refused recv: two further messages arrive, in order, and nothing else
  let _ = tokio::time::timeout(Duration::from_secs(2), send_seq(&p, 2, 8)).await;
  let _ = tokio::time::timeout(Duration::from_secs(2), send_seq(&p, 3, 8)).await;
  // patient: on a loaded machine delivery may take a while; stop once both arrived and nothing
  // else shows up for 300 ms
  set_i32(&p.receiver, opt::RCVTIMEO, 300).await;
  let t_after = Instant::now();
  let mut seen_after = 0;
  while t_after.elapsed() < Duration::from_secs(6) {
    match tokio::time::timeout(Duration::from_secs(2), p.receiver.recv_multipart()).await {
      Ok(Ok(f)) => {
        got.push(seq_of(&f));
        seen_after += 1;
      }
      _ => {
        if seen_after >= 2 {
          break;
        }
      }
    }
  }
  close_pair(p).await;
  json!({"rows": [[cls]], "elapsed_us": el_us, "blocked": blocked, "got": got})
}

/// How many bytes a loopback TCP connection swallows when nobody reads (kernel send + receive
/// buffers with the given SO_SNDBUF / SO_RCVBUF; 0 = leave the default / auto-tuning).
async fn calib(c: &Value) -> Value {
  use tokio::net::{TcpListener, TcpSocket};
  let sndbuf = opt_u64(c, "sndbuf").unwrap_or(0) as u32;
  let rcvbuf = opt_u64(c, "rcvbuf").unwrap_or(0) as u32;
  let lsock = TcpSocket::new_v4().unwrap();
  if rcvbuf > 0 {
    let _ = lsock.set_recv_buffer_size(rcvbuf);
  }
  lsock.bind("127.0.0.1:0".parse().unwrap()).unwrap();
  let listener: TcpListener = lsock.listen(8).unwrap();
  let addr = listener.local_addr().unwrap();
  let csock = TcpSocket::new_v4().unwrap();
  if sndbuf > 0 {
    let _ = csock.set_send_buffer_size(sndbuf);
  }
  let (conn, acc) = tokio::join!(csock.connect(addr), listener.accept());
  let stream = conn.unwrap();
  let (_peer, _) = acc.unwrap();
  let chunk = vec![0u8; 16384];
  let mut total = 0u64;
  let mut last_progress = Instant::now();
  loop {
    match stream.try_write(&chunk) {
      Ok(n) => {
        total += n as u64;
        last_progress = Instant::now();
      }
      Err(e) if e.kind() == std::io::ErrorKind::WouldBlock => {
        if last_progress.elapsed() > Duration::from_millis(300) {
          break;
        }
        tokio::time::sleep(Duration::from_millis(5)).await;
      }
      Err(_) => break,
    }
    if total > 256 * 1024 * 1024 {
      break;
    }
  }
  json!({"rows": [[total]], "bytes": total})
}


/// EXPERIMENT (not part of the C14 check; run by hand with `vh c14seq`): DEALER messages accepted
/// into pending_outgoing_queue before a peer exists, then handed out by DealerSocketOutgoingProcessor
/// while the only peer's pipe is full and SNDTIMEO is positive.
async fn dealer_proc(c: &Value) -> Value {
  let k = opt_u64(c, "pre").unwrap_or(5);
  let wakes = opt_u64(c, "wakes").unwrap_or(4);
  let len = opt_u64(c, "len").unwrap_or(65536) as usize;
  let ctx = Context::new().unwrap();
  let ctx2 = Context::new().unwrap();
  let dealer = ctx.socket(stype_of("DEALER")).unwrap();
  let router = ctx2.socket(stype_of("ROUTER")).unwrap();
  apply_opts(&dealer, &json!({"SNDHWM": 7, "SNDTIMEO": 100})).await;
  set_i32(&dealer, opt::SNDBUF, 65536).await;
  apply_opts(&router, &json!({"RCVHWM": 1})).await;
  set_i32(&router, opt::RCVBUF, 65536).await;
  let ep = endpoint("tcp");
  router.bind(&ep).await.unwrap();
  let mut pre_ok = Vec::new();
  for seq in 0..k {
    if dealer.send(Msg::from_vec(payload(seq, len))).await.is_ok() {
      pre_ok.push(seq);
    }
  }
  dealer.connect(&ep).await.unwrap();
  tokio::time::sleep(Duration::from_millis(400)).await;
  // flood until the first refusal: everything towards the silent ROUTER is full now
  let mut direct_ok = Vec::new();
  let mut seq = 1000u64;
  let mut refusals = 0;
  loop {
    match tokio::time::timeout(Duration::from_secs(3), dealer.send(Msg::from_vec(payload(seq, len)))).await {
      Ok(Ok(())) => {
        direct_ok.push(seq);
        refusals = 0;
      }
      _ => {
        refusals += 1;
        if refusals >= 4 {
          break;
        }
      }
    }
    seq += 1;
    if seq > 3000 {
      break;
    }
  }
  // wake the processor: connect() to an endpoint nobody listens on notifies peer_availability
  let dead = format!("tcp://127.0.0.1:{}", free_port());
  for _ in 0..wakes {
    let _ = dealer.connect(&dead).await;
    tokio::time::sleep(Duration::from_millis(350)).await;
  }
  // now the ROUTER reads everything
  let mut got = Vec::new();
  let mut empties = 0u64;
  let t = Instant::now();
  let mut idle = 0;
  while t.elapsed() < Duration::from_secs(20) && idle < 4 {
    match tokio::time::timeout(Duration::from_millis(500), router.recv_multipart()).await {
      Ok(Ok(f)) => {
        idle = 0;
        let s = seq_of(&f);
        if s == u64::MAX {
          empties += 1;
        } else {
          got.push(s);
        }
        // every further wake-up hands out one more queued message
        let _ = dealer.connect(&dead).await;
      }
      _ => {
        idle += 1;
        let _ = dealer.connect(&dead).await;
      }
    }
  }
  let lost_pre: Vec<u64> = pre_ok.iter().copied().filter(|x| !got.contains(x)).collect();
  let lost_direct: Vec<u64> = direct_ok.iter().copied().filter(|x| !got.contains(x)).collect();
  let _ = tokio::time::timeout(Duration::from_secs(3), dealer.close()).await;
  let _ = tokio::time::timeout(Duration::from_secs(3), router.close()).await;
  json!({"rows": [[lost_pre.len() as u64]], "pre_ok": pre_ok, "direct_ok": direct_ok.len(), "got": got.len(), "lost_pre": lost_pre,
         "lost_direct": lost_direct, "short_or_empty": empties})
}

pub fn run_case(c: &Value) -> Value {
  let kind = c["k"].as_str().unwrap().to_string();
  match kind.as_str() {
    "iface" => {
      let c2 = c.clone();
      return std::panic::catch_unwind(std::panic::AssertUnwindSafe(|| iface_case(&c2)))
        .unwrap_or_else(|_| json!({"rows": [[96]], "harness_panic": true}));
    }
    "recv" => {
      let c2 = c.clone();
      return std::panic::catch_unwind(std::panic::AssertUnwindSafe(|| recv_case(&c2)))
        .unwrap_or_else(|_| json!({"rows": [[96]], "harness_panic": true}));
    }
    _ => {}
  }
  // wall-clock scenarios on a loaded machine: an answer that came later than the window is
  // re-measured (up to 2 more runs); only a scenario that is late every time is reported late
  let mut v = run_sock_once(c, &kind);
  let mut tries = 1;
  while tries < 3 && (is_late(c, &v) || v["rows"][0][0].as_u64().map(|x| x == 94).unwrap_or(false)) {
    std::thread::sleep(Duration::from_millis(200));
    v = run_sock_once(c, &kind);
    tries += 1;
  }
  v["tries"] = json!(tries);
  v
}

/// true when a timed answer arrived after `timeo + late_ms`
fn is_late(c: &Value, v: &Value) -> bool {
  let late_ms = opt_u64(c, "late_ms").unwrap_or(400);
  match c["k"].as_str().unwrap_or("") {
    "send_hwm" => {
      let d = c.get("late_sopts").and_then(|l| l.get("SNDTIMEO")).and_then(|v| v.as_i64())
        .unwrap_or_else(|| c["sopts"]["SNDTIMEO"].as_i64().unwrap_or(-1));
      if d < 0 {
        return false;
      }
      v["failures"].as_array().map(|fs| fs.iter().any(|f| f[2].as_u64().unwrap_or(0) > (d as u64 + late_ms) * 1000)).unwrap_or(false)
    }
    "recv_idle" => {
      let d = c["ropts"]["RCVTIMEO"].as_i64().unwrap_or(-1);
      if d < 0 {
        return false;
      }
      let cls = v["rows"][0][0].as_u64().unwrap_or(0);
      (cls == 1 || cls == 2) && v["elapsed_us"].as_u64().unwrap_or(0) > (d as u64 + late_ms) * 1000
    }
    _ => false,
  }
}

fn run_sock_once(c: &Value, kind: &str) -> Value {
  let kind = kind.to_string();
  let rt = tokio::runtime::Builder::new_multi_thread().worker_threads(2).enable_all().build().unwrap();
  let c2 = c.clone();
  let t0 = Instant::now();
  let res = std::panic::catch_unwind(std::panic::AssertUnwindSafe(|| {
    rt.block_on(async move {
      let fut = async {
        match kind.as_str() {
          "send_hwm" => send_hwm(&c2).await,
          "recv_idle" => recv_idle(&c2).await,
          "calib" => calib(&c2).await,
          "dealer_proc" => dealer_proc(&c2).await,
          other => panic!("unknown c14 scenario {other}"),
        }
      };
      match tokio::time::timeout(Duration::from_secs(45), fut).await {
        Ok(v) => v,
        Err(_) => json!({"rows": [[93]], "scenario_timeout": true}),
      }
    })
  }));
  rt.shutdown_timeout(Duration::from_millis(200));
  match res {
    Ok(mut v) => {
      v["ms"] = json!(t0.elapsed().as_millis() as u64);
      v
    }
    Err(_) => json!({"rows": [[96]], "harness_panic": true}),
  }
}
