"""C10 - REQ/REP strict alternation for every call history, including calls racing from several tasks.
See DESIGN.md section 6 (C10).

Cases are replayed on REAL sockets by harness/src/c10.rs (the harness polls every call future by hand;
cfg(rzmq_verif) schedule points between the lock scopes make the interleaving exact) and on
Model/ReqRep.v by Corr/C10Corr.v.  Families:
  seq   one task, every order of send|recv|sendm|recvm up to a length, peers answer/ask as the protocol says
  race  k tasks issue the same call concurrently under one given interleaving of their steps; one more
        task makes the sequential prefix that sets the stage and the sequential suffix that probes the state
        afterwards ("exactly one success per phase", "a following valid call still succeeds")
  env   hand-written histories with peer detach, multi-frame messages, envelopes, RCVTIMEO
  mix   random programs / schedules / peer events (correspondence + the lenient alternation oracle)
  mt    (not replayed on the model) rounds of 8 racing calls on a 4-worker runtime
"""
import itertools
import random
from . import common as C

PROP = "C10"
REQ = "From RZ Require Import Base.Prelude Model.Balancer Model.ReqRep Corr.C10Corr."
THEOREMS = ("C10_req_alternates_outside, C10_req_alternates_refuted, C10_rep_alternates_outside, C10_rep_alternates_refuted, "
            "C10_rep_reply_to_requester, C10_*_failed_calls_change_nothing*, C10_*_strict*")

SIG_REQ_SEND = "C10:req-send-race"
SIG_REQ_RECV = "C10:req-recv-race"
SIG_REP_RECV = "C10:rep-recv-race"
SIG_REQ_LATE = "C10:req-late-invalid-resets-state"

OPS = ["send", "recv", "sendm", "recvm"]
OPC = {"send": 0, "recv": 1, "sendm": 2, "recvm": 3}
COQ_OP = {"send": "OSend", "recv": "ORecv", "sendm": "OSendM", "recvm": "ORecvM"}


# ---------------------------------------------------------------- Coq printers

def c_call(c):
    return "mkCall %s %d" % (COQ_OP[c[0]], c[1] if len(c) > 1 else 0)


def c_tok(t):
    k = t[0]
    if k == "t":
        return "TT %d" % t[1]
    if k in ("reply", "req"):
        return "TMsg %d %s" % (t[1], C.cNlist(t[2]))
    if k == "detach":
        return "TDetach %d" % t[1]
    return "TTimeout %d" % t[1]


def to_coq(c):
    progs = "[" + "; ".join("[" + "; ".join(c_call(x) for x in p) + "]" for p in c["progs"]) + "]"
    sch = "[" + "; ".join(c_tok(t) for t in c["sched"]) + "]"
    return "(%s %d %s %s %s)" % ("CReq" if c["k"] == "req" else "CRep", c["peers"], C.cbool(c.get("rcvtimeo", 0) > 0), progs, sch)


def strip(c):
    return {k: v for k, v in c.items() if k not in ("fam", "meta")}


# ---------------------------------------------------------------- generators

class Tags:
    def __init__(self, base=10):
        self.n = base

    def next(self):
        self.n += 3
        return self.n


def req_prefix_shapes(rng):
    return rng.choice([[0], [0], [0], [7, 0], [7, 9, 0], []])


def seq_req(opsq):
    """one task, one ROUTER peer that answers every request once, right after the send returned"""
    tg = Tags()
    prog, sched = [], []
    expecting = False
    for o in opsq:
        if o == "send":
            prog.append(["send", tg.next()])
            if not expecting:
                sched += [["t", 0]] * 3 + [["reply", 0, [0, tg.next()]]]
                expecting = True
            else:
                sched += [["t", 0]]
        elif o == "sendm":
            prog.append(["sendm", tg.next()])
            sched += [["t", 0]]
        else:
            prog.append([o])
            if expecting:
                sched += [["t", 0]] * 3
                expecting = False
            else:
                sched += [["t", 0]]
    return {"k": "req", "fam": "seq", "peers": 1, "progs": [prog], "sched": sched}


def seq_rep(opsq, shapes=None):
    """one task, two DEALER peers asking in turn; a request is queued whenever the protocol allows a recv"""
    tg = Tags()
    prog, sched = [], []
    received = False
    turn = 0
    for i, o in enumerate(opsq):
        if o in ("send", "sendm"):
            prog.append([o, tg.next()])
            if received:
                sched += [["t", 0]] * 2
                received = False
            else:
                sched += [["t", 0]]
        else:
            prog.append([o])
            if not received:
                pre = shapes[i % len(shapes)] if shapes else [0]
                sched += [["req", turn, pre + [tg.next()]]] + [["t", 0]] * 3
                turn = 1 - turn
                received = True
            else:
                sched += [["t", 0]]
    return {"k": "rep", "fam": "seq", "peers": 2, "progs": [prog], "sched": sched}


def interleavings(counts):
    """all orders of the multiset {task i x counts[i]}"""
    def rec(rem):
        if not any(rem):
            yield []
            return
        for i, r in enumerate(rem):
            if r:
                rem2 = list(rem)
                rem2[i] -= 1
                for rest in rec(rem2):
                    yield [i] + rest
    return rec(list(counts))


def race_case(kind, what, k, order, replies=1):
    """tasks 0..k-1 each make ONE call of kind `what`, concurrently, their polls interleaved as `order`;
    task k ("main") makes the sequential prefix that sets the stage and the suffix that probes the state."""
    tg = Tags()
    progs = [[] for _ in range(k + 1)]
    main = k
    sched = []
    meta = {"what": what, "k": k, "order": order}
    if kind == "req":
        peers = 1
        if what == "send":
            for t in range(k):
                progs[t].append(["send", tg.next()])
            start = len(sched)
            sched += [["t", i] for i in order]
            meta["phase"] = [start, len(sched)]
            # exactly one request is out: its peer answers once
            sched += [["reply", 0, [0, tg.next()]]]
            progs[main] += [["recv"], ["recv"], ["send", tg.next()]]
            sched += [["t", main]] * 3 + [["t", main]] + [["t", main]] * 3
        else:  # recv race after one good send; the peer answers `replies` times
            progs[main].append(["send", tg.next()])
            sched += [["t", main]] * 3
            for _ in range(replies):
                sched += [["reply", 0, [0, tg.next()]]]
            for t in range(k):
                progs[t].append([what])
            start = len(sched)
            sched += [["t", i] for i in order]
            # racers that were parked when the winner finished get their chance to return
            for t in range(k):
                sched += [["t", t]] * 2
            meta["phase"] = [start, len(sched)]
            meta["replies"] = replies
            progs[main] += [["recv"], ["send", tg.next()]]
            sched += [["t", main]] + [["t", main]] * 3
    else:
        if what in ("recv", "recvm"):
            peers = k
            for p in range(k):
                sched += [["req", p, [0, tg.next()]]]
            for t in range(k):
                progs[t].append([what])
            start = len(sched)
            sched += [["t", i] for i in order]
            meta["phase"] = [start, len(sched)]
            progs[main] += [["send", tg.next()], ["send", tg.next()], ["recv"], ["send", tg.next()]]
            sched += [["t", main]] * 2 + [["t", main]] + [["t", main]] * 3 + [["t", main]] * 2
        else:  # send race after one good recv
            peers = 2
            sched += [["req", 1, [5, 0, tg.next()]]]
            progs[main].append(["recv"])
            sched += [["t", main]] * 3
            for t in range(k):
                progs[t].append([what, tg.next()])
                tg.next()
            start = len(sched)
            sched += [["t", i] for i in order]
            meta["phase"] = [start, len(sched)]
            sched += [["req", 0, [0, tg.next()]]]
            progs[main] += [["send", tg.next()], ["recv"], ["send", tg.next()]]
            sched += [["t", main]] + [["t", main]] * 3 + [["t", main]] * 2
    return {"k": kind, "fam": "race", "peers": peers, "progs": progs, "sched": sched, "meta": meta}


POLLS = {("req", "send"): 3, ("req", "recv"): 3, ("req", "recvm"): 3, ("rep", "recv"): 3, ("rep", "recvm"): 3,
         ("rep", "send"): 2, ("rep", "sendm"): 2}


def race_family(kind, what, k, rng=None, limit=None, replies=1):
    orders = list(interleavings([POLLS[(kind, what)]] * k))
    if limit is not None and len(orders) > limit:
        orders = rng.sample(orders, limit)
    return [race_case(kind, what, k, o, replies) for o in orders]


ENV_CORPUS = [
    # REQ: multi-frame reply - recv() hands out the first frame with MORE set and keeps ExpectingReply
    {"k": "req", "fam": "env", "peers": 2,
     "progs": [[["send", 11], ["recv"], ["send", 13], ["recv"], ["recv"], ["send", 15], ["send", 17]]],
     "sched": [["t", 0]] * 5 + [["reply", 0, [0, 21]]] + [["t", 0]] * 6 + [["reply", 1, [0, 23, 24]]] + [["t", 0]] * 9},
    # REQ: target peer detaches (reset), stale notify_one permit makes the next recv fail with Internal
    {"k": "req", "fam": "env", "peers": 2,
     "progs": [[["send", 11], ["recv"], ["send", 13], ["recv"], ["send", 15], ["recv"], ["recv"]]],
     "sched": [["t", 0]] * 3 + [["detach", 0]] + [["t", 0]] * 10 + [["reply", 1, [0, 25]], ["reply", 1, [0, 27]]] + [["t", 0]] * 6},
    # REQ: recv parked, peer detaches, recv wakes up with InvalidState
    {"k": "req", "fam": "env", "peers": 1, "progs": [[["send", 11], ["recv"], ["send", 13]]],
     "sched": [["t", 0]] * 5 + [["detach", 0]] + [["t", 0]] * 4},
    # REQ: a peer that is not the target detaches: nothing changes
    {"k": "req", "fam": "env", "peers": 2, "progs": [[["send", 11], ["recv"], ["send", 13], ["recvm"]]],
     "sched": [["t", 0]] * 5 + [["detach", 1]] + [["t", 0]] + [["reply", 0, [0, 21]]] + [["t", 0]] * 6 + [["reply", 0, [0, 31, 32]]] + [["t", 0]] * 3},
    # REQ: RCVTIMEO - a recv that times out resets the socket to ReadyToSend
    {"k": "req", "fam": "env", "peers": 1, "rcvtimeo": 50,
     "progs": [[["send", 11], ["recv"], ["send", 13], ["recvm"], ["send", 15]]],
     "sched": [["t", 0]] * 5 + [["timeout", 0]] + [["t", 0]] * 7 + [["timeout", 0]] + [["t", 0]] * 3},
    # REQ: send_multipart is unsupported in every state; recv_multipart returns all frames
    {"k": "req", "fam": "env", "peers": 1, "progs": [[["sendm", 11], ["recvm"], ["send", 13], ["recvm"], ["send", 15]]],
     "sched": [["t", 0]] * 6 + [["reply", 0, [0, 21, 22]]] + [["t", 0]] * 4},
    # REP: envelopes, missing delimiter, multi-frame payloads, detach of the requester
    {"k": "rep", "fam": "env", "peers": 2,
     "progs": [[["recv"], ["send", 51], ["recv"], ["send", 53], ["recvm"], ["sendm", 55]]],
     "sched": [["req", 0, [0, 31]]] + [["t", 0]] * 3 + [["detach", 0]] + [["t", 0]] + [["req", 1, [7, 0, 33, 34]]] + [["t", 0]] * 6
              + [["req", 1, [35, 36]]] + [["t", 0]] * 6},
    # REP: the requester is gone before its queued request is received: recv fails, nothing changes
    {"k": "rep", "fam": "env", "peers": 2, "progs": [[["recv"], ["send", 51], ["recv"], ["send", 53]]],
     "sched": [["req", 0, [0, 31]], ["detach", 0]] + [["t", 0]] * 4 + [["req", 1, [0, 33]]] + [["t", 0]] * 4},
    # REP: a peer that is NOT the requester detaches while the reply is owed: nothing changes (the send is admitted and
    # reaches the requester; a recv is still refused)
    {"k": "rep", "fam": "env", "peers": 2, "progs": [[["recv"], ["send", 51], ["recv"], ["send", 53]]],
     "sched": [["req", 1, [0, 31]]] + [["t", 0]] * 3 + [["detach", 0]] + [["t", 0]] * 4 + [["req", 1, [0, 33]]] + [["t", 0]] * 6},
    {"k": "rep", "fam": "env", "peers": 3, "progs": [[["recv"], ["recv"], ["sendm", 51], ["recvm"], ["send", 53]]],
     "sched": [["req", 2, [0, 31]]] + [["t", 0]] * 3 + [["detach", 0]] + [["t", 0]] * 2 + [["detach", 1]] + [["t", 0]] * 5
              + [["req", 2, [0, 33]]] + [["t", 0]] * 6},
    # REP: RCVTIMEO
    {"k": "rep", "fam": "env", "peers": 1, "rcvtimeo": 50, "progs": [[["recv"], ["send", 51], ["recv"], ["send", 53]]],
     "sched": [["t", 0]] * 2 + [["timeout", 0]] + [["t", 0]] * 2 + [["req", 0, [0, 31]]] + [["t", 0]] * 5},
    # REQ: InvalidState("state changed while waiting") from a woken recv then RESETS the state a concurrent send has set
    {"k": "req", "fam": "late", "peers": 2, "progs": [[["send", 11], ["recv"]], [["send", 13], ["recv"]]],
     "sched": [["t", 0]] * 5 + [["detach", 0]] + [["t", 0]] + [["t", 1]] * 3 + [["t", 0]] + [["reply", 1, [0, 21]]] + [["t", 1]] * 3},
    # same history without the overlap: the late InvalidState is harmless
    {"k": "req", "fam": "late", "peers": 2, "progs": [[["send", 11], ["recv"]], [["send", 13], ["recv"]]],
     "sched": [["t", 0]] * 5 + [["detach", 0]] + [["t", 0]] * 2 + [["t", 1]] * 3 + [["reply", 1, [0, 21]]] + [["t", 1]] * 3},
    # REP: a send that has taken the request runs concurrently with the next recv (commit order = take order)
    {"k": "rep", "fam": "env", "peers": 2, "progs": [[["recv"], ["send", 51]], [["recv"], ["send", 53]]],
     "sched": [["req", 0, [0, 31]], ["req", 1, [0, 33]]] + [["t", 0]] * 4 + [["t", 1]] * 3 + [["t", 0]] + [["t", 1]] * 2},
]


def gen_mix(rng):
    kind = rng.choice(["req", "rep"])
    ntasks = rng.choice([1, 1, 2, 2, 3])
    peers = rng.choice([1, 2, 2, 3])
    tg = Tags(100)
    progs = []
    for _ in range(ntasks):
        n = rng.randrange(1, 5)
        prog = []
        for _ in range(n):
            o = rng.choice(["send", "recv", "send", "recv", "sendm", "recvm"])
            prog.append([o, tg.next()] if o in ("send", "sendm") else [o])
        progs.append(prog)
    alive = list(range(peers))
    sched = []
    ntok = rng.randrange(6, 28)
    for _ in range(ntok):
        r = rng.random()
        if r < 0.68:
            sched.append(["t", rng.randrange(ntasks)])
        elif r < 0.95:
            p = rng.randrange(peers)
            if kind == "req":
                body = rng.choice([[tg.next()], [tg.next()], [tg.next(), tg.next()], []])
                sched.append(["reply", p, [0] + body])
            else:
                pre = req_prefix_shapes(rng)
                body = rng.choice([[tg.next()], [tg.next()], [tg.next(), tg.next()]])
                sched.append(["req", p, pre + body])
        else:
            if len(alive) > 1 or rng.random() < 0.3:
                p = rng.randrange(peers)
                sched.append(["detach", p])
                if p in alive:
                    alive.remove(p)
    # every task gets a few more polls at the end so that calls finish
    for t in range(ntasks):
        sched += [["t", t]] * rng.randrange(0, 4)
    return {"k": kind, "fam": "mix", "peers": peers, "progs": progs, "sched": sched}


def gen_cases(rng, tier):
    cases = [dict(c) for c in ENV_CORPUS]
    cases += [dict(c, fam=c.get("fam", "env")) for c in C.load_corpus(PROP, "cases")]
    # racing calls: ALL interleavings of two tasks; three tasks sampled (quick) / all (thorough)
    for kind, what in [("req", "send"), ("req", "recv"), ("req", "recvm"), ("rep", "recv"), ("rep", "recvm"), ("rep", "send"), ("rep", "sendm")]:
        cases += race_family(kind, what, 2)
        if kind == "req" and what != "send":
            cases += race_family(kind, what, 2, replies=2)
        if tier == "quick":
            cases += race_family(kind, what, 3, rng, limit=6)
        else:
            cases += race_family(kind, what, 3, rng, limit=None if what in ("send", "recv") else 300)
            if kind == "req" and what == "recv":
                cases += race_family(kind, what, 3, rng, limit=300, replies=2)
    # one task, every call order
    L = 3 if tier == "quick" else 5
    shapes = [[0], [7, 0], [], [7, 9, 0]]
    for n in range(1, L + 1):
        for opsq in itertools.product(OPS, repeat=n):
            cases.append(seq_req(opsq))
            cases.append(seq_rep(opsq, shapes if n >= 3 else None))
    n_mix = 160 if tier == "quick" else 4000
    cases += [gen_mix(rng) for _ in range(n_mix)]
    return cases


# ---------------------------------------------------------------- implementation-side oracle

def split_rows(c, o):
    n = len(c["sched"])
    rows = o["rows"]
    return rows[:n], [r for r in rows[n:] if r and r[0] == 8]


def prefix_of(frames):
    if 0 in frames:
        i = frames.index(0)
        return frames[:i + 1], frames[i + 1:]
    return [], frames


def lenient(c, o):
    """the alternation automaton of the property text, over completions in the order they happened;
    resets (peer detached, a recv that failed) are allowed for generously, so this never fires on a
    correct socket"""
    trows, deliv = split_rows(c, o)
    if len(trows) != len(c["sched"]):
        return "harness produced %d rows for %d tokens" % (len(trows), len(c["sched"]))
    single = len(c["progs"]) == 1      # one task: no call races another, so the DUE call must be admitted as well
    if c["k"] == "req":
        a = 0  # 0: send due, 1: reply due, 2: reset
        pushed = 0
        for tok, r in zip(c["sched"], trows):
            if r[0] == 2 and r[2] == 1 and a == 1:
                a = 2
            if r[0] == 0 and r[2] == 1 and r[3] == 2:
                pushed += 1
            if r[0] == 0 and r[2] == 2:
                opc, res = r[3], r[4]
                if single and opc == 0 and res == 2 and a == 0:
                    return "REQ: a send was refused with InvalidState although a send was due (no request outstanding)"
                if single and opc in (1, 3) and res == 2 and a == 1:
                    return "REQ: a recv was refused with InvalidState although a request is outstanding and its peer is connected"
                if opc == 0 and res == 0:
                    if a == 1:
                        return "REQ: a send succeeded while a reply was due (two successful sends without a recv or a reset between them)"
                    a = 1
                elif opc in (1, 3) and res == 0:
                    if a == 0:
                        return "REQ: a recv succeeded although no request was outstanding (two successful recvs without a send between them)"
                    a = 0
                elif opc in (1, 3) and res == 1:
                    if a == 0:
                        return "REQ: a recv returned a frame although no request was outstanding"
                elif opc in (1, 3) and res >= 3 and a == 1:
                    a = 2
                elif opc == 2 and res in (0, 1):
                    return "REQ: send_multipart succeeded"
        if len(deliv) != pushed:
            return "REQ: %d requests handed to a peer, %d arrived" % (pushed, len(deliv))
        return None
    # REP
    reqs = {}
    for tok in c["sched"]:
        if tok[0] == "req":
            pre, pay = prefix_of(tok[2])
            if pay and pay[0] not in reqs:
                reqs[pay[0]] = (tok[1], pre)
    state = None       # None = ready, else (peer, prefix) or "?" if the request could not be identified
    taken = {}
    di = 0
    for tok, r in zip(c["sched"], trows):
        if r[0] == 2 and r[2] == 1 and state not in (None, "?", "??") and state[0] == r[1]:
            state = None
        elif r[0] == 2 and r[2] == 1 and state == "?":
            state = "??"      # an unidentified pending request may or may not have been dropped
        if r[0] == 0 and r[2] == 1 and r[3] == 11:
            if state is None:
                return "REP: a send took a pending request although none was pending"
            taken[r[1]] = state if state != "??" else "?"
            state = None
        if r[0] == 0 and r[2] == 2:
            t, opc, res = r[1], r[3], r[4]
            if opc in (1, 3) and res in (0, 1):
                if state is not None and state != "??":
                    who = "peer %d" % state[0] if state != "?" else "a peer"
                    return "REP: a recv succeeded while a request was pending (two successful recvs without a send between them; the request of %s is never answered)" % who
                tag = r[5] if len(r) > 5 else 0
                state = reqs.get(tag, "?")
            elif single and opc in (0, 2) and res == 2 and state not in (None, "?", "??"):
                return ("REP: a send was refused with InvalidState although the request of peer %d is pending and that peer is "
                        "still connected (the owed reply can never be sent)" % state[0])
            elif opc in (0, 2) and res == 0:
                if t not in taken:
                    return "REP: a send succeeded without taking a pending request"
                info = taken.pop(t)
                if di >= len(deliv):
                    return "REP: send answered Ok but no peer received the reply"
                d = deliv[di]
                di += 1
                if info != "?":
                    call_tag = None
                    # the tag of this call: find it in the program (k-th finished call of task t)
                    call_tag = call_tags(c, trows, t, r)
                    pay = [call_tag] if opc == 0 else [call_tag, call_tag + 1]
                    if d[1] != info[0] or d[2:] != info[1] + pay:
                        return "REP: reply went to peer %d as %s, the request it answers came from peer %d with prefix %s" % (d[1], d[2:], info[0], info[1])
            elif opc in (0, 2):
                taken.pop(t, None)
    if di != len(deliv):
        return "REP: %d replies arrived at peers, %d sends answered Ok" % (len(deliv), di)
    return None


def call_tags(c, trows, t, upto_row):
    """tag of the call of task t that finished in row `upto_row`"""
    k = 0
    for r in trows:
        if r[0] == 0 and r[2] == 2 and r[1] == t:
            if r is upto_row:
                call = c["progs"][t][k]
                return call[1] if len(call) > 1 else 0
            k += 1
    return 0


class Spec:
    """what the property text says a lone call must return (no resets, single-frame messages)"""

    def __init__(self, kind):
        self.kind = kind
        self.busy = False          # REQ: reply due / REP: request pending
        self.queue = []            # REQ: reply tags queued; REP: (peer, prefix, payload) queued
        self.pending = None

    def feed(self, tok):
        if tok[0] == "reply":
            self.queue.append(tok[2][1:])
        elif tok[0] == "req":
            pre, pay = prefix_of(tok[2])
            self.queue.append((tok[1], pre, pay))

    def expect(self, call):
        """-> (res, data or None, delivery or None); None = undetermined"""
        o = call[0]
        if self.kind == "req":
            if o == "sendm":
                return (3, [], None)
            if o == "send":
                if self.busy:
                    return (2, [], None)
                self.busy = True
                return (0, [], (None, [0, call[1]]))
            if not self.busy:
                return (2, [], None)
            if not self.queue:
                return None
            pay = self.queue.pop(0)
            if o == "recvm":
                self.busy = False
                return (0, pay, None)
            if len(pay) > 1:
                return (1, [pay[0]], None)
            self.busy = False
            return (0, [pay[0] if pay else 0], None)
        if o in ("recv", "recvm"):
            if self.busy:
                return (2, [], None)
            if not self.queue:
                return None
            p, pre, pay = self.queue.pop(0)
            self.busy = True
            self.pending = (p, pre)
            if o == "recvm":
                return (0, pay, None)
            return (1 if len(pay) > 1 else 0, [pay[0] if pay else 0], None)
        if not self.busy:
            return (2, [], None)
        self.busy = False
        p, pre = self.pending
        return (0, [], (p, pre + ([call[1]] if o == "send" else [call[1], call[1] + 1])))


def exact(c, o, rows_range=None, spec=None, task_pos=None, deliv_pos=0):
    """sequential stretch: every completion must be what the property text says; returns
    (message or None, spec, task_pos, deliv_pos)"""
    trows, deliv = split_rows(c, o)
    spec = spec or Spec(c["k"])
    task_pos = task_pos or [0] * len(c["progs"])
    lo, hi = rows_range or (0, len(trows))
    for i in range(lo, hi):
        tok, r = c["sched"][i], trows[i]
        spec.feed(tok)
        if r[0] == 0 and r[2] == 2:
            t = r[1]
            call = c["progs"][t][task_pos[t]]
            task_pos[t] += 1
            e = spec.expect(call)
            if e is None:
                return ("call %s of task %d returned although it had to wait" % (call, t), spec, task_pos, deliv_pos)
            res, data, dl = e
            got = (r[4], r[5:])
            if got != (res, data):
                what = {0: "Ok", 1: "Ok(MORE)", 2: "InvalidState", 3: "UnsupportedFeature"}
                return ("%s: call #%d %s of task %d returned %s %s, the alternation rule requires %s %s (an out-of-order call must fail with InvalidState and change nothing)"
                        % (c["k"].upper(), task_pos[t], call, t, what.get(got[0], "error %d" % got[0]), got[1],
                           what.get(res, "error %d" % res), data), spec, task_pos, deliv_pos)
            if dl is not None and c["k"] == "rep":
                if deliv_pos >= len(deliv) or deliv[deliv_pos][1] != dl[0] or deliv[deliv_pos][2:] != dl[1]:
                    return ("REP: reply of call #%d must reach peer %d as %s; deliveries: %s" % (task_pos[t], dl[0], dl[1], deliv),
                            spec, task_pos, deliv_pos)
                deliv_pos += 1
    return (None, spec, task_pos, deliv_pos)


def oracle(c, o):
    if o.get("panic"):
        return "harness case failed: %s" % o.get("msg")
    if o.get("problems"):
        return "harness: " + "; ".join(o["problems"][:3])
    fam = c.get("fam", "mix")
    if fam == "seq":
        msg, spec, pos, _ = exact(c, o)
        if msg:
            return msg
        # a call that is due (its reply / request is queued) must complete: a task parked at the end of the history on a call
        # the alternation rule admits means an earlier FAILED call changed something (e.g. consumed the queued reply)
        # (added after the seeded change C10-rejected-req-send-drains-replies)
        trows, _ = split_rows(c, o)
        for t, prog in enumerate(c["progs"]):
            if pos[t] < len(prog):
                mine = [r for r in trows if r[0] == 0 and r[1] == t]
                if len(mine) >= 2 and mine[-1][2] == 0 and mine[-2][2] == 0 and spec.expect(prog[pos[t]]) is not None:
                    return ("%s: call #%d %s of task %d is due (what it waits for is queued) but never returned: an earlier call that "
                            "failed with InvalidState did not leave the socket as it was" % (c["k"].upper(), pos[t] + 1, prog[pos[t]], t))
    if fam == "race":
        m = c["meta"]
        lo, hi = m["phase"]
        trows, deliv = split_rows(c, o)
        msg, spec, pos, dpos = exact(c, o, (0, lo))
        if msg:
            return msg
        fin = [r for r in trows[lo:hi] if r[0] == 0 and r[2] == 2]
        ok = [r for r in fin if r[4] in (0, 1)]
        bad = [r for r in fin if r[4] not in (0, 1, 2)]
        k = m["k"]
        what = m["what"]
        if len(ok) > 1:
            if c["k"] == "req" and what == "send":
                return "REQ: %d of %d racing sends succeeded (exactly one may); %d requests reached the peer" % (len(ok), k, len(deliv))
            if c["k"] == "req":
                return "REQ: %d of %d racing %ss succeeded although one request was outstanding" % (len(ok), k, what)
            if what in ("recv", "recvm"):
                return "REP: %d of %d racing %ss succeeded (exactly one may); only the last requester can be answered" % (len(ok), k, what)
            return "REP: %d of %d racing sends succeeded for one pending request" % (len(ok), k)
        if bad:
            return "%s: a racing %s failed with error %d instead of InvalidState" % (c["k"].upper(), what, bad[0][4])
        if len(ok) == 0:
            return "%s: none of %d racing %ss succeeded although the call was due" % (c["k"].upper(), k, what)
        # advance the reference as if exactly that one call had been made, then the suffix must be exact
        t_ok = ok[0][1]
        e = spec.expect(c["progs"][t_ok][pos[t_ok]])
        if e is None or (ok[0][4], ok[0][5:]) != (e[0], e[1]):
            return "%s: the racing %s that succeeded returned %s, expected %s" % (c["k"].upper(), what, ok[0][4:], e and list(e[:2]))
        if e[2] is not None and c["k"] == "rep":
            dl = e[2]
            if dpos >= len(deliv) or deliv[dpos][1] != dl[0] or deliv[dpos][2:] != dl[1]:
                return "REP: the reply must reach peer %d as %s; deliveries: %s" % (dl[0], dl[1], deliv)
            dpos += 1
        for r in fin:
            pos[r[1]] += 1
        msg = exact(c, o, (hi, len(trows)), spec, pos, dpos)[0]
        if msg:
            return msg
    if fam == "late":
        # task 1: send Ok, then (reply queued) recv - must succeed: nothing reset the socket from task 1's point of view
        trows, _ = split_rows(c, o)
        t1 = [r for r in trows if r[0] == 0 and r[2] == 2 and r[1] == 1]
        if len(t1) >= 2 and t1[0][3] == 0 and t1[0][4] == 0 and t1[1][4] == 2:
            t0 = [r for r in trows if r[0] == 0 and r[2] == 2 and r[1] == 0]
            if len(t0) >= 2 and t0[1][4] == 2:
                return ("REQ: a recv that failed with InvalidState reset the state set by a concurrent successful send: "
                        "the sender's own recv is refused with InvalidState although its reply is queued")
    return lenient(c, o)


def make_oracle(res):
    """C.differential reports at most the first 20 failing cases; a recorded finding fails hundreds of
    racing schedules, so every recorded signature is passed on once (that earns its KNOWN-FINDING line)
    and only counted afterwards - anything else is always passed on.  Cases suppressed here stay subject
    to the model-vs-implementation comparison."""
    seen = set()
    known = {k.get("signature") for k in res.known}

    def orc(c, o):
        msg = oracle(c, o)
        if not msg:
            return None
        sig = signature(c, o, msg)
        if sig in known:
            res.count("known:" + sig)
            if sig in seen:
                return None
            seen.add(sig)
        return msg
    return orc


def signature(c, o, msg):
    if not msg:
        return None
    if msg.startswith("REQ:") and "racing sends succeeded" in msg:
        return SIG_REQ_SEND
    if msg.startswith("REQ: a send succeeded while a reply was due"):
        return SIG_REQ_SEND
    if msg.startswith("REQ:") and ("racing recvs succeeded" in msg or "racing recvms succeeded" in msg):
        return SIG_REQ_RECV
    if (msg.startswith("REQ: a recv succeeded although no request was outstanding")
            or msg.startswith("REQ: a recv returned a frame although no request was outstanding")) \
            and c.get("fam") in ("mix", "race") and len(c["progs"]) > 1:
        return SIG_REQ_RECV
    if msg.startswith("REP:") and ("racing recvs succeeded" in msg or "racing recvms succeeded" in msg):
        return SIG_REP_RECV
    if msg.startswith("REP: a recv succeeded while a request was pending") and len(c["progs"]) > 1:
        return SIG_REP_RECV
    if msg.startswith("REQ: a recv that failed with InvalidState reset"):
        return SIG_REQ_LATE
    return None


def nontrivial(c, o):
    return any(r[0] == 0 and len(r) > 4 and r[2] == 2 and r[4] in (0, 1) for r in o["rows"])


def mt_oracle(res, c, o):
    rows = o["rows"]
    sock = c["sock"]
    by_round = {}
    for r in rows:
        by_round.setdefault(r[0], {})[r[1]] = r[2:]
    found = {}
    for rd, ph in sorted(by_round.items()):
        p0 = ph.get(0)
        p1 = ph.get(1)
        if p0 and p0[0] > 1:
            found.setdefault(0, []).append((rd, p0))
        elif p0 and p0[0] == 1 and p1 and p1[0] > 1:
            found.setdefault(1, []).append((rd, p1))
    res.count("mt:%s:hook%d:rounds" % (sock, c["hook"]), len(by_round))
    for ph, hits in found.items():
        res.count("mt:%s:hook%d:phase%d:rounds_with_2+_successes" % (sock, c["hook"], ph), len(hits))
        if sock == "req":
            sig = SIG_REQ_SEND if ph == 0 else SIG_REQ_RECV
            what = "REQ on a 4-worker runtime: %d of %d racing %s succeeded in round %d (%d of %d rounds)" % (
                hits[0][1][0], c["n"], "sends" if ph == 0 else "recvs", hits[0][0], len(hits), len(by_round))
        else:
            sig = SIG_REP_RECV if ph == 0 else "C10:rep-send-race"
            what = "REP on a 4-worker runtime: %d of %d racing %s succeeded in round %d (%d of %d rounds)" % (
                hits[0][1][0], c["n"], "recvs" if ph == 0 else "sends", hits[0][0], len(hits), len(by_round))
        res.violation({"property": PROP, "kind": "implementation violates property oracle", "what": what, "case": c,
                       "impl_obs": {"rows": [r for r in rows if r[0] == hits[0][0]]}, "harness": "c10", "signature": sig},
                      found_input=True, signature=sig)


def main(argv):
    tier, seed = C.tier_and_seed(argv)
    res = C.Result(PROP, tier, seed)
    res.rule = ("cases = schedules replayed on real REQ/REP sockets over tcp with scripted ROUTER/DEALER peers: (seq) one task, every "
                "order of send|recv|send_multipart|recv_multipart up to length 3 (quick) / 5 (thorough); (race) 2 tasks: ALL interleavings "
                "of the polls of two concurrent calls of each kind, 3 tasks: sampled (quick) / all or 300 (thorough), each with a "
                "sequential prefix and a probing suffix; (env) fixed histories with detach / multi-frame / envelope / RCVTIMEO; (mix) "
                "random programs of 1-3 tasks with random schedules and peer events from random.Random(seed); (mt) rounds of 8 racing "
                "calls on a 4-worker runtime. non-trivial = at least one call succeeded; distinct by case JSON")
    C.proof_stage(res, PROP, ["theories/Corr/C10Corr.vo"])
    rng = random.Random(seed)
    cases = gen_cases(rng, tier)
    for c in cases:
        res.count("fam:%s:%s" % (c.get("fam", "mix"), c["k"]))
        res.count("tasks:%d" % len(c["progs"]))
    obs = C.differential(res, PROP, "c10", cases, to_coq, REQ, "c10_mismatches", "c10_model", make_oracle(res),
                         nontrivial=nontrivial, signature=signature, theorems_note=THEOREMS, strip=strip,
                         shards=(8 if tier == "quick" else 16))
    if obs:
        import json
        import os
        json.dump({"cases": cases, "obs": obs}, open(os.path.join(C.CACHE, "cases", PROP, "last_run.json"), "w"))
        for c, o in zip(cases, obs):
            for r in o["rows"]:
                if r[0] == 0 and len(r) > 4 and r[2] == 2:
                    res.count("result:%s:%s:%d" % (c["k"], ["send", "recv", "sendm", "recvm"][r[3]], r[4]))
            if c.get("fam") == "race":
                lo, hi = c["meta"]["phase"]
                n_ok = len([r for r in o["rows"][lo:hi] if r[0] == 0 and len(r) > 4 and r[2] == 2 and r[4] in (0, 1)])
                res.count("race:%s:%s:k%d:successes=%d" % (c["k"], c["meta"]["what"], c["meta"]["k"], n_ok))
        # multi-thread runtime: failing-input search without schedule control
        rounds = 30 if tier == "quick" else 300
        mt = []
        for sock in ("req", "rep"):
            for hook in ((1,) if tier == "quick" else (0, 1)):
                mt.append({"k": "mt", "sock": sock, "rounds": rounds, "n": 8, "hook": hook})
        mobs, mlog = C.run_harness("c10", mt, PROP, tag="mt", timeout=900)
        if mobs is None:
            res.obligation(False, "multi-thread stress could not run: " + str(mlog)[-500:])
        else:
            for c, o in zip(mt, mobs):
                res.evaluations += 1
                if o.get("panic"):
                    res.obligation(False, "multi-thread stress case failed: %s" % o.get("msg"))
                    continue
                mt_oracle(res, c, o)
        # back-pressure: a send() refused by a full path must leave the REQ as it was (failing-input search for
        # C10_*_failed_calls_change_nothing; full pipes are otherwise outside the C10 harness)
        bp = [{"k": "bp", "tr": "inproc"}, {"k": "bp", "tr": "tcp"}]
        bobs, blog = C.run_harness("c10", bp, PROP, tag="bp", timeout=300)
        if bobs is None:
            res.obligation(False, "back-pressure probe could not run: " + str(blog)[-500:])
        else:
            for c, o in zip(bp, bobs):
                res.evaluations += 1
                row = o["rows"][0] if not o.get("panic") else [9, 0, 0, 0]
                res.count("bp:%s:%s" % (c["tr"], {0: "no send was refused", 1: "refused send probed"}.get(row[0], "unexpected")))
                if row[0] == 1:
                    res.nontrivial.add("bp:" + c["tr"])
                    bad = None
                    if row[2] != 2:
                        bad = "recv() right after a REFUSED send() was admitted (code %d) although no request is outstanding" % row[2]
                    elif row[3] == 2:
                        bad = "send() after a REFUSED send() was rejected as an FSM violation (InvalidState) although no send had succeeded"
                    if bad:
                        res.violation({"property": PROP, "kind": "implementation violates property oracle",
                                       "what": "REQ over %s, SNDTIMEO=0, peer not reading: %s (refused with code %d)" % (c["tr"], bad, row[1]),
                                       "case": c, "impl_obs": o, "harness": "c10"}, found_input=True)
                elif row[0] in (2, 3, 9):
                    res.notes.append("back-pressure probe %s: unexpected outcome %s" % (c["tr"], row))
    return res.finish(assumptions=[
        "one poll of REQ recv's select! (Notified, then the queue pop) is atomic; tokio::sync::Notify semantics as documented "
        "(notify_waiters wakes existing Notified futures only, notify_one stores one permit)",
        "the sockets are running (no close()/term() during the calls); SNDTIMEO unset; the peers' pipes never fill (HWM not reached)",
        "peer attach during the calls and the window between the core's connection teardown and pipe_detached are in the model "
        "but not separately controllable from the harness (detach = both steps back to back)",
        "RCVTIMEO expiry is tied by three fixed histories only",
    ])
