"""C14 - high-water marks bound buffering; SNDTIMEO / RCVTIMEO mean what they say.
See DESIGN.md section 6 (C14).

Correspondence:
  A  iface : the real ScaConnectionIface / DirectInprocConnection / ZmtpSmartConnection over a bounded pipe whose
             receiver the harness keeps, every method, under a PAUSED tokio clock: answer, virtual elapsed ms, copies
             of the message on the pipe afterwards, what came back - compared EXACTLY with Model/Hwm.v (fire = id).
     recv  : AnonymousIngressEngine.recv / recv_multipart, AddressedIngressEngine.recv_logical_message, same way.
  D  send_hwm  : real PUSH / DEALER / ROUTER(mandatory) / REQ sockets at their high-water mark over tcp / inproc, peer
                 reading never / slowly / fast; error class compared with the model, times and counts judged by the oracle.
     recv_idle : real PULL / SUB / DEALER / ROUTER with nothing queued.
The oracles below are written from the property text, not from the model."""
import json
import math
import random
from . import common as C

PROP = "C14"
REQ = "From RZ Require Import Base.Prelude Model.Hwm Corr.C14Corr."
THEOREMS = ("C14_snd0_immediate, C14_snd_positive_not_early, C14_snd_minus1_waits(_refuted/_outside), C14_no_spurious_success, "
            "C14_enqueued_exactly_once, C14_push_*, C14_dealer_*, C14_rcv0_immediate, C14_rcv_positive_not_early, "
            "C14_rcv_minus1_waits, C14_rcv_no_spurious, C14_buffer_bound, C14_inproc_buffer_bound, C14_dealer_pending_bound")

KINDS = ["sca", "inproc", "uring"]
METHODS = ["message", "multipart", "owned", "sync"]
ENGS = ["anon", "anon_multi", "addr"]
FALLBACK = {"sca": 30000, "inproc": 300000, "uring": 30000}
SIG_LATE = "C14:sndtimeo-set-after-connect-ignored"
SIG_PROC = "C14:dealer-processor-loses-queued-message"
SIG = {"sca": "C14:minus1-fallback:sca-30s", "inproc": "C14:minus1-fallback:inproc-300s", "uring": "C14:minus1-fallback:uring-30s"}

LEN = 65536                      # payload of the stack scenarios
SOCKBUF = 65536                  # SO_SNDBUF / SO_RCVBUF asked for in the tcp scenarios
GREEDY = 65536 * 8               # sessionx::INGRESS_GREEDY_CHUNK (linux)
RCVBATCH_BYTES = 256 * 1024      # DEFAULT_RCVBATCH_BYTES
LATE_MS = 400                    # wall-clock slack above the asked interval
EARLY_MS = 5                     # and below it
BLOCK_MS = 900                   # a -1 call still pending after this long counts as "waiting"


# ---------------------------------------------------------------- generators

def timeo_pool(rng, around=None):
    pool = [1, 2, 5, 50, 200, 499, 500, 1000, 29999, 30000, 30001, 299999, 300000, 300001]
    return rng.choice(pool)


def ev_times(d_eff):
    """moments for the consumer's action, never on the deadline itself (tie between two timers)"""
    # (not at 0 either: the harness would act before the call has made its first try_send)
    c = [1, 2, max(d_eff // 2, 1), max(d_eff - 1, 1), d_eff + 1, d_eff + 1000, 350000]
    return sorted({t for t in c if t != d_eff and 0 < t < 390000})


def gen_iface(rng, n_random):
    cases = []

    def mk(kind, method, state, s, ev=None, t=None, cap=None):
        c = {"k": "iface", "kind": kind, "method": method, "cap": cap if cap else 2, "sndtimeo": s}
        if state == "room":
            c["fill"] = 0 if c["cap"] == 1 else c["cap"] // 2
        elif state == "closed":
            c["closed0"] = True
        if ev == "pop":
            c["pop_at"] = t
        elif ev == "close":
            c["close_at"] = t
        return c

    # systematic core: every implementation x method x pipe state x SNDTIMEO class x consumer action
    for kind in KINDS:
        for method in METHODS:
            for s in (-1, 0, 50):
                for state in ("full", "room", "closed"):
                    cases.append(mk(kind, method, state, s))
                d_eff = s if s > 0 else (FALLBACK[kind] if s < 0 else 0)
                for t in ([10] if s == 0 else [d_eff // 2, d_eff + 1]):
                    cases.append(mk(kind, method, "full", s, "pop", t))
                    cases.append(mk(kind, method, "full", s, "close", t))
    # the recorded findings, one per implementation: -1, the peer drains 1 ms after the fall-back
    for kind in KINDS:
        for method in ("multipart", "owned", "message"):
            cases.append(mk(kind, method, "full", -1, "pop", FALLBACK[kind] + 1, cap=7))
    while n_random > 0:
        n_random -= 1
        kind, method = rng.choice(KINDS), rng.choice(METHODS)
        s = rng.choice([-1, 0, timeo_pool(rng), timeo_pool(rng)])
        state = rng.choice(["full", "full", "full", "room", "closed"])
        cap = rng.choice([1, 2, 3, 7, 8, 9, 100, 1000])
        d_eff = s if s > 0 else (FALLBACK[kind] if s < 0 else 0)
        ev = rng.choice([None, "pop", "pop", "close"]) if state == "full" else None
        t = rng.choice(ev_times(d_eff)) if ev else None
        cases.append(mk(kind, method, state, s, ev, t, cap))
    return cases


def gen_recv(rng, n_random):
    cases = []

    def mk(eng, r, queued=0, pre=False, ev=None, t=None):
        c = {"k": "recv", "eng": eng, "rcvtimeo": r, "queued": queued, "pre": pre}
        if ev == "push":
            c["push_at"] = t
        elif ev == "close":
            c["close_at"] = t
        return c

    for eng in ENGS:
        for r in (-1, 0, 50):
            for q in (0, 1, 3):
                cases.append(mk(eng, r, q))
            if eng != "addr":
                cases.append(mk(eng, r, 0, True))
                cases.append(mk(eng, r, 2, True))
            for t in ([10] if r == 0 else ([25, 51] if r > 0 else [25, 100000])):
                cases.append(mk(eng, r, 0, False, "push", t))
                cases.append(mk(eng, r, 0, False, "close", t))
    while n_random > 0:
        n_random -= 1
        eng = rng.choice(ENGS)
        r = rng.choice([-1, 0, rng.choice([1, 2, 5, 50, 200, 499, 500, 1000, 60000])])
        q = rng.choice([0, 0, 0, 1, 5])
        pre = eng != "addr" and rng.random() < 0.15
        ev = rng.choice([None, "push", "push", "close"]) if q == 0 else None
        t = rng.choice(ev_times(r if r > 0 else 1000)) if ev else None
        cases.append(mk(eng, r, q, pre, ev, t))
    return cases


PATS = {"PUSH": "PUSH_PULL", "DEALER": "DEALER_ROUTER", "ROUTER": "ROUTER_DEALER", "REQ": "REQ_REP"}
RPATS = {"PULL": "PUSH_PULL", "SUB": "PUB_SUB", "DEALER": "ROUTER_DEALER", "ROUTER": "DEALER_ROUTER"}
HWMS = [1, 2, 7, 100]
TIMEOS = [-1, 0, 50, 200]


def mk_send(stype, tr, hwm, rhwm, s, mode, nmax=None, block_ms=BLOCK_MS):
    sopts = {"SNDHWM": hwm, "SNDTIMEO": s}
    ropts = {"RCVHWM": rhwm}
    if tr == "tcp":
        sopts["SNDBUF"] = SOCKBUF
        ropts["RCVBUF"] = SOCKBUF
    else:
        # the reader task's batching allowance: default 128, or small so that the bound is tight
        if (hwm + rhwm) % 2 == 1:
            ropts["RCVBATCH_COUNT"] = 4
    if stype == "REQ":
        sopts["RCVTIMEO"] = 1
    c = {"k": "send_hwm", "pat": PATS[stype], "stype": stype, "tr": tr, "mode": mode, "len": LEN, "sopts": sopts, "ropts": ropts,
         "block_ms": block_ms, "late_ms": LATE_MS}
    # enough messages to hit the mark with a silent peer; a bounded stream when the peer reads
    c["nmax"] = nmax if nmax else (2000 if mode == "never" else 120)
    return c


def mk_late(stype, tr, hwm, rhwm, s_conn, s_now):
    c = mk_send(stype, tr, hwm, rhwm, s_conn, "never")
    c["late_sopts"] = {"SNDTIMEO": s_now}
    return c


def eff_timeo(c):
    """the SNDTIMEO the application has set by the time it calls send()"""
    return c.get("late_sopts", {}).get("SNDTIMEO", c["sopts"]["SNDTIMEO"])


def mk_recv_idle(rtype, tr, r, push_after=None):
    c = {"k": "recv_idle", "pat": RPATS[rtype], "rtype": rtype, "tr": tr, "sopts": {"SNDTIMEO": 500}, "ropts": {"RCVTIMEO": r, "RCVHWM": 7},
         "block_ms": BLOCK_MS, "late_ms": LATE_MS}
    if push_after is not None:
        c["push_after_ms"] = push_after
    return c


def recv_churn_cases(tier):
    """a pending recv() with a positive RCVTIMEO while further peers keep connecting (closer together than the timeout):
    the timeout is measured from the call, not from the last connection event"""
    out = []
    for rtype in ("ROUTER", "DEALER", "PULL", "SUB"):
        for tr in (("tcp",) if tier == "quick" else ("tcp", "inproc")):
            c = mk_recv_idle(rtype, tr, 300)
            c["churn_ms"], c["churn_n"] = 120, 12
            out.append(c)
    return out


def gen_sock(rng, tier):
    never, other, recv = [], [], []
    combos = [(st, tr, s) for st in PATS for tr in ("tcp", "inproc") for s in TIMEOS]
    if tier == "quick":
        # every sending type x transport x SNDTIMEO class with a silent peer, HWMs rotated through {1,2,7,100}
        for i, (st, tr, s) in enumerate(combos):
            hwm, rhwm = HWMS[i % 4], HWMS[(i // 4 + 1) % 4]
            if hwm == 100 and rhwm == 100:
                rhwm = 7
            never.append(mk_send(st, tr, hwm, rhwm, s, "never"))
        sample = [(st, tr, s, m) for st in ("PUSH", "DEALER", "ROUTER") for tr in ("tcp", "inproc") for s in TIMEOS for m in ("slow", "fast")]
        rng.shuffle(sample)
        for (st, tr, s, m) in sample[:16]:
            other.append(mk_send(st, tr, rng.choice([1, 2, 7]), rng.choice([1, 2, 7]), s, m))
        rsample = [(rt, tr, r) for rt in RPATS for tr in ("tcp", "inproc") for r in TIMEOS]
        rng.shuffle(rsample)
        for (rt, tr, r) in rsample[:16]:
            recv.append(mk_recv_idle(rt, tr, r))
        recv.append(mk_recv_idle("PULL", "tcp", 200, 40))
        recv.append(mk_recv_idle("ROUTER", "inproc", 200, 40))
        # SNDTIMEO changed after the connection exists
        never.append(mk_late("PUSH", "tcp", 2, 2, -1, 0))
        never.append(mk_late("DEALER", "inproc", 2, 1, 0, 50))
        never.append(mk_late("ROUTER", "tcp", 2, 2, 0, 50))
        never.append(mk_late("PUSH", "inproc", 2, 2, 50, 50))
    else:
        for (st, tr, s) in combos:
            for hwm in HWMS:
                for rhwm in (1, 7, 100) if hwm != 100 else (1, 7):
                    never.append(mk_send(st, tr, hwm, rhwm, s, "never"))
            for m in ("slow", "fast"):
                if st != "REQ":
                    for hwm in (1, 2, 7, 100):
                        other.append(mk_send(st, tr, hwm, rng.choice([1, 2, 7]), s, m))
        for rt in RPATS:
            for tr in ("tcp", "inproc"):
                for r in TIMEOS + [1, 500]:
                    recv.append(mk_recv_idle(rt, tr, r))
                recv.append(mk_recv_idle(rt, tr, 200, 40))
                recv.append(mk_recv_idle(rt, tr, -1, 300))
        # the -1 fall-backs on real sockets (30 s; the 300 s inproc one is left to the paused-clock cases)
        for st in ("PUSH", "DEALER", "ROUTER"):
            for tr in ("tcp", "inproc"):
                for (a, b) in ((-1, 0), (0, 50), (50, 0), (200, 50), (0, -1), (50, 50)):
                    never.append(mk_late(st, tr, 2, 2, a, b))
        never.append(mk_send("ROUTER", "tcp", 2, 2, -1, "never", block_ms=32000))
        never.append(mk_send("REQ", "tcp", 2, 2, -1, "never", block_ms=32000))
    # DEALER's queue processor at a saturated peer with a positive SNDTIMEO (recorded finding; racy, so several runs)
    for _ in range(2 if tier == "quick" else 6):
        other.append({"k": "dealer_proc", "pre": 7, "wakes": 8, "mode": "proc", "tr": "tcp", "stype": "DEALER",
                      "sopts": {"SNDHWM": 7, "SNDTIMEO": 100}, "ropts": {"RCVHWM": 1}})
    return never, other, recv


# ---------------------------------------------------------------- Coq printers

def c_timeo(s):
    return "None" if s < 0 else "(Some %d)" % s


def c_opt(v):
    return "None" if v is None else "(Some %d)" % v


def to_coq(c):
    k = c["k"]
    if k == "iface":
        full = "fill" not in c
        return "(CIface %d %d %s %s %s %s %s)" % (KINDS.index(c["kind"]), METHODS.index(c["method"]), C.cbool(full),
                                                 C.cbool(c.get("closed0", False)), c_timeo(c["sndtimeo"]),
                                                 c_opt(c.get("pop_at")), c_opt(c.get("close_at")))
    if k == "recv":
        return "(CRecv %d %s %s %d%%nat %s %s)" % (ENGS.index(c["eng"]), C.cbool(c["pre"]), c_timeo(c["rcvtimeo"]), c["queued"],
                                                  c_opt(c.get("push_at")), c_opt(c.get("close_at")))
    if k == "send_hwm" and "late_sopts" in c:
        return "(CSockLate %d %d %s %s %d%%nat %d)" % (list(PATS).index(c["stype"]), 0 if c["tr"] == "tcp" else 1,
                                                      c_timeo(c["sopts"]["SNDTIMEO"]), c_timeo(eff_timeo(c)),
                                                      max(c["sopts"]["SNDHWM"], 1), c["block_ms"])
    if k == "send_hwm":
        return "(CSock %d %d %s %d%%nat %d)" % (list(PATS).index(c["stype"]), 0 if c["tr"] == "tcp" else 1,
                                               c_timeo(c["sopts"]["SNDTIMEO"]), max(c["sopts"]["SNDHWM"], 1), c["block_ms"])
    if k == "recv_idle":
        return "(CRecvSock %d %s %s %d)" % (list(RPATS).index(c["rtype"]), c_timeo(c["ropts"]["RCVTIMEO"]),
                                           c_opt(c.get("push_after_ms")), c["block_ms"])
    raise ValueError(k)


# ---------------------------------------------------------------- oracles (property text)

def oracle_iface(c, o):
    row = o["rows"][0]
    if len(row) != 4:
        return "harness failure %s %s" % (row, o.get("detail"))
    ans, ms, copies, back = row
    s = c["sndtimeo"]
    full = "fill" not in c and not c.get("closed0")
    waiting = c["method"] != "sync"
    pop_at, close_at = c.get("pop_at"), c.get("close_at")
    if ans in (4, 8):
        return "unexpected answer %s" % row
    if copies > 1:
        return "the message is on the pipe %d times" % copies
    if ans == 0 and copies != 1:
        return "send answered Ok but the message is not on the pipe (spurious success)"
    if ans != 0 and copies != 0:
        return "send answered an error (%d) but the message is on the pipe" % ans
    if back == 3 or (back == 2 and ans == 0):
        return "a batch that is not the refused message came back"
    if c.get("closed0"):
        return None if (ans == 3 and ms == 0) else "closed pipe: expected ConnectionClosed at once, got %s" % row
    if not full:
        return None if (ans == 0 and ms == 0) else "pipe has room: expected Ok at once, got %s" % row
    # ---- the pipe is at its high-water mark
    if not waiting or s == 0:
        if ans != 1 or ms != 0:
            return "full pipe, %s: expected would-block at once, got %s" % ("sync path" if not waiting else "SNDTIMEO=0", row)
        return None
    if ans == 3:
        if close_at is None or ms < close_at:
            return "ConnectionClosed although the receiver was not dropped (yet): %s" % row
        return None
    if ans == 0:
        if pop_at is None or ms < pop_at:
            return "Ok although the pipe never had room: %s" % row
        return None
    if s > 0:
        if ans == 9:
            return "SNDTIMEO=%d: the call did not return within the horizon" % s
        if ans not in (1, 2):
            return "SNDTIMEO=%d: error class %d is neither timeout nor would-block" % (s, ans)
        if ms < s:
            return "SNDTIMEO=%d: failed EARLY after %d ms" % (s, ms)
        if ms > s + 5:
            return "SNDTIMEO=%d: failed LATE after %d ms on a paused clock" % (s, ms)
        if pop_at is not None and pop_at < s:
            return "SNDTIMEO=%d: room appeared at %d ms but the call failed (%s)" % (s, pop_at, row)
        return None
    # ---- SNDTIMEO = -1: waits until there is room
    if ans == 9:
        if pop_at is not None and pop_at < c.get("horizon", 400000) - 1000:
            return "SNDTIMEO=-1: room appeared at %d ms but the call never returned" % pop_at
        return None
    if ans in (1, 2):
        return "SNDTIMEO=-1 on a full pipe failed with %s after %d ms although the peer is alive%s" % (
            {1: "would-block", 2: "timeout"}[ans], ms, (" and drained at %d ms" % pop_at) if pop_at is not None else "")
    return "unexpected %s" % row


def oracle_recv(c, o):
    row = o["rows"][0]
    if len(row) != 4:
        return "harness failure %s" % row
    ans, ms, popped, rid = row
    r, q, pre = c["rcvtimeo"], c["queued"], c["pre"]
    push_at, close_at = c.get("push_at"), c.get("close_at")
    if ans in (4, 8):
        return "unexpected answer %s" % row
    if ans != 0 and popped != 0:
        return "recv failed (%d) but took a message off the queue (lost)" % ans
    if ans == 0 and rid == 0:
        return "recv answered Ok without a message"
    if popped > 1:
        return "one recv took %d messages off the queue" % popped
    if pre:
        return None if (ans == 0 and ms == 0 and popped == 0 and rid == 501) else "half-read message: expected its next frame at once, got %s" % row
    if q > 0:
        return None if (ans == 0 and ms == 0 and popped == 1 and rid == 101) else "queued message: expected the oldest at once, got %s" % row
    # ---- nothing queued
    if r == 0:
        return None if (ans == 1 and ms == 0) else "RCVTIMEO=0, nothing queued: expected would-block at once, got %s" % row
    if ans == 0:
        if push_at is None or ms < push_at or popped != 1 or rid != 301:
            return "Ok although nothing was queued: %s" % row
        return None
    if ans == 3:
        if close_at is None or ms < close_at:
            return "closed error although the socket was not closed: %s" % row
        return None
    if r > 0:
        if ans == 9:
            return "RCVTIMEO=%d: recv did not return" % r
        if ans not in (1, 2):
            return "RCVTIMEO=%d: class %d" % (r, ans)
        if ms < r:
            return "RCVTIMEO=%d: failed EARLY after %d ms" % (r, ms)
        if ms > r + 5:
            return "RCVTIMEO=%d: failed LATE after %d ms on a paused clock" % (r, ms)
        if push_at is not None and push_at < r:
            return "RCVTIMEO=%d: a message arrived at %d ms but recv failed" % (r, push_at)
        return None
    if ans == 9:
        if push_at is not None and push_at < 390000:
            return "RCVTIMEO=-1: a message arrived at %d ms but recv never returned" % push_at
        if close_at is not None:
            return "RCVTIMEO=-1: socket closed at %d ms but recv never returned" % close_at
        return None
    return "RCVTIMEO=-1 failed with %s" % row


class Ctx:
    kernel_bytes = 4 * 1024 * 1024


def bound_of(c):
    """messages rzmq may hold for the connection (theorems C14_buffer_bound / C14_inproc_buffer_bound /
    C14_dealer_pending_bound) plus what the kernel holds (calibration) - for the scenario's options"""
    hwm = max(c["sopts"]["SNDHWM"], 1)
    rhwm = max(c["ropts"]["RCVHWM"], 1)
    pend = (hwm + 1) if (c["stype"] == "DEALER" and 0 in (c["sopts"]["SNDTIMEO"], eff_timeo(c))) else 0
    if c["tr"] == "inproc":
        # channel (receiver's RCVHWM) + reader staging (RCVBATCH_COUNT, not capped by RCVHWM) + per-pipe queue
        return pend + 2 * rhwm + max(c["ropts"].get("RCVBATCH_COUNT", 128), 1)
    one_read = math.ceil((max(RCVBATCH_BYTES, GREEDY) + GREEDY) / c["len"]) + 1
    kernel = math.ceil(Ctx.kernel_bytes / c["len"]) + 1
    return pend + 2 * hwm + kernel + 1 + one_read + rhwm


def oracle_send_hwm(c, o):
    first = o["rows"][0][0]
    if first in (93, 94, 96):
        return None                      # scenario could not be set up: counted as inconclusive, see main()
    s = eff_timeo(c)
    lenient_delivery = (c["stype"] == "DEALER" and 0 in (s, c["sopts"]["SNDTIMEO"])) or c["stype"] == "REQ"
    for (seq, cls, us) in o["failures"]:
        if cls == 9:
            return "SNDTIMEO=%d: send() of message %d had not returned %d ms after the interval" % (s, seq, 3000)
        if cls not in (1, 2):
            return "send() of message %d failed with class %d (neither timeout nor would-block)" % (seq, cls)
        if s < 0:
            return "SNDTIMEO=-1: send() of message %d failed (class %d) after %d ms with the peer alive" % (seq, cls, us // 1000)
        if s == 0:
            if cls != 1:
                return "SNDTIMEO=0: class %d instead of would-block" % cls
            if us > LATE_MS * 1000:
                return "SNDTIMEO=0: the refusal took %d ms" % (us // 1000)
        else:
            if us < (s - EARLY_MS) * 1000:
                return "SNDTIMEO=%d: send() failed EARLY after %.1f ms" % (s, us / 1000.0)
            if us > (s + LATE_MS) * 1000:
                return "SNDTIMEO=%d: send() failed LATE after %.1f ms (3 measurements)" % (s, us / 1000.0)
    if o["blocked"]:
        seq, waited, cls, after = o["blocked"]
        if cls != 0:
            return "SNDTIMEO=-1: the waiting send() of message %d ended with class %d once the peer drained (after %d ms)" % (seq, cls, after)
    acc = o["accepted_seqs"]
    deliv = o["delivered"]
    if len(set(deliv)) != len(deliv):
        return "a message was delivered twice"
    extra = [x for x in deliv if x not in set(acc)]
    if extra:
        return "message(s) %s were refused (or never sent) yet delivered" % extra[:5]
    if not lenient_delivery:
        missing = [x for x in acc if x not in set(deliv)]
        if missing:
            return "send() answered Ok for message(s) %s that were never delivered" % missing[:5]
        if deliv != sorted(deliv):
            return "delivered out of order"
    b = bound_of(c)
    if o["max_outstanding"] > b:
        return "%d accepted-but-undelivered messages exceed the bound %d (%s)" % (
            o["max_outstanding"], b, "2*RCVHWM + RCVBATCH_COUNT" if c["tr"] == "inproc" else
            "2*SNDHWM + RCVHWM + one read + kernel %d B" % Ctx.kernel_bytes)
    if c["mode"] == "never" and s >= 0 and not o["failures"] and len(acc) >= c["nmax"]:
        return "%d messages accepted with a peer that never reads: the high-water mark was never enforced" % len(acc)
    return None


def oracle_recv_idle(c, o):
    cls = o["rows"][0][0]
    if cls in (93, 94, 96):
        return None
    r = c["ropts"]["RCVTIMEO"]
    us = o.get("elapsed_us", 0)
    pa = c.get("push_after_ms")
    got = o.get("got", [])
    if cls == 0:
        if pa is None:
            return "recv() answered Ok although nothing was sent"
        if not got or got[0] != 77:
            return "recv() returned something else than the message sent"
        if us < pa * 1000 - 2000:
            return "recv() returned before the message was sent"
    elif cls in (3, 4):
        return "recv() failed with class %d" % cls
    elif cls == 9:
        return "RCVTIMEO=%d: recv() did not return" % r
    elif cls == 5:
        if r >= 0:
            return "RCVTIMEO=%d: recv() still waiting" % r
        if o["blocked"] and o["blocked"][1] != 0:
            return "RCVTIMEO=-1: the waiting recv() did not return the message that then arrived"
    else:
        if r < 0:
            return "RCVTIMEO=-1: recv() failed with class %d" % cls
        if r == 0:
            if cls != 1:
                return "RCVTIMEO=0: class %d instead of would-block" % cls
            if us > LATE_MS * 1000:
                return "RCVTIMEO=0: the refusal took %d ms" % (us // 1000)
        else:
            if pa is not None and pa < r:
                return "RCVTIMEO=%d: a message was sent after %d ms but recv() failed" % (r, pa)
            if us < (r - EARLY_MS) * 1000:
                return "RCVTIMEO=%d: recv() failed EARLY after %.1f ms" % (r, us / 1000.0)
            if us > (r + LATE_MS) * 1000:
                return "RCVTIMEO=%d: recv() failed LATE after %.1f ms" % (r, us / 1000.0)
    # nothing lost by the refused recv: what was sent afterwards arrives, once, in order
    want = ([77] if (pa is not None) else []) + ([1] if cls == 5 else []) + [2, 3]
    if c["rtype"] == "SUB" and cls != 0 and pa is not None:
        want = [x for x in want]
    if got != want:
        return "after the refused recv(): received %s, expected %s" % (got, want)
    return None


def oracle_dealer_proc(c, o):
    if o["rows"][0][0] in (93, 94, 96):
        return None
    if o.get("lost_pre") or o.get("lost_direct"):
        return ("DEALER send() answered Ok for message(s) %s (queued before the peer connected) / %s (sent directly) that were never "
                "delivered although the ROUTER finally read everything" % (o.get("lost_pre"), o.get("lost_direct")))
    return None


def oracle(c, o):
    k = c["k"]
    if k == "dealer_proc":
        return oracle_dealer_proc(c, o)
    if k == "iface":
        return oracle_iface(c, o)
    if k == "recv":
        return oracle_recv(c, o)
    if k == "send_hwm":
        return oracle_send_hwm(c, o)
    if k == "recv_idle":
        return oracle_recv_idle(c, o)
    return None


def signature(c, o, msg):
    if c["k"] == "dealer_proc" and o.get("lost_pre") and not o.get("lost_direct"):
        return SIG_PROC
    if c["k"] == "send_hwm" and "late_sopts" in c and eff_timeo(c) != c["sopts"]["SNDTIMEO"] and (
            "SNDTIMEO=" in msg or "still waiting" in msg):
        return SIG_LATE
    if c["k"] == "iface" and c["sndtimeo"] < 0 and "SNDTIMEO=-1 on a full pipe failed" in msg:
        return SIG[c["kind"]]
    if c["k"] == "send_hwm" and c["sopts"]["SNDTIMEO"] < 0 and "SNDTIMEO=-1: send()" in msg:
        if c["tr"] == "inproc":
            return SIG["inproc"]
        if c["stype"] in ("ROUTER", "REQ"):
            return SIG["sca"]
    return None


def nontrivial(c, o):
    r = o["rows"][0]
    if c["k"] in ("iface", "recv"):
        return len(r) == 4 and not (c["k"] == "iface" and "fill" in c)
    return r[0] in (0, 1, 2, 5)


def shrink(c):
    if c["k"] == "iface":
        if c["cap"] != 2:
            d = dict(c)
            d["cap"] = 2
            if "fill" in d:
                d["fill"] = 1
            yield d
        for k in ("pop_at", "close_at"):
            if k in c and c[k] > 1:
                d = dict(c)
                d[k] = 1
                yield d
    if c["k"] == "send_hwm":
        for hw in (1, 2):
            if c["sopts"]["SNDHWM"] > hw:
                d = json.loads(json.dumps(c))
                d["sopts"]["SNDHWM"] = hw
                yield d


def main(argv):
    tier, seed = C.tier_and_seed(argv)
    res = C.Result(PROP, tier, seed)
    res.rule = ("cases = (A) every ISocketConnection implementation (sca, inproc, io_uring) x method (send_message, send_multipart, "
                "send_multipart_owned, try_send_multipart_owned_sync) x pipe state (full / room / receiver dropped) x SNDTIMEO "
                "(-1, 0, d from {1..300001 ms}) x consumer action (none / drains at t / drops the receiver at t), capacities "
                "1..1000, under a paused tokio clock; the recv engines x RCVTIMEO x queued / half-read / push at t / close at t; "
                "systematic core + random.Random(seed); (D) real PUSH/DEALER/ROUTER(mandatory)/REQ senders and PULL/SUB/DEALER/ROUTER "
                "receivers x SNDHWM/RCVHWM {1,2,7,100} x timeouts {-1,0,50,200 ms} x tcp/inproc x peer never/slow/fast, 64 KiB payloads; "
                "non-trivial = a call made at the high-water mark (A) / a classified answer (D); distinct by case JSON")
    C.proof_stage(res, PROP, ["theories/Corr/C14Corr.vo"])
    from . import optlib
    optlib.options_stage(res, PROP, [28, 27, 23, 24], n_quick=140, theorems_note='C14_sndtimeo_option_semantics, C14_rcvtimeo_option_semantics, C14_timeo_option_get_after_set, C14_hwm_option_semantics, C14_option_frame, C14_sndtimeo_zero_option_immediate, C14_sndtimeo_positive_option, C14_rcvtimeo_option_extremes, C14_option_defaults')
    rng = random.Random(seed)
    n_if, n_rc = (260, 120) if tier == "quick" else (4000, 1500)
    a_cases = gen_iface(rng, n_if) + gen_recv(rng, n_rc) + C.load_corpus(PROP, "cases")
    never, other, recv = gen_sock(rng, tier)
    recv += recv_churn_cases(tier)

    # kernel allowance: what a loopback connection with the scenarios' socket buffers swallows unread
    ok, blog = C.build_harness()
    if ok:
        cal, clog = C.run_harness("c14seq", [{"k": "calib", "sndbuf": SOCKBUF, "rcvbuf": SOCKBUF}] * 2, PROP, tag="calib", timeout=120)
        if cal:
            Ctx.kernel_bytes = max(x["rows"][0][0] for x in cal)
            res.extra["kernel_allowance_bytes"] = Ctx.kernel_bytes
        else:
            res.notes.append("calibration failed, using 4 MiB: " + str(clog)[-300:])

    # order matters for reporting only (C.differential reports the first 20 failing cases): the stack
    # scenarios first, the paused-clock cases next, and the cases that replay the RECORDED findings
    # (SNDTIMEO = -1 on a full pipe with a waiting method) last, so that they can never crowd out a new failure
    def replays_known(c):
        return c["k"] == "iface" and c["sndtimeo"] < 0 and "fill" not in c and not c.get("closed0") and c["method"] != "sync"
    a_cases = [c for c in a_cases if not replays_known(c)] + [c for c in a_cases if replays_known(c)]
    cases = never + recv + a_cases
    for c in cases + other:
        res.count("kind:" + c["k"])
        if c["k"] == "iface":
            res.count("iface:%s.%s" % (c["kind"], c["method"]))
            res.count("sndtimeo:%s" % ("-1" if c["sndtimeo"] < 0 else "0" if c["sndtimeo"] == 0 else "pos"))
        elif c["k"] == "dealer_proc":
            res.count("dealer_proc")
        elif c["k"] == "send_hwm":
            res.count("send:%s/%s/%s/%s%s" % (c["stype"], c["tr"], c["sopts"]["SNDTIMEO"], c["mode"],
                                              ("/late=%d" % eff_timeo(c)) if "late_sopts" in c else ""))
        elif c["k"] == "recv_idle":
            res.count("recv:%s/%s/%s" % (c["rtype"], c["tr"], c["ropts"]["RCVTIMEO"]))

    obs = C.differential(res, PROP, "c14", cases, to_coq, REQ, "c14_mismatches", "c14_model", oracle,
                         shrink=None, nontrivial=nontrivial, signature=signature, theorems_note=THEOREMS,
                         shards=(8 if tier == "quick" else 16))
    inconclusive = 0
    if obs:
        # C.differential reports the first 20 failing cases only; make sure every other failing case is
        # reported too (distinct signatures / inputs), so that each recorded finding is re-earned on every
        # run and nothing new hides behind them
        failing = [(i, m) for i, m in ((i, oracle(c, o)) for i, (c, o) in enumerate(zip(cases, obs))) if m]
        keyof = lambda i, m: signature(cases[i], obs[i], m) or json.dumps(cases[i], sort_keys=True)
        reported = {keyof(i, m) for (i, m) in failing[:20]}
        for (i, m) in failing[20:]:
            k = keyof(i, m)
            if k in reported:
                continue
            reported.add(k)
            sig = signature(cases[i], obs[i], m)
            res.violation({"property": PROP, "kind": "implementation violates property oracle", "what": m, "case": cases[i],
                           "impl_obs": {kk: vv for kk, vv in obs[i].items() if kk != "accepted_seqs"}, "harness": "c14",
                           "signature": sig}, found_input=True, signature=sig)
        for c, o in zip(cases, obs):
            if c["k"] == "iface":
                res.count("iface_answer:%d" % o["rows"][0][0])
            elif c["k"] in ("send_hwm", "recv_idle"):
                cls = o["rows"][0][0]
                res.count("%s_class:%d" % (c["k"], cls))
                if cls in (93, 94, 96):
                    inconclusive += 1
                if o.get("tries", 1) > 1:
                    res.count("remeasured")
                if c["k"] == "send_hwm":
                    res.extra.setdefault("hwm_rows", []).append(
                        {"s": "%s/%s hwm=%d rhwm=%d timeo=%d" % (c["stype"], c["tr"], c["sopts"]["SNDHWM"], c["ropts"]["RCVHWM"], c["sopts"]["SNDTIMEO"]),
                         "accepted": o.get("accepted"), "bound": bound_of(c), "class": cls,
                         "fail_ms": [round(f[2] / 1000.0, 1) for f in o.get("failures", [])][:2]})
    # peer reading slowly / fast: judged by the oracle only (which answer comes first depends on the race)
    if obs is not None and other:
        oobs, olog = C.run_harness("c14", other, PROP, tag="modes", timeout=900 if tier == "quick" else 3000)
        if oobs is None or len(oobs) != len(other):
            res.obligation(False, "harness run (slow/fast readers): " + str(olog)[-800:])
        else:
            res.evaluations += len(other)
            reported = set()
            for c, o in zip(other, oobs):
                cls = o["rows"][0][0]
                res.count("mode_%s_class:%d" % (c["mode"], cls))
                if cls in (93, 94, 96):
                    inconclusive += 1
                    continue
                res.nontrivial.add(json.dumps(c, sort_keys=True))
                msg = oracle(c, o)
                if msg:
                    sig = signature(c, o, msg)
                    key = sig or msg
                    if key in reported:
                        continue
                    reported.add(key)
                    if sig is None:
                        again = C.confirm_failure(res, PROP, "c14", c, c, oracle)
                        if again is None:
                            continue
                        if again[1] is not None:
                            msg, o = again
                    res.violation({"property": PROP, "kind": "implementation violates property oracle", "what": msg, "case": c,
                                   "impl_obs": {k: v for k, v in o.items() if k != "accepted_seqs"}, "harness": "c14", "signature": sig},
                                  found_input=True, signature=sig)
    total_sock = len(never) + len(recv) + len(other)
    res.obligation(inconclusive * 5 <= max(total_sock, 1), "stack scenarios that could not be set up: %d of %d" % (inconclusive, total_sock))
    return res.finish(assumptions=[
        "tokio timers: a timer armed for d fires no earlier than d and within `slack` (Section hypothesis fire_law); under the paused clock of the kind-A run it fires exactly at d",
        "fibre bounded channels: FIFO, try_send answers Full exactly when no slot is free, a dropped `send` future has not enqueued its item; slots are recycled chunk-wise, so 'room' for a waiting sender appears when the consumer has emptied a chunk (the oracle 'room after t' abstracts this)",
        "one read's worth of decoded messages (bound on ingress_buffer) is a premise of C14_buffer_bound (hadm); message_processor.rs caps one read at max(RCVBATCH_BYTES, 512 KiB) + 512 KiB",
        "kernel socket buffers hold what the calibration run measures on this machine (SO_SNDBUF = SO_RCVBUF = 64 KiB asked)",
        "ROUTER is exercised with ROUTER_MANDATORY = 1; without it ROUTER answers Ok and drops at the high-water mark (documented ZeroMQ behaviour, not counted as spurious success)",
        "SNDTIMEO is applied before connect(): every connection object snapshots it when the connection is made (a later change does not reach existing connections)",
    ])
