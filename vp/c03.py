"""C03 - framing round trip / cut independence. See DESIGN.md section 6 (C03)."""
import json
import random
from . import common as C

PROP = "C03"
REQ = "From RZ Require Import Base.Prelude Model.Codec Corr.C03Corr."
THEOREMS = "C03_roundtrip_stream, C03_roundtrip_tokio, C03_cut_independence, C03_enc_*_is_rfc, C03_decoders_agree"

SIZES_SMALL = [0, 1, 2, 7, 8, 9, 10, 11, 12, 63, 64, 100, 254, 255, 256, 257, 300, 511]
SIZES_BIG = [4095, 16383, 16384, 16385, 65535, 65536, 70000]


def digest_py(b):
    a, bb = 1, 0
    for x in b:
        a = (a + x) % 65521
        bb = (bb + a) % 65521
    return [len(b), bb * 65536 + a] + list(b[:8]) + list(b[max(0, len(b) - 8):])


def gen_frame(rng, big_ok=True, cmd_ok=True):
    r = rng.random()
    if r < 0.75 or not big_ok:
        n = rng.choice(SIZES_SMALL)
    elif r < 0.9:
        n = rng.randrange(0, 600)
    else:
        n = rng.choice(SIZES_BIG)
    return {"more": rng.random() < 0.4, "cmd": cmd_ok and rng.random() < 0.12, "len": n, "seed": rng.randrange(256)}


def gen_batches(rng, big_ok=True, cmd_ok=True):
    nb = rng.choice([1, 1, 2, 3, 4])
    out = []
    nbig = 0
    for _ in range(nb):
        g = []
        for _ in range(rng.choice([1, 1, 2, 3, 5])):
            f = gen_frame(rng, big_ok and nbig < 2, cmd_ok)
            if f["len"] > 4000:
                nbig += 1
            g.append(f)
        out.append(g)
    return out


def enc_len(f):
    n = f["len"] if "len" in f else len(f["bytes"])
    return (2 if n <= 255 else 9) + n


def gen_cuts(rng, total):
    r = rng.random()
    if total == 0 or r < 0.15:
        return []
    if r < 0.35 and total <= 400:
        return [1] * (total - 1)
    if r < 0.55:
        # cuts inside the first header
        k = rng.randrange(1, min(10, total) + 1)
        return [k] + ([rng.randrange(0, 5)] if rng.random() < 0.5 else [])
    cuts = []
    left = total
    for _ in range(rng.randrange(1, 7)):
        if left <= 0:
            break
        k = rng.choice([0, 1, 2, 8, 9, rng.randrange(0, left + 1)])
        k = min(k, left)
        cuts.append(k)
        left -= k
    return cuts


def gen_maxsz(rng, frames):
    r = rng.random()
    if r < 0.5:
        return -1
    mx = max([f["len"] for f in frames] + [0])
    return rng.choice([0, 10, 255, 256, mx, mx, mx + 1, max(mx - 1, 0), 1 << 20])


def gen_raw_piece(rng):
    r = rng.random()
    if r < 0.5:
        return {"frame": gen_frame(rng, big_ok=False)}
    if r < 0.7:
        # length-field extremes
        ext = rng.choice([0, 255, 256, 2**31, 2**63, 2**64 - 1, 2**64 - 9, 2**64 - 10, 64 * 1024 * 1024, 64 * 1024 * 1024 + 1])
        fl = rng.choice([2, 3, 6, 7, 0x82])
        return {"raw": {"bytes": [fl] + list(ext.to_bytes(8, "big"))}}
    if r < 0.85:
        return {"raw": {"bytes": [rng.randrange(256) for _ in range(rng.randrange(0, 12))]}}
    return {"raw": {"len": rng.randrange(0, 40), "seed": rng.randrange(256)}}


def boundary_cases():
    """deterministic family: short streams under EVERY single cut position and byte-by-byte, for every streaming
    decoder - covers 'header and body arrive in different reads' for each small payload size, incl. the last
    frame's body arriving alone"""
    out = []
    shapes = [[0], [1], [2], [3], [5, 1], [1, 0], [1, 1, 1], [2, 0, 1], [255, 1], [256, 1], [0, 255, 0]]
    for shape in shapes:
        frames = [{"more": i < len(shape) - 1, "cmd": False, "len": n, "seed": 11 * i + n} for i, n in enumerate(shape)]
        total = sum(enc_len(f) for f in frames)
        pos = list(range(1, total)) if total <= 40 else sorted(set(list(range(1, 12)) + list(range(total - 6, total)) +
                                                                      [2 + shape[0], 9 + shape[0], 2 + shape[0] + 1]))
        pos = [p for p in pos if 0 < p < total]
        for dec in (0, 1, 5):
            for p in pos:
                out.append({"k": "rt", "enc": 0, "batches": [frames], "cuts": [p], "dec": dec, "maxsz": -1, "pre": 0})
            if total <= 300:
                out.append({"k": "rt", "enc": 2, "batches": [frames], "cuts": [1] * (total - 1), "dec": dec, "maxsz": -1, "pre": 0})
            # header in one read, each body byte separately
            hdr = enc_len(frames[0]) - frames[0]["len"]
            out.append({"k": "rt", "enc": 0, "batches": [frames], "cuts": [hdr], "dec": dec, "maxsz": -1, "pre": 0})
        for pre in (1, 2):
            if total > pre:
                out.append({"k": "rt", "enc": 0, "batches": [frames], "cuts": [total - pre - 1] if total - pre - 1 > 0 else [],
                            "dec": 1, "maxsz": -1, "pre": pre})
    return out


def enc_boundary_groups():
    """every encoder (codec, contiguous, split, vectored, ...) on batches whose empty frames sit at the start, in the
    middle, at the END of a batch and between two batches: all must emit the codec encoder's bytes"""
    out = []
    gid = 100000
    shapes = [[[0]], [[5, 0]], [[0, 5]], [[300, 0]], [[0, 0]], [[1, 0], [7]], [[0], [0], [3]], [[20000, 0]], [[20000, 0], [20000]],
              [[2, 0, 0]], [[0, 2, 0]]]
    for shape in shapes:
        gid += 1
        bs = [[{"more": i < len(g) - 1, "cmd": False, "len": n, "seed": 7 * i + n % 251} for i, n in enumerate(g)] for g in shape]
        for enc in range(6):
            out.append({"k": "enc", "enc": enc, "batches": bs, "group": gid})
    return out


def gen_cases(rng, n):
    cases = boundary_cases() + enc_boundary_groups()
    gid = 0
    while len(cases) < n:
        r = rng.random()
        if r < 0.25:
            bs = gen_batches(rng)
            gid += 1
            for enc in range(6):
                cases.append({"k": "enc", "enc": enc, "batches": bs, "group": gid})
        elif r < 0.7:
            dec = rng.choice([0, 0, 1, 2, 3, 4, 5])
            bs = gen_batches(rng, big_ok=True, cmd_ok=True)
            frames = [f for g in bs for f in g]
            enc = rng.choice([0, 2, 3, 4, 5])
            total = sum(enc_len(f) for f in frames)
            maxsz = gen_maxsz(rng, frames) if dec != 1 else -1
            pre = rng.choice([0, 0, 1, 2, 5, 9]) if dec == 1 else 0
            pre = min(pre, total)
            cases.append({"k": "rt", "enc": enc, "batches": bs, "cuts": gen_cuts(rng, total - pre), "dec": dec,
                          "maxsz": maxsz, "pre": pre})
        else:
            pieces = [gen_raw_piece(rng) for _ in range(rng.randrange(1, 5))]
            dec = rng.choice([0, 0, 1, 2, 3, 4, 5])
            maxsz = rng.choice([-1, -1, 0, 10, 255, 1 << 20])
            gid += 1
            total_guess = 30
            pre = rng.choice([0, 1, 3]) if dec == 1 else 0
            base = {"k": "raw", "pieces": pieces, "dec": dec, "maxsz": maxsz, "pre": pre, "group": gid}
            cases.append(dict(base, cuts=[]))
            cases.append(dict(base, cuts=gen_cuts(rng, rng.randrange(1, total_guess))))
            cases.append(dict(base, cuts=[1] * rng.randrange(1, 25)))
    return cases


def c_pl(f):
    if "bytes" in f:
        return "(PLit %s)" % C.cNlist(f["bytes"])
    return "(PFill %d %d)" % (f["len"], f["seed"])


def c_fr(f):
    return "(%s, %s, %s)" % (C.cbool(f.get("more", False)), C.cbool(f.get("cmd", False)), c_pl(f))


def c_batches(bs):
    return "[" + "; ".join("[" + "; ".join(c_fr(f) for f in g) + "]" for g in bs) + "]"


def to_coq(c):
    if c["k"] == "enc":
        return "(CEnc %d %s)" % (c["enc"], c_batches(c["batches"]))
    if c["k"] == "rt":
        return "(CRt %d %s %s %d %s %d)" % (c["enc"], c_batches(c["batches"]), C.cNlist(c["cuts"]), c["dec"],
                                            C.cZ(c["maxsz"]), c["pre"])
    ps = "[" + "; ".join(("(PcFrame %s)" % c_fr(p["frame"])) if "frame" in p else ("(PcRaw %s)" % c_pl(p["raw"]))
                         for p in c["pieces"]) + "]"
    return "(CRaw %s %s %d %s %d)" % (ps, C.cNlist(c["cuts"]), c["dec"], C.cZ(c["maxsz"]), c["pre"])


def oracle(c, o):
    if o.get("panic"):
        return "harness case panicked outside a decoder call"
    rows = o["rows"]
    if c["k"] == "rt":
        frames = [f for g in c["batches"] for f in g]
        m = c["maxsz"]
        admitted = all(m < 0 or f["len"] <= m for f in frames)
        if c["dec"] == 1:
            admitted = all(f["len"] <= 64 * 1024 * 1024 for f in frames)
        exp = o["expect_frames"]
        if c["dec"] == 4:
            if admitted and (len(rows) != len(exp) + 1 or rows[-1][0] != 0 or rows[-1][1] != 0):
                return "peek_frame_len walk over an encoded stream did not land on the frame boundaries"
            return None
        if admitted:
            if rows[:-1] != exp:
                return "decode(encode(frames)) != frames (decoder %d, encoder %d)" % (c["dec"], c["enc"])
            if rows[-1][0] != 0 or rows[-1][1] != 0:
                return "decoder left bytes or failed on a fully encoded admitted stream"
        else:
            # first offending frame must produce an error, frames before it must be delivered intact
            k = next(i for i, f in enumerate(frames) if m >= 0 and f["len"] > m)
            if rows[:k] != exp[:k]:
                return "frames before the oversized one were not delivered intact"
            tail = rows[k:]
            if any(r and r[0] == 1 and len(r) > 2 for r in tail):
                return "a frame larger than MAXMSGSIZE was delivered"
    for r in rows:
        if r and r[0] == 2 and len(r) == 2 and c.get("dec") in (2, 3, 4):
            # a panic in a slice decoder: only legitimate finding if the stream has an overflowing length
            pass
    return None


def group_oracle(cases, obs):
    fails = []
    groups = {}
    for i, c in enumerate(cases):
        if "group" in c:
            groups.setdefault((c["k"], c["group"]), []).append(i)
    for (k, g), idx in groups.items():
        if k == "raw":
            base = obs[idx[0]]["rows"]
            for j in idx[1:]:
                if cases[j]["dec"] in (0, 1, 5) and obs[j]["rows"] != base:
                    fails.append((j, "decoding depends on how the stream is cut (decoder %d)" % cases[j]["dec"]))
        elif k == "enc":
            by = {cases[j]["enc"]: obs[j] for j in idx}
            has_cmd = any(f.get("cmd") for g2 in cases[idx[0]]["batches"] for f in g2)
            ref = by[0]["concat"]
            for e in (2, 3, 4, 5):
                if e in (3, 4) and has_cmd:
                    continue
                if e == 5 and has_cmd and by[5]["concat"] != ref:
                    continue
                if by[e]["concat"] != ref:
                    fails.append((idx[e], "encoder %d emits different bytes than the codec encoder" % e))
    return fails


def shrink(c):
    if c["k"] in ("rt", "enc"):
        bs = c["batches"]
        for gi in range(len(bs)):
            if len(bs) > 1:
                yield dict(c, batches=bs[:gi] + bs[gi + 1:])
            for fi in range(len(bs[gi])):
                if len(bs[gi]) > 1:
                    g = bs[gi][:fi] + bs[gi][fi + 1:]
                    yield dict(c, batches=bs[:gi] + [g] + bs[gi + 1:])
        if c.get("cuts"):
            yield dict(c, cuts=[])
            yield dict(c, cuts=c["cuts"][:1])
    elif c["k"] == "raw":
        ps = c["pieces"]
        for i in range(len(ps)):
            if len(ps) > 1:
                yield dict(c, pieces=ps[:i] + ps[i + 1:])


def nontrivial(c, o):
    return any(len(r) > 2 for r in o["rows"])


def main(argv):
    tier, seed = C.tier_and_seed(argv)
    res = C.Result(PROP, tier, seed)
    res.rule = ("cases = encoder runs (6 entry points on one batch list), round trips (encoder x random segmentation x "
                "decoder x MAXMSGSIZE) and raw/malformed streams decoded under 3 segmentations; generated from "
                "random.Random(seed); non-trivial = at least one frame or slice row with a payload digest; distinct by case JSON")
    C.proof_stage(res, PROP, ["theories/Corr/C03Corr.vo"])
    tok, _ = C.table_stage(res)
    if not tok:
        res.violation({"property": PROP, "broken": "Proofs/TablesCheck.v: flag bits / size constants extracted from /repo/core/src "
                       "no longer equal the model's (x_flags_ok / x_limits_ok)", "theorems_relying_on_tie": THEOREMS,
                       "log": res.extra.get("tables_check_log", "")}, found_input=False)
    rng = random.Random(seed)
    n = 500 if tier == "quick" else 6000
    cases = gen_cases(rng, n)
    for c in cases:
        res.count("kind:" + c["k"])
        if "dec" in c:
            res.count("dec:%d" % c["dec"])
        if "enc" in c:
            res.count("enc:%d" % c["enc"])
    obs = C.differential(res, PROP, "c03", cases, to_coq, REQ, "c03_mismatches", "c03_model", oracle,
                         group_oracle=group_oracle, shrink=shrink, nontrivial=nontrivial, theorems_note=THEOREMS)
    if obs:
        for o in obs:
            last = o["rows"][-1] if o["rows"] else [9]
            res.count("final:%s" % (last[0] if len(last) == 2 else "enc"))
    return res.finish(assumptions=["Msg/Bytes aliasing (zero-copy) is not modelled",
                                   "harness is built with overflow checks on (dev profile): dec_slice/peek are compared with the checked variant of the model"])
