"""Option layer (core/src/socket/options.rs) - shared by C07 C14 C15 C17 C19.
Translator tie (vp/extract_options.py -> Extracted/OptionsX.v -> Proofs/OptionsCheck.v) plus a behavioural
correspondence through the public set_option_raw / get_option of a real PUSH socket (harness `vh opt`)."""
import random
from . import common as C

REQ = "From RZ Require Import Base.Prelude Model.Engine Model.Options Corr.OptCorr."
ID = dict(SNDBUF=11, RCVBUF=12, SNDHWM=23, RCVHWM=24, LINGER=17, SUBSCRIBE=6, UNSUBSCRIBE=7, ROUTING_ID=5, RECONNECT_IVL=18,
          RECONNECT_IVL_MAX=21, RCVTIMEO=27, SNDTIMEO=28, LAST_ENDPOINT=32, TCP_KEEPALIVE=34, TCP_KEEPALIVE_IDLE=35,
          TCP_KEEPALIVE_CNT=36, TCP_KEEPALIVE_INTVL=37, HEARTBEAT_IVL=38, HEARTBEAT_TIMEOUT=39, HANDSHAKE_IVL=41,
          ROUTER_MANDATORY=33, AUTO_DELIMITER=42, ZAP_DOMAIN=55, PLAIN_SERVER=44, PLAIN_USERNAME=45, PLAIN_PASSWORD=46,
          NOISE_XX_ENABLED=1202, NOISE_XX_STATIC_SECRET_KEY=1200, NOISE_XX_REMOTE_STATIC_PUBLIC_KEY=1201, CURVE_SERVER=47,
          CURVE_SECRET_KEY=49, CURVE_SERVER_KEY=48, MAXMSGSIZE=22, MAX_CONNECTIONS=1000, IO_URING_SNDZEROCOPY=1170,
          IO_URING_RCVMULTISHOT=1171, TCP_CORK=1172, IO_URING_SESSION_ENABLED=1175, IO_URING_ZC_SEND_THRESHOLD=1176,
          ADAPTIVE_THROTTLE=1210, ALLOW_ZMTP2=1220, SNDBATCH_COUNT=1215, SNDBATCH_BYTES=1216, RCVBATCH_COUNT=1217,
          RCVBATCH_BYTES=1218)
NAME = {v: k for k, v in ID.items()}
INT_IDS = [11, 12, 23, 24, 17, 18, 21, 27, 28, 34, 35, 36, 37, 38, 39, 41, 1000, 1172, 1220, 1202, 47, 44, 1175, 1170, 1171,
           1176, 1210, 1215, 1216, 1217, 1218]
STR_IDS = [55, 45, 46]
KEY_IDS = [1200, 1201, 49, 48]
ELSEWHERE = [16, 32]        # ZMQ_TYPE, LAST_ENDPOINT: get_option answers them from CoreState, outside the model
ODD_IDS = [6, 7, 32, 33, 42, 16, 0, 9999, 40, 2 ** 31 - 1]
INTS = [-2 ** 31, -2 ** 31 + 1, -1000, -2, -1, 0, 1, 2, 3, 100, 255, 256, 1000, 30000, 65535, 65536, 2 ** 31 - 2, 2 ** 31 - 1]
I64S = [-2 ** 63, -2 ** 31, -2, -1, 0, 1, 64, 65536, 2 ** 31, 2 ** 32, 2 ** 63 - 1]

# what the property texts say about the options they name: id -> (valid?(v), value read back)
SPEC = {
    28: (lambda v: v >= -1, lambda v: v), 27: (lambda v: v >= -1, lambda v: v),          # SNDTIMEO / RCVTIMEO
    17: (lambda v: v >= -1, lambda v: v),                                                  # LINGER
    23: (lambda v: True, lambda v: max(v, 0)), 24: (lambda v: True, lambda v: max(v, 0)),  # HWMs
    38: (lambda v: v >= 0, lambda v: v), 39: (lambda v: v >= 0, lambda v: v),              # HEARTBEAT_IVL / _TIMEOUT
    41: (lambda v: v >= 0, lambda v: v),                                                  # HANDSHAKE_IVL
    18: (lambda v: v >= -1, lambda v: max(v, 0)), 21: (lambda v: v >= 0, lambda v: v),     # RECONNECT_IVL / _MAX
}


def i32b(v):
    return list((v % 2 ** 32).to_bytes(4, "little"))


def i64b(v):
    return list((v % 2 ** 64).to_bytes(8, "little"))


def gen_value(rng, oid):
    r = rng.random()
    if oid == 22:
        if r < 0.8:
            return i64b(rng.choice(I64S + [rng.randrange(-5, 5000)]))
        return [rng.randrange(256) for _ in range(rng.choice([0, 1, 4, 7, 9]))]
    if oid in STR_IDS:
        if r < 0.6:
            return [rng.choice(b"abcXYZ09-_ ") for _ in range(rng.randrange(0, 12))]
        return rng.choice([[0xC3, 0xA9], [0xC3], [0xFF], [0xE2, 0x82, 0xAC], [0xED, 0xA0, 0x80], [0xF0, 0x9F, 0x98, 0x80],
                           [0xC0, 0x80], [0x61, 0x80], [0xF4, 0x90, 0x80, 0x80], []])
    if oid in KEY_IDS:
        n = rng.choice([32, 32, 32, 31, 33, 0, 4])
        return [rng.randrange(256) for _ in range(n)]
    if oid == 5:
        n = rng.choice([0, 1, 2, 4, 5, 200, 255, 256, 300])
        return [rng.randrange(256) for _ in range(n)]
    if r < 0.82:
        return i32b(rng.choice(INTS + [rng.randrange(-10, 70000)]))
    return [rng.randrange(256) for _ in range(rng.choice([0, 1, 2, 3, 5, 8]))]


def directed_cases(focus):
    out = []
    for oid in focus:
        vals = I64S if oid == 22 else INTS
        for v in vals:
            b = i64b(v) if oid == 22 else i32b(v)
            out.append({"st": "PUSH", "ops": [[oid, b]], "gets": [oid]})
            # a refused value must leave the previously accepted one in place
            good = i64b(77) if oid == 22 else i32b(77)
            out.append({"st": "PUSH", "ops": [[oid, good], [oid, b]], "gets": [oid]})
        for n in (0, 1, 3, 5, 8, 9):
            out.append({"st": "PUSH", "ops": [[oid, [1] * n]], "gets": [oid]})
    out.append({"st": "PUSH", "ops": [], "gets": sorted(set(INT_IDS + STR_IDS + KEY_IDS + [5, 22] + ODD_IDS) - set(ELSEWHERE))})
    return out


def gen_cases(rng, n, focus):
    cases = directed_cases(focus)
    pool = INT_IDS + STR_IDS + KEY_IDS + [5, 22]
    while len(cases) < n:
        ops = []
        for _ in range(rng.choice([1, 2, 2, 3, 4, 6])):
            r = rng.random()
            oid = rng.choice(focus) if r < 0.45 else rng.choice(pool) if r < 0.93 else rng.choice(ODD_IDS)
            ops.append([oid, gen_value(rng, oid)])
        gets = sorted(set([o for o, _ in ops if o not in ELSEWHERE] + [rng.choice(pool) for _ in range(3)] + [27, 28, 17, 23]))
        if rng.random() < 0.1:
            gets.append(rng.choice([x for x in ODD_IDS if x not in ELSEWHERE]))
        cases.append({"st": "PUSH", "ops": ops, "gets": gets})
    return cases


def to_coq(c):
    ops = "[" + "; ".join("(%s, %s)" % (C.cZ(o), C.cNlist(b)) for o, b in c["ops"]) + "]"
    return "(%s, [%s])" % (ops, "; ".join(C.cZ(g) for g in c["gets"]))


def oracle(c, o):
    rows = o["rows"]
    nops = len(c["ops"])
    if len(rows) != nops + len(c["gets"]):
        return "option history did not run to completion"
    cur = {}
    for (oid, b), r in zip(c["ops"], rows):
        if oid not in SPEC:
            continue
        valid, _ = SPEC[oid]
        if len(b) == 4:
            v = int.from_bytes(bytes(b), "little", signed=True)
            if valid(v):
                if r != [0]:
                    return "%s = %d is a value the option admits but set_option refused it" % (NAME[oid], v)
                cur[oid] = v
                continue
        if r == [0]:
            return "%s accepted the malformed / out-of-range value %s" % (NAME[oid], b)
    for g, r in zip(c["gets"], rows[nops:]):
        if g in cur:
            want = SPEC[g][1](cur[g])
            if r[0] != 2 or r[2:] != i32b(want):
                return "%s was set to %d but reads back as %s (expected %d): the option does not mean what was set" % (
                    NAME[g], cur[g], r, want)
    return None


def nontrivial(c, o):
    return any(r == [0] for r in o["rows"][:len(c["ops"])])


def options_stage(res, prop, focus, n_quick=160, n_thorough=2500, theorems_note=""):
    """translator tie + behavioural correspondence of the option layer, recorded as obligations of `res`"""
    from . import extract_options
    ok, note = extract_options.main()
    if not ok:
        res.notes.append("option translator failed open: " + note)
    res.extra["translator"] = ("vp/extract_options.py regenerates coq/theories/Extracted/OptionsX.v from core/src/socket/options.rs "
                               "(option parsers, apply/retrieve tables, defaults, ZmtpEngineConfig::from, slot size) on this run: %s; "
                               "Proofs/OptionsCheck.v re-proves it equal to Model/Options.v and Model/EngineCfg.v" % note)
    good, log = C.coq_build(["theories/Proofs/OptionsCheck.vo", "theories/Corr/OptCorr.vo"])
    res.obligation(good, "option layer translated from /repo/core/src/socket/options.rs equals Model/Options.v "
                   "(Proofs/OptionsCheck.v): " + log[-1200:])
    if not good:
        res.extra["options_check_log"] = log[-3000:]
        res.extra["broken_proof_log"] = log[-3000:]
    rng = random.Random(res.seed * 7919 + 17)
    cases = gen_cases(rng, n_quick if res.tier == "quick" else n_thorough, focus)
    for c in cases:
        res.count("opt:histories")
        for oid, b in c["ops"]:
            res.count("opt:set:%s" % NAME.get(oid, "other"))
    obs = C.differential(res, prop, "opt", cases, to_coq, REQ, "opt_mismatches", "opt_model", oracle,
                         nontrivial=nontrivial, theorems_note=theorems_note, tag="opt", confirm=False)
    if obs:
        for c, o in zip(cases, obs):
            for r in o["rows"][:len(c["ops"])]:
                res.count("opt:result:%s" % ("ok" if r == [0] else "err%d" % r[1]))
    return good


# ---------------------------------------------------------------- calculate_required_slot_size (C01)
def slot_stage(res, prop, theorems_note=""):
    """sndbatch_bytes_physical: the real `calculate_required_slot_size` against Model/EngineCfg.slot_size, with an oracle
    written from the property (a batch within the logical limits must fit, framed, under the ceiling)"""
    import os
    page = os.sysconf("SC_PAGESIZE")
    rng = random.Random(res.seed * 104729 + 3)
    cases = []
    for t in [0, 1, 255, 256, 257, 511, 512, 4095, 4096, 65535, 65536, 262144, 2 ** 31 - 1]:
        for c in [0, 1, 2, 127, 128, 256, 1024, 2 ** 31 - 1]:
            cases.append({"target": t, "count": c})
    n = 150 if res.tier == "quick" else 3000
    while len(cases) < n:
        cases.append({"target": rng.choice([rng.randrange(0, 3000), rng.randrange(0, 1 << 20), rng.randrange(0, 1 << 31)]),
                      "count": rng.choice([rng.randrange(0, 40), rng.randrange(0, 5000), rng.randrange(0, 1 << 31)])})
    for c in cases:
        # a size list within the limits, adversarial: as many 256-byte frames as fit, the rest 1-byte or empty frames
        k = min(c["count"], c["target"] // 256)
        rest = c["count"] - k
        small = min(rest, c["target"] - 256 * k)
        c["framed"] = k * (256 + 9) + small * (1 + 2) + (rest - small) * 2

    def oracle(c, o):
        r = o["rows"][0]
        if r[0] != 4:
            return "calculate_required_slot_size panicked"
        if r[1] < c["framed"]:
            return ("physical ceiling %d is below the framed size %d of a batch the logical limits admit (target %d, count %d)"
                    % (r[1], c["framed"], c["target"], c["count"]))
        return None

    res.count("optslot:cases", len(cases))
    C.differential(res, prop, "optslot", cases, lambda c: "(%d, %d, %d)" % (page, c["target"], c["count"]), REQ,
                   "slot_mismatches", "slot_model", oracle, theorems_note=theorems_note, tag="optslot", confirm=False,
                   strip=lambda c: {"target": c["target"], "count": c["count"]})
