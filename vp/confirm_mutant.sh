#!/bin/bash
# usage: confirm_mutant.sh <worktree> <features> <test targets...>
# In the agent's worktree (change applied, core/tests/seeded_demo.rs present): confirms that the crate builds, the
# listed existing tests + lib tests pass WITH the change, the demo FAILS with it and PASSES without it.
WT=$1; FEAT=$2; shift 2
cd $WT || exit 2
export CARGO_NET_OFFLINE=true
echo "== build"; cargo build -p rzmq --offline --features full-linux 2>&1 | grep -E "^error|Finished" | tail -2
echo "== lib tests with change"; cargo test -p rzmq --offline --features $FEAT --lib 2>&1 | grep -E "^test result|FAILED|failed" | tail -3
for t in "$@"; do echo "== test $t with change"; cargo test -p rzmq --offline --features $FEAT --test $t 2>&1 | grep -E "^test result|FAILED" | tail -2; done
echo "== demo WITH change (must fail)"; cargo test -p rzmq --offline --features $FEAT --test seeded_demo 2>&1 | grep -E "^test result|FAILED|panicked" | tail -4
git apply -R patch.diff || { echo "cannot revert"; exit 3; }
echo "== demo WITHOUT change (must pass)"; cargo test -p rzmq --offline --features $FEAT --test seeded_demo 2>&1 | grep -E "^test result|FAILED" | tail -2
git apply patch.diff
