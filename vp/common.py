"""Shared machinery for the rzmq verification checks (see DESIGN.md sections 2-4)."""
import fcntl
import json
import os
import random
import re
import subprocess
import sys
import time
from concurrent.futures import ThreadPoolExecutor

ROOT = os.environ.get("VERIF_ROOT") or os.path.dirname(os.path.dirname(os.path.abspath(__file__)))
COQ = os.path.join(ROOT, "coq")
CACHE = os.path.join(ROOT, ".cache")
HARNESS = os.path.join(ROOT, "harness")
TARGET = os.path.join(CACHE, "target")
VH = os.path.join(TARGET, "debug", "vh")
REPO = os.environ.get("VERIF_REPO", "/repo")

FORBIDDEN = re.compile(
    r"\b(Admitted|admit|Axiom|Axioms|Parameter|Parameters|Conjecture|Conjectures)\b|Unset Guard|bypass_check|type-in-type|impredicative-set|Admit Obligations|Unset Positivity|Unset Universe"
)
# stdlib axioms we allow theorems to depend on (none are needed today; kept by name)
ALLOWED_AXIOMS = set()

TRUSTED_BASE = [
    "Coq 8.16.1 kernel incl. vm_compute (no native_compute)",
    "hand-written Gallina models under coq/theories/Model (tied to /repo by the correspondence run)",
    "Rust harness /verif/harness + cfg(rzmq_verif) facade core/src/verif",
    "python driver vp/*.py (case generation, cases.v printer, in-Coq comparison obs_eqb)",
]


def now():
    return time.time()


def sh(cmd, timeout=1800, cwd=None, env=None, stdin=None):
    """Run a shell command, return (rc, combined output)."""
    e = dict(os.environ)
    e.setdefault("CARGO_NET_OFFLINE", "true")
    if env:
        e.update(env)
    try:
        p = subprocess.run(
            cmd, shell=isinstance(cmd, str), cwd=cwd, env=e, stdout=subprocess.PIPE,
            stderr=subprocess.STDOUT, timeout=timeout, input=stdin,
        )
        return p.returncode, p.stdout.decode("utf-8", "replace")
    except subprocess.TimeoutExpired as ex:
        out = ex.stdout.decode("utf-8", "replace") if ex.stdout else ""
        return 124, out + "\n[timeout]"


class Lock:
    def __init__(self, name):
        os.makedirs(CACHE, exist_ok=True)
        self.path = os.path.join(CACHE, name + ".lock")

    def __enter__(self):
        self.f = open(self.path, "w")
        fcntl.flock(self.f, fcntl.LOCK_EX)
        return self

    def __exit__(self, *a):
        fcntl.flock(self.f, fcntl.LOCK_UN)
        self.f.close()


# ---------------------------------------------------------------- Coq side

def coq_build(targets):
    """make the given .vo targets (paths relative to coq/). Returns (ok, log)."""
    with Lock("coq"):
        rc, out = sh(["make", "-j16"] + targets, cwd=COQ, timeout=2400)
    return rc == 0, out


def coq_forbidden_hits():
    hits = []
    for d, _, fs in os.walk(os.path.join(COQ, "theories")):
        for f in fs:
            if not f.endswith(".v"):
                continue
            p = os.path.join(d, f)
            txt = open(p).read()
            # strip comments (non-nested is enough for our files; nested handled by loop)
            prev = None
            while prev != txt:
                prev = txt
                txt = re.sub(r"\(\*[^*(]*(?:\*(?!\))[^*(]*|\((?!\*)[^*(]*)*\*\)", " ", txt)
            for m in FORBIDDEN.finditer(txt):
                hits.append("%s: %s" % (os.path.relpath(p, ROOT), m.group(0)))
    return hits


def coq_audit(prop):
    """Compile Audit/<prop>_audit.v fresh; parse Print Assumptions output.
    Returns dict(ok, theorems=[(name, closed|axioms list)], log)."""
    src = os.path.join(COQ, "theories", "Audit", prop + "_audit.v")
    if not os.path.exists(src):
        return dict(ok=False, theorems=[], log="missing audit file " + src)
    with Lock("coq"):
        rc, out = sh(["coqc", "-Q", "theories", "RZ", "-w", "-notation-overridden", src], cwd=COQ, timeout=900)
    for ext in (".vo", ".vok", ".vos", ".glob"):
        try:
            os.remove(src[:-2] + ext)
        except OSError:
            pass
    theorems = []
    ok = rc == 0
    # output blocks: "Closed under the global context" or "Axioms:\n name : type ..."
    names = re.findall(r"^Print Assumptions (\w+)\.", open(src).read(), re.M)
    blocks = re.split(r"(?m)^(?=Closed under the global context|Axioms:)", out)
    blocks = [b for b in blocks if b.startswith("Closed") or b.startswith("Axioms:")]
    if len(blocks) != len(names):
        ok = False
    for n, b in zip(names, blocks):
        if b.startswith("Closed"):
            theorems.append((n, []))
        else:
            ax = re.findall(r"(?m)^(\S+)\s*:", b[len("Axioms:"):])
            theorems.append((n, ax))
            if any(a not in ALLOWED_AXIOMS for a in ax):
                ok = False
    return dict(ok=ok, theorems=theorems, log=out, n_expected=len(names))


def cN(n):
    return str(int(n))


def clist(xs, scope=""):
    return "[" + "; ".join(xs) + "]" + scope


def cNlist(xs):
    return "[" + "; ".join(str(int(x)) for x in xs) + "]"


def cbool(b):
    return "true" if b else "false"


def cZ(z):
    z = int(z)
    return "(%d)%%Z" % z


def cobs(rows):
    return "[" + "; ".join(cNlist(r) for r in rows) + "]"


def run_coq_cases(prop, requires, mismatch_fn, case_terms, shards=16, tag="cases"):
    """case_terms: list of (idx, case_term, obs_term). Writes sharded cases files, evaluates
    `mismatch_fn cases` with vm_compute in each and returns (ok, mismatching idx list, log)."""
    d = os.path.join(CACHE, "cases", prop)
    os.makedirs(d, exist_ok=True)
    for f in os.listdir(d):
        if f.startswith(tag):
            os.remove(os.path.join(d, f))
    if not case_terms:
        return True, [], ""
    shards = max(1, min(shards, (len(case_terms) + 7) // 8))
    files = []
    for s in range(shards):
        part = case_terms[s::shards]
        if not part:
            continue
        p = os.path.join(d, "%s_%02d.v" % (tag, s))
        with open(p, "w") as f:
            f.write(requires + "\nLocal Open Scope N_scope.\n")
            f.write("Definition cases := [\n")
            f.write(";\n".join("  (%d, %s, %s)" % (i, c, o) for (i, c, o) in part))
            f.write("\n].\n")
            f.write("Eval vm_compute in (%s cases).\n" % mismatch_fn)
        files.append(p)

    def one(p):
        rc, out = sh(["coqc", "-noglob", "-Q", os.path.join(COQ, "theories"), "RZ", "-Q", d, "VCases", p], cwd=d, timeout=1200)
        return p, rc, out

    bad = []
    ok = True
    log = ""
    with ThreadPoolExecutor(max_workers=16) as ex:
        for p, rc, out in ex.map(one, files):
            if rc != 0:
                ok = False
                log += "coqc failed on %s:\n%s\n" % (p, out[-3000:])
                continue
            m = re.search(r"=\s*(\[.*?\])\s*(%N)?\s*:\s*list N", out, re.S)
            if not m:
                ok = False
                log += "unparsable output from %s:\n%s\n" % (p, out[-2000:])
                continue
            bad += [int(x) for x in re.findall(r"\d+", m.group(1))]
    return ok, sorted(bad), log


def coq_eval(prop, requires, expr, tag="eval"):
    """Evaluate one expression, return raw output (used to print the model's view of a case)."""
    d = os.path.join(CACHE, "cases", prop)
    os.makedirs(d, exist_ok=True)
    p = os.path.join(d, tag + ".v")
    with open(p, "w") as f:
        f.write(requires + "\nLocal Open Scope N_scope.\nEval vm_compute in (%s).\n" % expr)
    rc, out = sh(["coqc", "-noglob", "-Q", os.path.join(COQ, "theories"), "RZ", p], cwd=d, timeout=600)
    return out


def parse_obs(out):
    """Parse a printed `list (list N)` into python lists (loose)."""
    m = re.search(r"=\s*(\[.*\])\s*(%N)?\s*:\s*", out, re.S)
    if not m:
        return None
    txt = m.group(1)
    rows = []
    depth = 0
    cur = None
    for tok in re.findall(r"\[|\]|\d+", txt):
        if tok == "[":
            depth += 1
            if depth == 2:
                cur = []
        elif tok == "]":
            if depth == 2:
                rows.append(cur)
                cur = None
            depth -= 1
        elif cur is not None:
            cur.append(int(tok))
    return rows


# ---------------------------------------------------------------- Rust side

def build_harness():
    os.makedirs(CACHE, exist_ok=True)
    with Lock("cargo"):
        lock_src = os.path.join(REPO, "Cargo.lock")
        lock_dst = os.path.join(HARNESS, "Cargo.lock")
        if not os.path.exists(lock_dst):
            import shutil
            shutil.copy(lock_src, lock_dst)
        rc, out = sh(["cargo", "build", "--offline", "--quiet"], cwd=HARNESS, timeout=3000,
                     env={"CARGO_NET_OFFLINE": "true"})
    errs = "\n".join(l for l in out.splitlines() if l.startswith("error") or "error[" in l)
    return rc == 0, (errs + "\n" + out[-3000:]) if rc != 0 else ""


def run_harness(sub, cases, prop, tag="cases", timeout=1800, extra_env=None):
    d = os.path.join(CACHE, "cases", prop)
    os.makedirs(d, exist_ok=True)
    cin = os.path.join(d, tag + "_in.json")
    cout = os.path.join(d, tag + "_out.json")
    json.dump(cases, open(cin, "w"))
    if os.path.exists(cout):
        os.remove(cout)
    rc, out = sh([VH, sub, cin, cout], timeout=timeout, env=extra_env)
    if rc != 0 or not os.path.exists(cout):
        return None, "harness %s failed rc=%s\n%s" % (sub, rc, out[-3000:])
    return json.load(open(cout)), out


# ---------------------------------------------------------------- findings / verdicts

def load_known():
    p = os.path.join(ROOT, "known_findings.json")
    if not os.path.exists(p):
        return []
    return json.load(open(p)).get("findings", [])


class Result:
    """Accumulates the outcome of one check run and writes evidence / replay files."""

    def __init__(self, prop, tier, seed):
        self.prop = prop
        self.tier = tier
        self.seed = seed
        self.t0 = now()
        self.violations = []       # (replay_obj, suffix)
        self.known_hits = []
        self.obligations = 0
        self.discharged = 0
        self.evaluations = 0
        self.nontrivial = set()
        self.samples = []
        self.dist = {}
        self.notes = []
        self.rule = ""
        self.extra = {}
        self.known = [k for k in load_known() if k.get("property") == prop and k.get("status") == "known"]

    def count(self, key, n=1):
        self.dist[key] = self.dist.get(key, 0) + n

    def obligation(self, ok, what):
        self.obligations += 1
        if ok:
            self.discharged += 1
        else:
            self.notes.append("obligation failed: " + what)
        return ok

    def violation(self, replay, found_input=True, signature=None):
        """Record a violation unless its signature is a known finding."""
        if signature is not None:
            for k in self.known:
                if k.get("signature") == signature:
                    if k["id"] not in [h["id"] for h in self.known_hits]:
                        self.known_hits.append(k)
                    return False
        self.violations.append((replay, found_input))
        return True

    def finish(self, level="proof", assumptions=None, checker_cmd=None):
        if not self.violations and self.discharged < self.obligations:
            # a proof / audit / correspondence obligation no longer checks and the search found no failing input
            self.violations.append(({"property": self.prop, "broken": "proof or correspondence obligation no longer checks",
                                     "failed_obligations": [n for n in self.notes if n.startswith("obligation failed")][:10],
                                     "log": self.extra.get("broken_proof_log", "")}, False))
        wall = now() - self.t0
        evdir = os.environ.get("VERIF_EVIDENCE_DIR") or os.path.join(ROOT, "evidence")
        os.makedirs(evdir, exist_ok=True)
        cov = {
            "obligations": max(self.obligations, 1),
            "discharged": self.discharged,
            "checker_cmd": checker_cmd or ("make -C coq theories/Props/%s.vo && coqc theories/Audit/%s_audit.v (Print Assumptions) ; correspondence: vh + coqc cases_*.v" % (self.prop, self.prop)),
            "trusted_base": TRUSTED_BASE + (assumptions or []),
            "evaluations": max(self.evaluations, 1),
            "distinct_nontrivial": len(self.nontrivial),
            "rule": self.rule,
            "samples": self.samples[:6] if self.samples else ["(no case was executed: see notes)"],
            "distribution": self.dist,
            "notes": self.notes[:40],
        }
        cov.update(self.extra)
        ev = {
            "property_id": self.prop,
            "tier": self.tier,
            "seed": self.seed,
            "level": level,
            "coverage": cov,
            "assumptions": assumptions or [],
            "wall_s": round(wall, 2),
            "violations": len(self.violations),
        }
        json.dump(ev, open(os.path.join(evdir, self.prop + ".json"), "w"), indent=1)
        for k in self.known_hits:
            print("KNOWN-FINDING: property=%s %s" % (self.prop, k.get("what", k["id"])))
        if self.violations:
            rd = os.path.join(ROOT, "replays", self.prop)
            os.makedirs(rd, exist_ok=True)
            for i, (replay, found) in enumerate(self.violations[:5]):
                p = os.path.join(rd, "%s_%d_%d.json" % (self.tier, self.seed, i))
                json.dump(replay, open(p, "w"), indent=1)
                print("VIOLATION property=%s replay=%s%s" % (self.prop, p, "" if found else " no-failing-input-found"))
            return 1
        print("OK property=%s tier=%s obligations=%d/%d evaluations=%d nontrivial=%d wall=%.1fs" % (
            self.prop, self.tier, self.discharged, self.obligations, self.evaluations, len(self.nontrivial), wall))
        return 0


def proof_stage(res, prop, extra_targets=None):
    """Build the property's Coq closure, run the audit, grep for forbidden constructs.
    Returns True iff everything checked; failures are recorded as obligations."""
    targets = ["theories/Props/%s.vo" % prop] + (extra_targets or [])
    ok, log = coq_build(targets)
    all_ok = True
    if not res.obligation(ok, "coq build of %s: %s" % (targets, log[-1500:])):
        all_ok = False
        res.extra["broken_proof_log"] = log[-3000:]
    if ok:
        a = coq_audit(prop)
        for (n, ax) in a["theorems"]:
            good = all(x in ALLOWED_AXIOMS for x in ax)
            res.obligation(good, "Print Assumptions %s: %s" % (n, ax))
            all_ok &= good
        if not a["ok"]:
            res.obligation(False, "audit of %s failed: %s" % (prop, a["log"][-1500:]))
            res.extra["broken_proof_log"] = a["log"][-3000:]
            all_ok = False
        res.extra["theorems"] = [n for (n, _) in a["theorems"]]
        res.extra["axioms"] = {n: ax for (n, ax) in a["theorems"] if ax}
    hits = coq_forbidden_hits()
    if not res.obligation(not hits, "forbidden constructs: %s" % hits[:5]):
        all_ok = False
    if ok and res.tier == "thorough":
        # independent re-check of the compiled closure of the property file
        with Lock("coq"):
            rc, out = sh(["coqchk", "-silent", "-o", "-Q", "theories", "RZ", "RZ.Props.%s" % prop], cwd=COQ, timeout=3000)
        m = re.search(r"\* Axioms:\s*(.*?)\n\s*\n", out, re.S)
        axioms = m.group(1).strip() if m else "?"
        good = rc == 0 and axioms == "<none>" and "type-in-type: <none>" in out and "positivity is assumed: <none>" in out
        res.obligation(good, "coqchk -o RZ.Props.%s: rc=%s axioms=%s" % (prop, rc, axioms[:200]))
        res.extra["coqchk"] = {"rc": rc, "axioms": axioms[:500]}
        all_ok &= good
    return all_ok


def tier_and_seed(argv):
    tier = argv[0] if argv else os.environ.get("VERIF_TIER", "quick")
    seed = int(os.environ.get("VERIF_SEED", "1"))
    return tier, seed


# ---------------------------------------------------------------- generic differential run

def differential(res, prop, sub, cases, to_coq, requires, mismatch_fn, model_fn, oracle,
                 group_oracle=None, shrink=None, nontrivial=None, signature=None, shards=16,
                 theorems_note="", strip=None, tag="cases", canon=None, confirm=True):
    """Run `cases` on the implementation (harness subcommand `sub`) and on the Coq model.
    oracle(case, obs) -> None or a string describing an implementation-side property failure.
    group_oracle(cases, obs) -> list of (index, message).
    signature(case, obs, msg) -> known-finding signature string or None."""
    ok, log = build_harness()
    if not res.obligation(ok, "harness build against /repo working tree: " + log[-2000:]):
        res.violation({"property": prop, "broken": "harness build (facade no longer compiles against /repo)",
                       "log": log[-4000:], "theorems_relying_on_tie": theorems_note}, found_input=False)
        return None
    hcases = [strip(c) for c in cases] if strip else cases
    obs, hlog = run_harness(sub, hcases, prop, tag=tag)
    if obs is None or len(obs) != len(cases):
        res.obligation(False, "harness run: " + str(hlog)[-2000:])
        res.violation({"property": prop, "broken": "harness run crashed", "log": str(hlog)[-4000:]}, found_input=False)
        return None
    res.evaluations += len(cases)
    failing = []
    for i, (c, o) in enumerate(zip(cases, obs)):
        msg = oracle(c, o)
        if msg:
            failing.append((i, msg))
        if nontrivial is None or nontrivial(c, o):
            res.nontrivial.add(json.dumps(hcases[i], sort_keys=True))
    from_group = set()
    if group_oracle:
        gf = group_oracle(cases, obs)
        from_group = {i for (i, _) in gf}
        failing += gf
    for i, c in enumerate(cases[:3]):
        res.samples.append({"case": c, "impl_obs": obs[i]})
    reported = set()
    for (i, msg) in failing[:20]:
        c, o = cases[i], obs[i]
        if shrink:
            c, o, msg = shrink_case(prop, sub, c, o, msg, oracle, shrink)
        sig = signature(c, o, msg) if signature else None
        key = sig or json.dumps(c, sort_keys=True)
        if key in reported:
            continue
        reported.add(key)
        if sig is None and confirm and i not in from_group:     # a group verdict compares several runs: no single-case re-run
            again = confirm_failure(res, prop, sub, strip(c) if strip else c, c, oracle)
            if again is None:
                continue
            if again[1] is not None:
                msg, o = again
        res.violation({"property": prop, "kind": "implementation violates property oracle", "what": msg,
                       "case": c, "impl_obs": o, "harness": sub, "signature": sig}, found_input=True, signature=sig)
    # model vs implementation
    terms = [(i, to_coq(c), cobs(canon(c, o["rows"]) if canon else o["rows"])) for i, (c, o) in enumerate(zip(cases, obs))]
    okc, bad, clog = run_coq_cases(prop, requires, mismatch_fn, terms, shards=shards, tag=tag)
    res.obligation(okc, "model evaluation (coqc cases): " + clog[-1500:])
    failing_idx = {i for (i, _) in failing}
    pure_mismatch = [i for i in bad if i not in failing_idx]
    if pure_mismatch and confirm and len(pure_mismatch) <= 8 and not os.environ.get("VERIF_NO_CONFIRM"):
        # a disagreement is only reported when it reproduces with the case run ALONE (scenarios with deadlines can
        # miss them in a parallel batch on a busy machine); a deterministic disagreement reproduces trivially
        still = []
        for i in pure_mismatch:
            again = True
            for k in range(2):
                o2, _ = run_harness(sub, [hcases[i]], prop, tag="confirm_mm")
                if o2 is None or len(o2) != 1:
                    break
                rows2 = canon(cases[i], o2[0]["rows"]) if canon else o2[0]["rows"]
                ok2, bad2, _ = run_coq_cases(prop, requires, mismatch_fn, [(i, to_coq(cases[i]), cobs(rows2))], shards=1, tag="confirm_mm")
                if ok2 and not bad2 and not oracle(cases[i], o2[0]):
                    again = False
                    break
                obs[i] = o2[0]
            if again:
                still.append(i)
            else:
                res.notes.append("model/implementation disagreement not reproduced with the case run alone (machine load?), not reported: %s" % json.dumps(cases[i])[:300])
                res.count("mismatch-not-reproduced-alone")
        pure_mismatch = still
    res.obligation(not pure_mismatch, "model/implementation correspondence on %d cases (mismatches outside oracle failures: %s)" % (len(cases), pure_mismatch[:10]))
    res.extra["traces_validated_against_impl"] = res.extra.get("traces_validated_against_impl", 0) + len(cases) - len(bad)
    if not okc:
        res.violation({"property": prop, "broken": "model evaluation failed", "log": clog[-4000:]}, found_input=False)
    for i in pure_mismatch[:3]:
        mo = coq_eval(prop, requires, "%s (%s)" % (model_fn, to_coq(cases[i])), tag="mismatch_%d" % i)
        res.violation({"property": prop, "kind": "model and implementation disagree; no oracle failure found",
                       "correspondence": "%s vs harness %s" % (model_fn, sub),
                       "theorems_relying_on_tie": theorems_note,
                       "case": cases[i], "impl_obs": obs[i], "model_obs": parse_obs(mo) or mo[-1500:]},
                      found_input=False)
    return obs


def confirm_failure(res, prop, sub, hcase, case, oracle, tries=2, tag="confirm"):
    """A property-oracle failure on a real-socket scenario is only reported when it reproduces with the case run ALONE
    (the check machine may be busy: scenarios with deadlines can miss them in a parallel batch). Returns (msg, obs)
    of the first re-run that fails again, or None after `tries` clean re-runs (recorded as a note, never silently)."""
    if os.environ.get("VERIF_NO_CONFIRM"):
        return ("(not re-run)", None)
    for k in range(tries):
        obs, _ = run_harness(sub, [hcase], prop, tag=tag)
        if obs is None or len(obs) != 1:
            return ("(re-run could not be executed)", None)
        try:
            m = oracle(case, obs[0])
        except Exception as e:      # an oracle that cannot judge the re-run does not excuse the original failure
            return ("(oracle failed on the re-run: %s)" % e, None)
        if m:
            return (m, obs[0])
    res.notes.append("not reproduced in %d isolated re-runs (machine load?), not reported: %s" % (tries, json.dumps(case)[:300]))
    res.count("oracle-failure-not-reproduced-alone")
    return None



def shrink_case(prop, sub, c, o, msg, oracle, shrink, rounds=6):
    for _ in range(rounds):
        cands = list(shrink(c))[:40]
        if not cands:
            break
        obs, _ = run_harness(sub, cands, prop, tag="shrink")
        if obs is None:
            break
        nxt = None
        for cc, oo in zip(cands, obs):
            m = oracle(cc, oo)
            if m:
                nxt = (cc, oo, m)
                break
        if nxt is None:
            break
        c, o, msg = nxt
    return c, o, msg


def load_corpus(prop, key):
    """minimised regression inputs kept under corpus/<prop>/*.json; always run first"""
    d = os.path.join(ROOT, "corpus", prop)
    out = []
    if os.path.isdir(d):
        for f in sorted(os.listdir(d)):
            if f.endswith(".json"):
                out += json.load(open(os.path.join(d, f))).get(key, [])
    return out


def replay(prop, mod, path):
    """./check Cxx --replay <file>: re-run the recorded case on the current /repo tree and re-judge it."""
    if hasattr(mod, "main") and hasattr(mod, "replay_main"):
        return mod.replay_main(path)
    r = json.load(open(path))
    case = r.get("case")
    sub = r.get("harness")
    print("replay of %s: %s" % (path, r.get("what") or r.get("kind") or r.get("broken")))
    if case is None or sub is None:
        print("this replay names a broken proof/correspondence obligation, not an input:")
        print(json.dumps({k: v for k, v in r.items() if k != "log"}, indent=1)[:3000])
        return 1
    ok, log = build_harness()
    if not ok:
        print("harness does not build: " + log[-2000:])
        return 1
    strip = None
    for name in ("strip", "stack_strip"):
        if hasattr(mod, name) and (name == "stack_strip") == (sub == "stack"):
            strip = getattr(mod, name)
    hc = strip(case) if strip and all(k in case for k in ("cfg",)) else case
    obs, hlog = run_harness(sub, [hc], prop, tag="replay")
    if obs is None:
        print("harness run failed: " + str(hlog)[-2000:])
        return 1
    print("implementation observation now: " + json.dumps(obs[0])[:3000])
    msg = None
    for name in ("stack_oracle" if sub == "stack" else "oracle", "oracle", "pair_oracle", "type_oracle"):
        if hasattr(mod, name):
            try:
                msg = getattr(mod, name)(case, obs[0])
                break
            except Exception:
                continue
    if msg:
        print("VIOLATION property=%s replay=%s" % (prop, path))
        print("still failing: " + str(msg))
        return 1
    print("the recorded case no longer fails the implementation-side oracle")
    return 0


def table_stage(res):
    """Kind-E tie: regenerate Extracted/Tables.v from /repo's sources and re-prove Proofs/TablesCheck.v.
    Returns (ok, info): ok=False means a table/constant in the source no longer equals the model's."""
    from . import extract_tables
    ok, note, info = extract_tables.main()
    if not ok:
        res.notes.append("table extraction failed open: " + note)
        return True, None
    good, log = coq_build(["theories/Proofs/TablesCheck.vo"])
    res.obligation(good, "tables/constants extracted from /repo sources equal the model's (Proofs/TablesCheck.v): " + log[-800:])
    if not good:
        res.extra["tables_check_log"] = log[-2000:]
    return good, info
