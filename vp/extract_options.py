#!/usr/bin/env python3
"""Translator tie for the option layer: regenerates coq/theories/Extracted/OptionsX.v from
/repo/core/src/socket/options.rs on every run.

What is translated (Rust -> Gallina), not merely copied:
  * the option-id constants;
  * every integer parser `parse_*_option` whose body is `let val = parse_i32_option(value)..?; match val { arms }`
    -> a Gallina function `x_parse_* (val option_id : Z) : pres` with one `if` per arm, in the arm order of the source
    (`-1 =>`, `0 =>`, `0.. =>`, `1.. =>`, `0..=i32::MAX =>`, `_ =>`; results None / Some(ZERO) / from_millis / from_secs /
    `as u32` / `as usize` / Err(InvalidOptionValue(x))), and whether a wrong-length value is reported under id 0 or the
    option id; the two `if`-shaped parsers (keepalive mode, maxmsgsize), the bool, blob and i32 helpers as constants;
  * the `match option_id` of apply_core_option_value -> `x_apply_rules : list rule` (+ the Unsupported arm);
  * the `match option_id` of retrieve_core_option_value -> `x_get_rules` (+ the Unsupported arm);
  * SocketOptions::default() -> `x_defaults`.
Proofs/OptionsCheck.v then proves the translated definitions equal to Model/Options.v (functions: for every i32/i64;
tables: by computation).  Returns (ok, note).  An unreadable source shape fails OPEN (ok=False, old file kept): the
behavioural correspondence through a real socket remains."""
import os
import re

ROOT = os.environ.get("VERIF_ROOT") or os.path.dirname(os.path.dirname(os.path.abspath(__file__)))
REPO = os.environ.get("VERIF_REPO", "/repo")

PARSER_PK = {"linger": "KLinger", "timeout": "KTimeout", "reconnect_ivl": "KReconnIvl", "reconnect_ivl_max": "KReconnMax",
             "keepalive_mode": "KKaMode", "secs_duration": "KSecs", "u32": "KU32", "heartbeat": "KHeartbeat",
             "handshake": "KHandshake", "maxmsgsize": "KMaxMsg", "max_connections": "KMaxConn"}
FIELDS = None


def zlit(n):
    n = int(n)
    return "(%d)" % n if n < 0 else str(n)


def strip_comments(s):
    s = re.sub(r"/\*.*?\*/", "", s, flags=re.S)
    return re.sub(r"//[^\n]*", "", s)


def fn_body(src, name):
    m = re.search(r"fn %s\b[^{]*\{" % re.escape(name), src)
    if not m:
        raise ValueError("function %s not found" % name)
    i = m.end()
    depth = 1
    while depth:
        c = src[i]
        depth += (c == "{") - (c == "}")
        i += 1
    return src[m.end():i - 1]


def split_arms(body):
    """top-level `pat => expr,` / `pat => { block }` arms of a match body"""
    arms, i, n = [], 0, len(body)
    while True:
        m = re.compile(r"\s*(?:#\[cfg\([^\]]*\)\]\s*)?(.+?)\s*=>\s*", re.S).match(body, i)
        if not m:
            break
        pat = " ".join(m.group(1).split())
        j = m.end()
        if body[j] == "{":
            depth, k = 1, j + 1
            while depth:
                depth += (body[k] == "{") - (body[k] == "}")
                k += 1
            expr = body[j:k]
            i = k
            if i < n and body[i:i + 1] == ",":
                i += 1
        else:
            depth, k = 0, j
            while k < n and not (body[k] == "," and depth == 0):
                depth += (body[k] in "([{<" and 1) or 0
                depth -= (body[k] in ")]}" and 1) or 0
                if body[k] == ">" and body[k - 1] != "=" and depth > 0 and body[k - 1] != "-":
                    depth -= 1
                k += 1
            expr = body[j:k]
            i = k + 1
        arms.append((pat, " ".join(expr.split())))
        if i >= n:
            break
    return arms


def tr_result(expr, consts):
    e = expr.strip()
    m = re.fullmatch(r"Err\(ZmqError::InvalidOptionValue\((\w+)\)\)", e)
    if m:
        a = m.group(1)
        return "PErr %s" % ("option_id" if a == "option_id" else zlit(a) if a.lstrip("-").isdigit() else zlit(consts[a]))
    table = {"Ok(None)": "POk None", "Ok(Some(Duration::ZERO))": "POk (Some 0)",
             "Ok(Some(Duration::from_millis(val as u64)))": "POk (Some (as_u64 val))",
             "Ok(Some(Duration::from_secs(val as u64)))": "POk (Some (1000 * as_u64 val))",
             "Ok(Some(val as u32))": "POk (Some (as_u32 val))", "Ok(Some(val as usize))": "POk (Some (as_u64 val))",
             "Ok(val)": "POk (Some val)"}
    if e in table:
        return table[e]
    raise ValueError("result expression not understood: %r" % e)


def tr_pattern(pat):
    p = pat.strip()
    if re.fullmatch(r"-?\d+", p):
        return "val =? %s" % zlit(p)
    m = re.fullmatch(r"(-?\d+)\.\.", p)
    if m:
        return "%s <=? val" % zlit(m.group(1))
    m = re.fullmatch(r"(-?\d+)\.\.=i32::MAX", p)
    if m:
        return "(%s <=? val) && (val <=? i32_max)" % zlit(m.group(1))
    if p == "_":
        return None
    raise ValueError("pattern not understood: %r" % p)


def tr_match_parser(src, name, consts):
    body = fn_body(src, "parse_%s_option" % name)
    m = re.search(r"let val = parse_i32_option\(value\)(\.map_err\(\|_\| ZmqError::InvalidOptionValue\(option_id\)\))?\?;\s*match val \{(.*)\}\s*$",
                  body, re.S)
    if not m:
        raise ValueError("parser %s: not of the `let val = parse_i32_option(..)?; match val {..}` shape" % name)
    arms = split_arms(m.group(2))
    out, closed = "", False
    for pat, expr in arms:
        c = tr_pattern(pat)
        r = tr_result(expr, consts)
        if c is None:
            out += r
            closed = True
            break
        out += "if %s then %s else " % (c, r)
    if not closed:
        raise ValueError("parser %s: no catch-all arm" % name)
    return ("Definition x_parse_%s (val option_id : Z) : pres := %s.\nDefinition x_lenerr_id_%s : bool := %s."
            % (name, out, name, "true" if m.group(1) else "false"))


def field_of(path):
    f = "F_" + path.replace(".", "_")
    return f


def tr_apply_expr(expr):
    e = expr.strip()
    m = re.fullmatch(r"(Some\()?parse_i32_option\(value\)\?\.max\((-?\d+)\) as usize\)?", e)
    if m:
        return "(KI32Max %s %s)" % (zlit(m.group(2)), "true" if m.group(1) else "false")
    m = re.fullmatch(r"(Some\()?parse_(\w+)_option(::<32>)?\(value(, option_id)?\)\?\)?", e)
    if not m:
        raise ValueError("apply expression not understood: %r" % e)
    some, name = bool(m.group(1)), m.group(2)
    if name == "bool":
        return "(KBool %s)" % ("true" if some else "false")
    if name == "blob":
        return "KBlob"
    if name == "string":
        return "(KString %s)" % ("true" if some else "false")
    if name == "key":
        return "KKey32"
    if name in PARSER_PK and not some:
        return PARSER_PK[name]
    raise ValueError("apply parser not understood: %r" % e)


def extract():
    src = strip_comments(open(os.path.join(REPO, "core/src/socket/options.rs")).read())
    consts = dict((m.group(1), int(m.group(2))) for m in re.finditer(r"pub const (\w+): i32 = (-?\d+);", src))
    uconsts = dict((m.group(1), eval(m.group(2).replace("_", ""))) for m in
                   re.finditer(r"pub const (\w+): (?:usize|u64) = ([\d_ \*]+);", src))
    if len(consts) < 40:
        raise ValueError("option id constants: %d" % len(consts))
    out = ["(* GENERATED on every run by vp/extract_options.py from /repo/core/src/socket/options.rs - do not edit *)",
           "From RZ Require Import Base.Prelude Model.Engine Model.Options Model.EngineCfg.", "Local Open Scope Z_scope.", ""]
    out.append("Definition x_consts : list (Z * Z) := [%s]." % "; ".join(
        "(%s, %s)" % (n, zlit(consts[n])) for n in
        ["SNDBUF", "RCVBUF", "SNDHWM", "RCVHWM", "LINGER", "SUBSCRIBE", "UNSUBSCRIBE", "ROUTING_ID", "RECONNECT_IVL",
         "RECONNECT_IVL_MAX", "RCVTIMEO", "SNDTIMEO", "LAST_ENDPOINT", "TCP_KEEPALIVE", "TCP_KEEPALIVE_IDLE",
         "TCP_KEEPALIVE_CNT", "TCP_KEEPALIVE_INTVL", "HEARTBEAT_IVL", "HEARTBEAT_TIMEOUT", "HANDSHAKE_IVL",
         "ROUTER_MANDATORY", "AUTO_DELIMITER", "ZAP_DOMAIN", "PLAIN_SERVER", "PLAIN_USERNAME", "PLAIN_PASSWORD",
         "NOISE_XX_ENABLED", "NOISE_XX_STATIC_SECRET_KEY", "NOISE_XX_REMOTE_STATIC_PUBLIC_KEY", "CURVE_SERVER",
         "CURVE_SECRET_KEY", "CURVE_SERVER_KEY", "MAXMSGSIZE", "MAX_CONNECTIONS", "IO_URING_SNDZEROCOPY",
         "IO_URING_RCVMULTISHOT", "TCP_CORK", "IO_URING_SESSION_ENABLED", "IO_URING_ZC_SEND_THRESHOLD",
         "ADAPTIVE_THROTTLE", "ALLOW_ZMTP2", "SNDBATCH_COUNT", "SNDBATCH_BYTES", "RCVBATCH_COUNT", "RCVBATCH_BYTES"]))
    # ---- parsers
    for name in ["duration_ms", "secs_duration", "timeout", "linger", "u32", "heartbeat", "handshake", "reconnect_ivl",
                 "reconnect_ivl_max", "max_connections"]:
        out.append(tr_match_parser(src, name, consts))
    b = fn_body(src, "parse_keepalive_mode_option")
    m = re.search(r"let val = parse_i32_option\(value\)\?;\s*if val >= (-?\d+) && val <= (-?\d+) \{\s*Ok\(val\)\s*\} else \{\s*"
                  r"Err\(ZmqError::InvalidOptionValue\((\w+)\)\)\s*\}", b)
    if not m:
        raise ValueError("parse_keepalive_mode_option shape")
    out.append("Definition x_parse_keepalive_mode (val option_id : Z) : pres := if (%s <=? val) && (val <=? %s) then POk (Some val) else PErr %s."
               % (zlit(m.group(1)), zlit(m.group(2)), zlit(consts[m.group(3)])))
    b = fn_body(src, "parse_maxmsgsize_option")
    m = re.search(r"let arr: \[u8; (\d+)\] = value\s*\.try_into\(\)\s*\.map_err\(\|_\| ZmqError::InvalidOptionValue\((\w+)\)\)\?;\s*"
                  r"let v = i64::from_ne_bytes\(arr\);\s*if v < (-?\d+) \{\s*return Err\(ZmqError::InvalidOptionValue\((\w+)\)\);\s*\}\s*Ok\(v\)", b)
    if not m:
        raise ValueError("parse_maxmsgsize_option shape")
    out.append("Definition x_parse_maxmsgsize (val option_id : Z) : pres := if val <? %s then PErr %s else POk (Some val)."
               % (zlit(m.group(3)), zlit(consts[m.group(4)])))
    out.append("Definition x_maxmsgsize_len : nat := %s.  Definition x_maxmsgsize_lenerr : Z := %s."
               % (m.group(1), zlit(consts[m.group(2)])))
    b = fn_body(src, "parse_i32_option")
    m = re.search(r"let arr: \[u8; (\d+)\] = value\s*\.try_into\(\)\s*\.map_err\(\|_\| ZmqError::InvalidOptionValue\((\d+)\)\)\?;\s*"
                  r"Ok\(i32::from_ne_bytes\(arr\)\)", b)
    if not m:
        raise ValueError("parse_i32_option shape")
    out.append("Definition x_i32_len : nat := %s.  Definition x_i32_lenerr : Z := %s." % (m.group(1), m.group(2)))
    b = fn_body(src, "parse_bool_option")
    m = re.search(r"Ok\(parse_i32_option\(value\)\? == (-?\d+)\)", b)
    if not m:
        raise ValueError("parse_bool_option shape")
    out.append("Definition x_bool_true : Z := %s." % zlit(m.group(1)))
    b = fn_body(src, "parse_blob_option")
    m = re.search(r"if value\.len\(\) > (\d+) \{\s*Err\(ZmqError::InvalidOptionValue\((\w+)\)\)", b)
    if not m:
        raise ValueError("parse_blob_option shape")
    out.append("Definition x_blob_max : nat := %s.  Definition x_blob_err : Z := %s." % (m.group(1), zlit(consts[m.group(2)])))
    b = fn_body(src, "parse_string_option")
    if not re.search(r"String::from_utf8\(value\.to_vec\(\)\)\.map_err\(\|_\| ZmqError::InvalidOptionValue\(option_id\)\)", b):
        raise ValueError("parse_string_option shape")
    # ---- apply table
    b = fn_body(src, "apply_core_option_value")
    m = re.search(r"match option_id \{(.*)\}\s*Ok\(\(\)\)\s*$", b, re.S)
    if not m:
        raise ValueError("apply_core_option_value shape")
    rules, unsup, other = [], None, None
    for pat, expr in split_arms(m.group(1)):
        if pat == "_":
            mm = re.fullmatch(r"return Err\(ZmqError::InvalidOption\(option_id\)\)", expr)
            if not mm:
                raise ValueError("apply catch-all: %r" % expr)
            other = True
            continue
        if "|" in pat:
            if not re.fullmatch(r"return Err\(ZmqError::UnsupportedOption\(option_id\)\)", expr):
                raise ValueError("apply multi-pattern arm: %r" % expr)
            unsup = [zlit(x) if x.isdigit() else zlit(consts[x]) for x in (t.strip() for t in pat.split("|"))]
            continue
        if expr.startswith("{"):
            stmts = [s.strip() for s in expr[1:-1].split(";") if s.strip()]
            m1 = re.fullmatch(r"options\.([\w\.]+) = (.*)", stmts[0])
            also = []
            for s in stmts[1:]:
                m2 = re.fullmatch(r"options\.([\w\.]+) = true", s)
                if not m2:
                    raise ValueError("apply block statement: %r" % s)
                also.append(field_of(m2.group(1)))
        else:
            m1 = re.fullmatch(r"options\.([\w\.]+) = (.*)", expr)
            also = []
        if not m1:
            raise ValueError("apply arm: %r => %r" % (pat, expr))
        rules.append("R %s %s %s [%s]" % (zlit(consts[pat]), tr_apply_expr(m1.group(2)), field_of(m1.group(1)), "; ".join(also)))
    if not other or unsup is None or len(rules) < 30:
        raise ValueError("apply table incomplete (%d rules)" % len(rules))
    out.append("Definition x_apply_rules : list rule :=\n  [ %s ]." % ";\n    ".join(rules))
    out.append("Definition x_apply_unsupported : list Z := [%s]." % "; ".join(unsup))
    # ---- field types (for `x as i32`)
    ftype = {}
    for sname, prefix in [("SocketOptions", ""), ("IOURingSocketOptions", "io_uring."), ("PlainMechanismSocketOptions", "plain_options."),
                          ("CurveMechanismSocketOptions", "curve_options."), ("NoiseXxSocketOptions", "noise_xx_options.")]:
        mm = re.search(r"struct %s \{(.*?)\n\}" % sname, src, re.S)
        if not mm:
            raise ValueError("struct " + sname)
        for f, t in re.findall(r"pub (\w+): ([^,\n]+),", mm.group(1)):
            ftype[prefix + f] = t.strip()
    ftype["throttle_config.enabled"] = "bool"
    # ---- retrieve table
    b = fn_body(src, "retrieve_core_option_value")
    m = re.search(r"match option_id \{(.*)\}\s*$", b, re.S)
    if not m:
        raise ValueError("retrieve_core_option_value shape")
    apply_field = dict((r.split()[1], r.split()[-2] if r.endswith("[]") else None) for r in rules)
    id_field = {}
    for r in rules:
        mm = re.match(r"R (\(?-?\d+\)?) (\(.*?\)|\w+) (F_\w+) \[", r)
        id_field[mm.group(1)] = mm.group(3)
    grules, gunsup = [], None
    for pat, expr in split_arms(m.group(1)):
        if pat == "_":
            if expr != "Err(ZmqError::InvalidOption(option_id))":
                raise ValueError("retrieve catch-all: %r" % expr)
            continue
        if "|" in pat:
            if expr != "Err(ZmqError::UnsupportedOption(option_id))":
                raise ValueError("retrieve multi arm: %r" % expr)
            gunsup = [zlit(consts[t.strip()]) for t in pat.split("|")]
            continue
        if "core_s_reader" in expr:
            continue                                   # LAST_ENDPOINT / ZMQ_TYPE: answered from CoreState
        oid = zlit(consts[pat])
        e = expr
        fm = re.search(r"options\.([\w\.]+?)(?:\.as_ref\(\)|\.map_or|\.map\(|\.to_ne_bytes| as i32|\))", e)
        if e.startswith("Err(ZmqError::PermissionDenied("):
            grules.append("(%s, GWriteOnly, %s)" % (oid, id_field[oid]))
            continue
        if not fm:
            raise ValueError("retrieve arm: %r" % e)
        path = fm.group(1)
        F = field_of(path)
        t = ftype.get(path)
        tail = e.replace("options." + path, "X")
        if re.fullmatch(r"Ok\(X\.map_or\((-?\d+), \|\w\| \w as i32\)\.to_ne_bytes\(\)\.to_vec\(\)\)", tail):
            g = "GOptUsizeI32 %s" % zlit(re.search(r"map_or\((-?\d+)", tail).group(1))
        elif tail == "Ok((X as i32).to_ne_bytes().to_vec())":
            g = {"bool": "GBool", "usize": "GUsizeI32"}[t]
        elif tail == "Ok(X.map_or(-1, |d| d.as_millis().try_into().unwrap_or(i32::MAX)).to_ne_bytes().to_vec())":
            g = "GMsSat"
        elif tail == "Ok(X.map_or(0, |d| d.as_millis() as i32).to_ne_bytes().to_vec())":
            g = "GMsTrunc"
        elif tail == "Ok(X.map_or(0, |d| d.as_secs() as i32).to_ne_bytes().to_vec())":
            g = "GSecsTrunc"
        elif tail == "Ok(X.to_ne_bytes().to_vec())":
            g = {"i32": "GI32", "i64": "GI64"}[t]
        elif re.fullmatch(r"X\.map\(\|b\| \(b as i32\)\.to_ne_bytes\(\)\.to_vec\(\)\)\.ok_or\(ZmqError::Internal\(.*\)\)", tail):
            g = "GOptBool"
        elif re.fullmatch(r"X(\.as_ref\(\))?\.map\(\|\w\| \w(\.as_bytes\(\))?\.to_vec\(\)\)\.ok_or\(ZmqError::Internal\(.*\)\)", tail):
            g = "GBytes"
        else:
            raise ValueError("retrieve expression not understood: %r" % e)
        grules.append("(%s, %s, %s)" % (oid, g, F))
    if gunsup is None or len(grules) < 30:
        raise ValueError("retrieve table incomplete")
    out.append("Definition x_get_rules : list (Z * gk * field) :=\n  [ %s ]." % ";\n    ".join(grules))
    out.append("Definition x_get_unsupported : list Z := [%s]." % "; ".join(gunsup))
    # ---- defaults
    mm = re.search(r"impl Default for SocketOptions \{\s*fn default\(\) -> Self \{\s*Self \{(.*?)\n    \}\n  \}", src, re.S)
    if not mm:
        raise ValueError("SocketOptions::default shape")
    dflt = []
    known = set(id_field.values())
    body = re.sub(r"throttle_config: \{.*?\n      \},", "", mm.group(1), flags=re.S)
    for f, e in re.findall(r"(\w+): ([^,\n]+),", body):
        F = "F_" + f
        if F not in known:
            continue
        e = e.strip()
        t = ftype[f]
        if e in uconsts:
            e = str(uconsts[e])
        if e == "None":
            v = "VOBy None" if t in ("Option<Blob>", "Option<String>") else "VOZ None"
        elif e == "Some(Duration::ZERO)":
            v = "VOZ (Some 0)"
        elif re.fullmatch(r"Some\(Duration::from_millis\((\w+)\)\)", e):
            a = re.fullmatch(r"Some\(Duration::from_millis\((\w+)\)\)", e).group(1)
            v = "VOZ (Some %s)" % (uconsts[a] if a in uconsts else int(a))
        elif re.fullmatch(r"Some\((\d+)\)", e):
            v = "VOZ (Some %s)" % e[5:-1]
        elif re.fullmatch(r"-?\d+", e):
            v = "VZ %s" % zlit(e)
        elif e in ("true", "false"):
            v = "VB %s" % e
        else:
            raise ValueError("default of %s not understood: %r" % (f, e))
        dflt.append("(%s, %s)" % (F, v))
    mm = re.search(r"impl Default for IOURingSocketOptions \{\s*fn default\(\) -> Self \{\s*Self \{(.*?)\}", src, re.S)
    for f, e in re.findall(r"(\w+): ([^,\n]+),", mm.group(1)):
        e = e.strip()
        dflt.append("(F_io_uring_%s, %s)" % (f, ("VB %s" % e) if e in ("true", "false") else "VZ %s" % e))
    if len(dflt) < 25:
        raise ValueError("defaults incomplete: %d" % len(dflt))
    out.append("Definition x_defaults : list (field * oval) :=\n  [ %s ]." % ";\n    ".join(dflt))

    # ---- impl From<&SocketOptions> for ZmtpEngineConfig
    m = re.search(r"impl From<&SocketOptions> for ZmtpEngineConfig \{\s*fn from\(options: &SocketOptions\) -> Self \{(.*?)\n  \}\n\}", src, re.S)
    if not m:
        raise ValueError("From<&SocketOptions> for ZmtpEngineConfig shape")
    fb = m.group(1)
    ms = re.search(r"let security_enabled = \{(.*?)\};\s*let sndbatch_bytes", re.sub(r"#\[cfg\([^\]]*\)\]", "", fb), re.S)
    if not ms:
        raise ValueError("security_enabled block shape")
    sec_txt = re.sub(r"\s+", " ", ms.group(1))
    secs = re.findall(r"options\.([\w\.]+)", sec_txt)
    if not re.fullmatch(r"(\s*\{ options\.[\w\.]+ \} \{ false \} \} \|\| \{)*\s*\{ options\.[\w\.]+ \} \{ false \} ", sec_txt) or len(secs) != 3:
        raise ValueError("security_enabled is not a disjunction of three option flags: %r" % sec_txt)
    out.append("Definition x_sec_fields : list field := [%s]." % "; ".join(field_of(x) for x in secs))
    mc = re.search(r"let sndbatch_bytes = if options\.io_uring\.send_zerocopy \{\s*let ceiling = crate::uring::(\w+);\s*"
                   r"if options\.sndbatch_bytes > ceiling \{.*?ceiling\s*\} else \{\s*options\.sndbatch_bytes\s*\}\s*\} else \{\s*options\.sndbatch_bytes\s*\};", fb, re.S)
    if not mc:
        raise ValueError("sndbatch_bytes clamp shape")
    usrc = strip_comments(open(os.path.join(REPO, "core/src/uring/mod.rs")).read())
    mu = re.search(r"pub const %s: usize = ([\d_ \*]+);" % mc.group(1), usrc)
    out.append("Definition x_uring_snd_buffer : N := %d%%N." % eval(mu.group(1).replace("_", "")))
    if not re.search(r"let sndbatch_bytes_physical =\s*calculate_required_slot_size\(sndbatch_bytes, options\.sndbatch_count\);", fb):
        raise ValueError("sndbatch_bytes_physical shape")
    ml = re.search(r"ZmtpEngineConfig \{(.*)\}\s*$", fb, re.S)
    copies = []
    for f, e in re.findall(r"(\w+): ([^,\n]+),", re.sub(r"#\[cfg\([^\]]*\)\]", "", ml.group(1))):
        mm2 = re.fullmatch(r"options\.([\w\.]+?)(\.clone\(\))?", e.strip())
        if mm2 and mm2.group(1) not in ("socket_type_name", "throttle_config"):
            copies.append("(CF_%s, %s)" % (f, field_of(mm2.group(1))))
    if len(copies) < 25:
        raise ValueError("engine config copies: %d" % len(copies))
    out.append("Definition x_cfg_copies : list (cfgf * field) :=\n  [ %s ]." % ";\n    ".join(copies))
    b = fn_body(src, "calculate_required_slot_size")
    mz = re.search(r"let max_long_frames = std::cmp::min\(max_batch_count, target_payload_bytes / (\d+)\);\s*"
                   r"let long_frame_overhead = max_long_frames \* (\d+);\s*"
                   r"let short_frame_overhead = max_batch_count\.saturating_sub\(max_long_frames\) \* (\d+);\s*"
                   r"let raw_physical_size = target_payload_bytes \+ long_frame_overhead \+ short_frame_overhead;\s*"
                   r"let page_size = unsafe \{ libc::sysconf\(libc::_SC_PAGESIZE\) as usize \};\s*"
                   r"\(\(raw_physical_size \+ page_size - 1\) / page_size\) \* page_size", b)
    if not mz:
        raise ValueError("calculate_required_slot_size shape")
    out.append("Definition x_slot_raw (target count : N) : N := (let ml := N.min count (target / %s) in target + ml * %s + (count - ml) * %s)%%N."
               % (mz.group(1), mz.group(2), mz.group(3)))
    return "\n".join(out) + "\n"


def main():
    dst = os.path.join(ROOT, "coq/theories/Extracted/OptionsX.v")
    try:
        text = extract()
    except Exception as e:  # unreadable source shape: fail open
        return False, "options.rs not readable by the translator: %r" % (e,)
    old = open(dst).read() if os.path.exists(dst) else None
    if old != text:
        open(dst, "w").write(text)
    return True, "option layer regenerated from source"


if __name__ == "__main__":
    print(main())
