"""C15 - LINGER governs what happens to accepted messages at close. See DESIGN.md section 6 (C15)."""
import json
import random
from . import common as C

PROP = "C15"
REQ = "From RZ Require Import Base.Prelude Model.Shutdown Corr.C15Corr."
THEOREMS = ("C15_linger_bounds_close, C15_finished_stays, C15_linger_zero_prompt, C15_infinite_linger_waits, "
            "C15_close_never_truncates, C15_never_truncates_end_to_end, C15_linger_transmits_all_refuted, "
            "C15_linger_pipe_message_lost, C15_linger_transmits_all_outside, C15_linger_drains_pipe")

INF = 4294967295
SIG_DISCARD = "C15:linger-does-not-cover-unsent-messages"

# ---------------------------------------------------------------- (A) coordinator scripts

LINGERS_A = [INF, 0, 20, 60, 100, 140, 10020]          # ms; positive values are 40 m + 20 (see Corr/C15Corr.v)


def gen_coord(rng, n):
    cases = []
    fixed = [
        # LINGER 0: finished inside initiate whatever is queued
        (0, 2, [[7, 0, 1], [0], [9, 1], [1]]),
        # LINGER -1 with a queued message: only the drained pipe ends Lingering
        (INF, 1, [[7, 0, 1], [0], [9, 1], [1], [9, 3], [1], [7, 0, 0], [1]]),
        # bounded LINGER 60 ms: ticks before and after the deadline (slot 2 boundary)
        (60, 1, [[7, 0, 1], [0], [9, 1], [1], [9, 2], [1], [9, 3], [1]]),
        # the pipe of a stopped session is removed (cleanup_stopped_child_resources)
        (10020, 2, [[7, 0, 1], [7, 1, 1], [0], [9, 1], [1], [8, 0], [1], [8, 1], [1]]),
        # empty pipes: finished at once for every LINGER
        (10020, 1, [[0], [1]]),
        (INF, 0, [[0]]),
        # the branches the command loop never reaches: StoppingChildren, start_linger in a wrong phase,
        # Lingering with LINGER 0 and no deadline, changing LINGER after the deadline was set
        (100, 1, [[7, 0, 1], [2, 1], [3], [4], [1], [2, 2], [3], [4], [9, 1], [3], [9, 4], [4], [1]]),
        (0, 1, [[7, 0, 1], [2, 2], [4], [1], [10], [1], [3], [1]]),
        (100, 1, [[7, 0, 1], [0], [6, 0], [3], [4], [9, 1], [6, INF], [3], [10], [3], [1], [9, 5], [1]]),
        (60, 1, [[7, 0, 1], [0], [5], [1], [4]]),
        (60, 1, [[0], [2, 0], [7, 0, 1], [0], [9, 3], [1]]),
    ]
    for (l, p, ops) in fixed:
        cases.append({"k": "coord", "linger": l, "pipes": p, "ops": ops})
    while len(cases) < n:
        l = rng.choice(LINGERS_A)
        p = rng.randrange(0, 4)
        ops = []
        slot = 0
        for i in range(p):
            if rng.random() < 0.6:
                ops.append([7, i, 1])
        weird = rng.random() < 0.25
        if weird and rng.random() < 0.5:
            ops.append([2, rng.randrange(0, 5)])
        ops.append([0])
        for _ in range(rng.randrange(1, 8)):
            r = rng.random()
            if r < 0.35 and slot < 7:
                slot += rng.choice([1, 1, 1, 2, 3])
                slot = min(slot, 7)
                ops.append([9, slot])
                ops.append([1])
            elif r < 0.5 and p > 0:
                ops.append([7, rng.randrange(0, p), rng.randrange(0, 2)])
            elif r < 0.6 and p > 0:
                ops.append([8, rng.randrange(0, p)])
            elif r < 0.7:
                ops.append([4])
            elif r < 0.8:
                ops.append([1])
            elif weird:
                ops.append(rng.choice([[2, rng.randrange(0, 5)], [3], [5], [10], [6, rng.choice(LINGERS_A)], [0]]))
            else:
                ops.append([1])
        cases.append({"k": "coord", "linger": l, "pipes": p, "ops": ops})
    return cases


def cop(o):
    names = {0: "OInit", 1: "OTick", 3: "OStartLinger", 4: "OCheck", 5: "OAdvance", 10: "OClearDl"}
    if o[0] in names:
        return names[o[0]]
    fmt = {2: "(OForce %d)", 6: "(OSetLinger %d)", 7: "(OPipe %d %d)", 8: "(ORemove %d)", 9: "(OWait %d)"}
    return fmt[o[0]] % tuple(o[1:])


# ---------------------------------------------------------------- (D) real sockets

def gen_linger(rng, tier):
    cases = []
    depths = [(0, 4096), (1, 4096), (40, 4096), (300, 4096), (1500, 4096), (6, 65536), (30, 262144), (60, 262144)]
    reps = 1 if tier == "quick" else 3
    for rep in range(reps):
        for tr in ("tcp", "ipc", "inproc"):
            for linger in (-1, 0, 1, 50, 500, 5000):
                modes = ["close"] if tr == "inproc" else ["close_term", "term", "drop_term", "close"]
                picks = rng.sample(depths, 3 if tier == "quick" else len(depths))
                for (n, size) in picks:
                    mode = rng.choice(modes)
                    r = rng.random()
                    pace, stall = 0, 0
                    if r < 0.25:
                        pace = rng.choice([100, 500, 2000])
                    elif r < 0.4:
                        stall = rng.choice([150, 400])
                    hwm = rng.choice([1000, 1000, 100, 20])
                    cases.append({"k": "linger", "tr": tr, "linger": linger, "n": n, "size": size, "sndhwm": hwm,
                                  "rcvhwm": rng.choice([1000, 100]), "pace_us": pace, "stall_ms": stall, "mode": mode,
                                  "idle_ms": 600, "sndtimeo": 100, "threads": rng.choice([1, 2, 4]), "cap_ms": 12000})
    # everything has left the sending session before it closes (small total, hold_ms of quiet after the last send): the
    # recorded finding (messages still INSIDE the session are not covered by LINGER) cannot apply, so every accepted
    # message must reach the reading peer - also when the receiver is slower than the wire and its queues are full
    for tr in ("tcp", "ipc"):
        for (n, size, rcvhwm, pace) in ([(200, 512, 20, 2000), (400, 256, 64, 1000)] if tier == "quick" else
                                        [(200, 512, 20, 2000), (400, 256, 64, 1000), (120, 1024, 8, 3000), (300, 512, 100, 1500)]):
            for linger in ((-1,) if tier == "quick" else (-1, 5000, 50)):
                cases.append({"k": "linger", "tr": tr, "linger": linger, "n": n, "size": size, "sndhwm": 1000, "rcvhwm": rcvhwm,
                              "pace_us": pace, "stall_ms": 0, "mode": "close_term", "idle_ms": 900, "sndtimeo": 100, "threads": 2,
                              "cap_ms": 12000, "hold_ms": 700, "settled": True})
    # fixed witnesses of the recorded finding: a deep queue, LINGER -1 / 5 s, a peer that reads as fast as it can
    for tr in ("tcp", "ipc"):
        for linger in (-1, 5000):
            cases.append({"k": "linger", "tr": tr, "linger": linger, "n": 1500, "size": 4096, "sndhwm": 2000, "rcvhwm": 1000,
                          "pace_us": 0, "stall_ms": 0, "mode": "close_term", "idle_ms": 700, "sndtimeo": 100, "threads": 2,
                          "cap_ms": 12000, "witness": True})
    return cases


def slack_ms():
    return 1500


def all_expected(c):
    """LINGER is -1 or comfortably longer than the transfer needs, and the peer reads"""
    if c["stall_ms"] or c["pace_us"] > 500:
        return False
    total = c["n"] * c["size"]
    if c["linger"] == -1:
        return total <= 64 * 2 ** 20
    if c["linger"] >= 5000:
        return total <= 16 * 2 ** 20
    if c["linger"] >= 500:
        return total <= 2 ** 20
    return False


def canon(c, rows):
    if c["k"] != "linger" or len(rows) != 1 or len(rows[0]) != 8:
        return rows
    acc, rec, intact, prefix, close_ms, term_ms, actors, _ = rows[0]
    bound = None if c["linger"] < 0 else c["linger"] + slack_ms()
    close_ok = 1 if (bound is None and close_ms <= 11000) or (bound is not None and close_ms <= bound) else 0
    term_ok = 1 if (bound is None and term_ms <= 11000) or (bound is not None and term_ms <= bound + 500) else 0
    return [[1 if intact == rec else 0, prefix, 1 if rec <= acc else 0, close_ok, term_ok, 1 if actors == 0 else 0]]


def make_oracle(res):
    def oracle(c, o):
        rows = o["rows"]
        if rows and rows[0] and rows[0][0] in (95, 96, 97, 99) and len(rows[0]) == 1:
            if c["k"] == "coord" and rows[0][0] == 97:
                res.count("coord:unstable-timing(skipped)")
                return None
            return "harness could not run the case: %s %s" % (rows, o.get("detail"))
        if c["k"] == "coord":
            # property-level checks on the real coordinator (independent of the model)
            lin = c["linger"]
            inited_at = None
            slot = 0
            forced = any(op[0] in (2, 3, 5, 6, 10) for op in c["ops"])
            for op, r in zip(c["ops"], rows):
                if op[0] == 9:
                    slot = op[1]
                if op[0] == 0 and inited_at is None and not forced:
                    inited_at = slot
                    if lin == 0 and r[1] != 4:
                        return "LINGER 0: initiate_core_shutdown did not reach Finished (phase %d)" % r[1]
                    if r[3] != 0:
                        return "is_running still true after initiate_core_shutdown"
                if op[0] == 1 and inited_at is not None and not forced and lin not in (INF,):
                    # deadline in slots: LINGER = 40 m + 20 ms expires before slot inited_at + m + 1
                    m = (lin - 20) // 40 if lin > 0 else -1
                    if slot >= inited_at + m + 1 and r[1] != 4:
                        return "tick after the LINGER deadline left the coordinator in phase %d" % r[1]
            return None
        acc, rec, intact, prefix, close_ms, term_ms, actors, done_ms = rows[0]
        if o.get("close_timeout"):
            return "close()/term() did not return within %d ms" % c["cap_ms"]
        if intact != rec:
            return "a truncated or corrupted message was delivered (%d of %d received messages intact)" % (intact, rec)
        if not prefix:
            return "received messages are not an in-order prefix of the accepted ones"
        if rec > acc:
            return "more messages received (%d) than accepted (%d)" % (rec, acc)
        if c["linger"] >= 0:
            if close_ms > c["linger"] + slack_ms():
                return "close() took %d ms with LINGER %d" % (close_ms, c["linger"])
            if term_ms > c["linger"] + slack_ms() + 500:
                return "term() took %d ms with LINGER %d" % (term_ms, c["linger"])
        if c["mode"] != "close" and c["tr"] != "inproc" and actors != 0:
            return "%d actors of the context still registered after term() returned" % actors
        if c.get("settled") and rec != acc:
            return ("%d of %d accepted messages reached the reading peer although the sender closed only %d ms after its last "
                    "send() (everything had left the sending session): the tail was lost on the way to the application "
                    "(%s, RCVHWM %d, receiver %d us per message)" % (rec, acc, c["hold_ms"], c["tr"], c["rcvhwm"], c["pace_us"]))
        if all_expected(c) and rec != acc:
            return "LINGER %d: %d of %d accepted messages arrived at a connected, reading peer (%s, %s, %d x %d bytes)" % (
                c["linger"], rec, acc, c["tr"], c["mode"], c["n"], c["size"])
        return None
    return oracle


def signature(c, o, msg):
    if c["k"] == "linger" and "accepted messages arrived" in msg:
        return SIG_DISCARD
    return None


def to_coq(c):
    if c["k"] == "coord":
        return "(CCoord %d %d [%s])" % (c["linger"], c["pipes"], "; ".join(cop(o) for o in c["ops"]))
    return "(CLinger %d)" % (INF if c["linger"] < 0 else c["linger"])


def strip(c):
    if c["k"] == "linger":
        d = dict(c)
        d.pop("witness", None)
        d.pop("settled", None)
        return d
    return c


def nontrivial(c, o):
    if c["k"] == "coord":
        return len(o["rows"]) > 1
    return len(o["rows"][0]) == 8 and o["rows"][0][0] > 0


def main(argv):
    tier, seed = C.tier_and_seed(argv)
    res = C.Result(PROP, tier, seed)
    res.rule = ("cases = (a) op scripts on the real ShutdownCoordinator / initiate_core_shutdown / check_and_advance_linger through the "
                "facade (LINGER in {-1, 0, 20, 60, 100, 140, 10020 ms}, 0-3 scripted pipes made non-empty / drained / removed, ticks on a "
                "40 ms grid, plus forced phases and deadline edits), from random.Random(seed) plus a fixed list; (b) real PUSH->PULL pairs: "
                "LINGER {-1,0,1,50,500,5000} x queue depth {0..1500 x 4 KiB, 6 x 64 KiB, 30-60 x 256 KiB} x SNDHWM {20,100,1000} x receiver "
                "pacing / stall x close / close+term / term / handle drop+term x tcp / ipc / inproc x runtime threads {1,2,4}; "
                "non-trivial = script with an observation per op / scenario with at least one accepted message; distinct by case JSON")
    C.proof_stage(res, PROP, ["theories/Corr/C15Corr.vo"])
    from . import optlib
    optlib.options_stage(res, PROP, [17], n_quick=100, theorems_note='C15_linger_option_semantics, C15_linger_option_get_after_set, C15_linger_option_zero_prompt, C15_linger_option_infinite_waits')
    rng = random.Random(seed)
    ncoord = 160 if tier == "quick" else 1500
    cases = gen_coord(rng, ncoord) + gen_linger(rng, tier)
    for c in cases:
        res.count("kind:" + c["k"])
        if c["k"] == "linger":
            res.count("linger:%d" % c["linger"])
            res.count("tr:" + c["tr"])
            res.count("mode:" + c["mode"])
            res.count("depth:%dx%d" % (c["n"], c["size"]))
        else:
            res.count("coord-linger:%s" % ("-1" if c["linger"] == INF else c["linger"]))
    obs = C.differential(res, PROP, "c15", cases, to_coq, REQ, "c15_mismatches", "c15_model", make_oracle(res),
                         nontrivial=nontrivial, signature=signature, theorems_note=THEOREMS, strip=strip, canon=canon,
                         shards=(8 if tier == "quick" else 16))
    if obs:
        tab = []
        for c, o in zip(cases, obs):
            if c["k"] == "linger" and len(o["rows"][0]) == 8:
                r = o["rows"][0]
                tab.append({"tr": c["tr"], "linger": c["linger"], "n": c["n"], "size": c["size"], "mode": c["mode"],
                            "pace_us": c["pace_us"], "stall_ms": c["stall_ms"], "accepted": r[0], "received": r[1],
                            "intact": r[2], "close_ms": r[4], "term_ms": r[5]})
        res.extra["linger_rows"] = tab
        lost = [t for t in tab if t["received"] < t["accepted"] and t["linger"] != 0]
        res.extra["scenarios_with_loss_at_nonzero_linger"] = len(lost)
    return res.finish(assumptions=[
        "Instant::now() is not injectable: the coordinator scripts run on a 40 ms grid with LINGER = 40 m + 20 ms so that no check coincides with a deadline; a case whose clock reads leave their slot is retried and, failing that, skipped",
        "the coordinator's close_active_connections / perform_final_pipe_cleanup are atomic steps in the model",
        "real-socket scenarios: the model predicts the observable class only (no truncation, prefix, bounds); how many messages get through before the session stops depends on kernel and scheduler",
        "close()/term() timing is compared against LINGER + 1.5 s (+0.5 s for term) of slack",
        "TCP / unix sockets / fibre channels are FIFO and reliable (as C01)",
    ])


def replay_main(path):
    """./check C15 --replay <file>: run the recorded case again on the current /repo tree and judge it again"""
    r = json.load(open(path))
    case = r.get("case")
    print("replay of %s: %s" % (path, r.get("what") or r.get("kind") or r.get("broken")))
    if case is None:
        print(json.dumps({k: v for k, v in r.items() if k != "log"}, indent=1)[:3000])
        return 1
    ok, log = C.build_harness()
    if not ok:
        print("harness does not build: " + log[-2000:])
        return 1
    obs, hlog = C.run_harness("c15", [strip(case)], PROP, tag="replay")
    if obs is None:
        print("harness run failed: " + str(hlog)[-2000:])
        return 1
    print("implementation observation now: " + json.dumps(obs[0])[:3000])
    res = C.Result(PROP, "replay", 0)
    msg = make_oracle(res)(case, obs[0])
    if msg:
        print("VIOLATION property=%s replay=%s" % (PROP, path))
        print("still failing: " + str(msg))
        return 1
    print("the recorded case does not fail the implementation-side oracle in this run (scheduler-dependent cases may need several runs)")
    return 0
