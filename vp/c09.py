"""C09 - dropping a send()/recv()/send_multipart()/recv_multipart() future at every Pending poll.
See DESIGN.md section 6 (C09).  Kind D with controlled cancellation: harness/src/c09.rs polls the
public API futures by hand on a current-thread runtime and drops them after the n-th Pending, for
every n until completion, under back-pressure (every stage to a peer that does not read is full;
SNDHWM = RCVHWM = 1) and with SNDTIMEO/RCVTIMEO set, interleaved with scripted peer traffic, followed
by an accounting phase.  The tie to Model/Cancel.v is by OUTCOME SETS (Corr/C09Corr.v)."""
import random
from . import common as C

PROP = "C09"
REQ = "From RZ Require Import Base.Prelude Model.Cancel Corr.C09Corr."
THEOREMS = ("C09_socket_states, C09_dealer_waiter_*, C09_all_or_nothing, C09_recv_cancel_keeps_message, C09_exactly_once, "
            "C09_*_refuted / C09_*_outside (ROUTER and DEALER part-wise send, REP reply, REQ recv time-out)")

SIG_ROUTER = "C09:router-partwise-send-not-atomic"
SIG_DEALER = "C09:dealer-last-part-failure-drops-buffered-parts"
SIG_REP = "C09:rep-failed-reply-not-retryable"
SIG_REQ = "C09:req-recv-timeout-resets-state"
SIG_WAITER = "C09:dealer-dropped-last-part-strands-waiter"

KINDS = {"push": "KPush", "pub": "KPub", "req": "KReq", "rep": "KRep", "dealer": "KDealer", "router": "KRouter",
         "pull": "KPull", "sub": "KSub"}
OPS = {"send": "SoSend", "mp": "SoMp", "parts": "SoParts", "waiter": "SoWaiter", "parts_first": "SoPartsFirst", "parts_mid": "SoPartsMid",
       "parts_last": "SoPartsLast", "recv": "SoRecv", "rmp": "SoRmp"}
VARS = {"": "VNone", "bp": "VBp", "nopeer": "VNoPeer"}
STEPS = {"-": "SNop", "r": "SRecv 0", "r0": "SRecv 0", "r1": "SRecv 1", "ra": "SRecvAll", "s1": "SSend 1", "s3": "SSend 3",
         "a": "SAnswer 1", "a2": "SAnswer 2", "w": "SWait", "c": "SConnect"}


# ---------------------------------------------------------------- generator

def case(kind, op, var="", tmo=0, script=(), n=0, mand=1, free=0, frames=1, msgs=2, transport="inproc"):
    return {"kind": kind, "op": op, "var": var, "tmo": tmo, "script": list(script), "n": n, "mand": mand, "free": free,
            "frames": frames, "msgs": msgs, "transport": transport}


def all_n(out, nmax, **kw):
    """the same scenario for every cancellation index 0 (never) .. nmax"""
    for n in range(0, nmax + 1):
        out.append(case(n=n, **kw))


def gen_cases(rng, tier):
    out = []
    thorough = tier != "quick"
    # ---- senders under back-pressure
    bp = [("push", "send"), ("push", "mp"), ("dealer", "send"), ("dealer", "mp"), ("dealer", "parts"),
          ("rep", "send"), ("rep", "mp")]
    for kind, op in bp:
        for script in (["-", "r"], ["-", "-", "r"]) + ((["r"], ["-", "-", "-", "r"]) if thorough else ()):
            all_n(out, len(script) + 1, kind=kind, op=op, var="bp", script=script)
        for script in (["-", "w"], ["w"]):
            all_n(out, len(script), kind=kind, op=op, var="bp", tmo=1, script=script)
    # two tasks on one DEALER: B's send_multipart waits for A's part-wise transaction; A's last part is dropped
    all_n(out, 3, kind="dealer", op="waiter", var="bp", script=["-", "r"])
    all_n(out, 3, kind="dealer", op="waiter", var="bp", tmo=1, script=["-", "r"])
    for mand in (1, 0):
        for script in (["-", "r"], ["-", "-", "r"]):
            all_n(out, len(script) + 1, kind="router", op="mp", var="bp", mand=mand, script=script)
        all_n(out, 2, kind="router", op="mp", var="bp", mand=mand, tmo=1, script=["-", "w"])
        # frame-by-frame ROUTER send: the identity part, a middle part, the last part
        for script in (["-", "r", "-", "r"], ["r", "r"]):
            all_n(out, len(script) + 1, kind="router", op="parts_first", var="bp", free=0, mand=mand, script=script)
        for script in (["-", "r"], ["r"]):
            all_n(out, len(script) + 1, kind="router", op="parts_first", var="bp", free=1, mand=mand, script=script)
        all_n(out, 2, kind="router", op="parts_first", var="bp", free=0, mand=mand, tmo=1, script=["-", "w"])
        all_n(out, 2, kind="router", op="parts_first", var="bp", free=0, mand=mand, tmo=1, script=["r", "w"])
        all_n(out, 2, kind="router", op="parts_first", var="bp", free=1, mand=mand, tmo=1, script=["-", "w"])
        for op, free in (("parts_mid", 2), ("parts_last", 3)):
            all_n(out, 2, kind="router", op=op, var="bp", free=free, mand=mand, script=["-", "r"])
            all_n(out, 2, kind="router", op=op, var="bp", free=free, mand=mand, tmo=1, script=["-", "w"])
    for op in ("send", "mp"):
        for script in (["-", "r0", "r1"], ["r1", "r0"], ["-", "ra"]):
            all_n(out, len(script) + 1, kind="pub", op=op, var="bp", script=script)
        all_n(out, 3, kind="pub", op=op, var="bp", tmo=1, script=["-", "w", "w"])
    # ---- senders without a peer yet
    for kind, op in (("push", "send"), ("push", "mp"), ("dealer", "send"), ("dealer", "mp"), ("req", "send")):
        for script in (["-", "c"], ["c"]):
            all_n(out, len(script) + 1, kind=kind, op=op, var="nopeer", script=script)
        all_n(out, 2, kind=kind, op=op, var="nopeer", tmo=1, script=["-", "w"])
    # calls that never park (one run each)
    out.append(case("req", "send"))
    out.append(case("rep", "send"))
    out.append(case("rep", "mp"))
    out.append(case("router", "mp", mand=1))
    out.append(case("dealer", "parts"))
    # ---- receivers
    transports = ["inproc", "tcp"] if thorough else ["inproc"]
    for tr in transports:
        for kind, ops in (("pull", ("recv", "mp")), ("sub", ("recv", "mp")), ("dealer", ("recv", "rmp")),
                          ("router", ("recv", "rmp"))):
            for op in ops:
                for fr in (1, 3):
                    st = "s%d" % fr
                    for script in (["-", st], [st], ["-", "-", st]):
                        all_n(out, len(script) + 1, kind=kind, op=op, frames=fr, script=script, transport=tr)
                    for script in (["-", "w"], ["w"]):
                        all_n(out, len(script), kind=kind, op=op, frames=fr, tmo=1, script=script, transport=tr)
        for op, ans in (("recv", "a"), ("mp", "a"), ("mp", "a2")):
            for script in (["-", ans], [ans], ["-", "-", ans]):
                all_n(out, len(script) + 1, kind="req", op=op, script=script, transport=tr)
            all_n(out, 2, kind="req", op=op, tmo=1, script=["-", "w"], transport=tr)
        for op in ("recv", "rmp"):
            for script in (["-", "s1"], ["s1"]):
                all_n(out, len(script) + 1, kind="rep", op=op, script=script, transport=tr)
            all_n(out, 2, kind="rep", op=op, tmo=1, script=["-", "w"], transport=tr)
    if thorough:
        # random scripts: idle polls and unblocking steps in random positions
        def rscript(tok):
            k = rng.randrange(2, 6)
            sc = [rng.choice(["-", "-", tok]) for _ in range(k)]
            if tok not in sc:
                sc[rng.randrange(k)] = tok
            return sc
        for _ in range(3):
            for kind, op in bp:
                sc = rscript("r")
                all_n(out, len(sc) + 1, kind=kind, op=op, var="bp", script=sc)
            for mand in (1, 0):
                for op, free in (("mp", 0), ("parts_first", 0), ("parts_first", 1)):
                    sc = rscript("r")
                    all_n(out, len(sc) + 1, kind="router", op=op, var="bp", free=free, mand=mand, script=sc)
            for op in ("send", "mp"):
                sc = [rng.choice(["-", "r0", "r1", "ra"]) for _ in range(rng.randrange(2, 5))] + ["ra"]
                all_n(out, len(sc) + 1, kind="pub", op=op, var="bp", script=sc)
            for kind, ops in (("pull", ("recv", "mp")), ("sub", ("recv", "mp")), ("dealer", ("recv", "rmp")),
                              ("router", ("recv", "rmp")), ("rep", ("recv", "rmp"))):
                for op in ops:
                    fr = 1 if kind == "rep" else rng.choice([1, 3])
                    sc = rscript("s%d" % fr)
                    all_n(out, len(sc) + 1, kind=kind, op=op, frames=fr, script=sc)
    if not thorough:
        # a few runs over tcp in the quick tier as well
        for kind, op in (("pull", "recv"), ("router", "rmp"), ("req", "recv"), ("rep", "recv")):
            st = {"pull": "s3", "router": "s3", "req": "a", "rep": "s1"}[kind]
            all_n(out, 2, kind=kind, op=op, frames=3 if st == "s3" else 1, script=["-", st], transport="tcp")
    rng.shuffle(out)
    return out


# ---------------------------------------------------------------- Coq printer

def to_coq(c):
    return "(mkCase %s %s %s %s %s %d%%nat %d %d [%s] %d%%nat)" % (
        KINDS[c["kind"]], OPS[c["op"]], VARS[c["var"]], C.cbool(c["tmo"]), C.cbool(c["mand"]), c["free"],
        c["frames"], c["msgs"], "; ".join(STEPS[s] for s in c["script"]), c["n"])


def canon(c, rows):
    rows = [list(r) for r in rows]
    if c["kind"] == "dealer" and c["var"] == "nopeer":
        # a message taken over by the pending queue may be overtaken (C01's recorded finding): order not compared
        for r in rows:
            if r and r[0] == 3:
                r[1:] = sorted(r[1:])
    return rows


# ---------------------------------------------------------------- implementation-side oracle (property text)

def is_recv(c):
    return c["op"] in ("recv", "rmp") or (c["kind"] in ("pull", "sub") and c["op"] == "mp") or \
        (c["kind"] == "req" and c["op"] in ("recv", "mp"))


def frame_codes(mid, cnt, ident):
    return ([902] if ident else []) + [1000 * mid + 10 * i + cnt for i in range(cnt)]


def oracle(c, o):
    rows = o["rows"]
    if len(rows) < 4 or rows[0][0] != 1:
        return "scenario did not run to the end: rows %s" % rows
    row = {r[0]: r[1:] for r in rows}
    r_op = row[1][0]
    fol = row[2]
    peers = [row[3]] + ([row[4]] if 4 in row else [])
    app = row[5]
    kind, op = c["kind"], c["op"]
    if r_op == 7:
        return "the operation under test never completed although the world was unblocked"
    # never part of a message, nothing twice
    for i, l in enumerate(peers):
        if 900 in l:
            return "peer %d received a message that is not one whole message of the sender (partial / merged frames): %s" % (i, l)
        if len(set(l)) != len(l):
            return "peer %d received a message twice: %s" % (i, l)
    # the socket stays usable: every follow-up call (retry of the call that did not complete, the next
    # valid call of the pattern, the next message) is accepted and completes
    if any(x != 1 for x in fol):
        return "after the %s operation a follow-up call that is valid at that point did not succeed (results %s; 3 = InvalidState, 5 = InvalidMessage, 7 = never completed)" % (
            "dropped" if r_op == 0 else "completed (code %d)" % r_op, fol)
    if not is_recv(c):
        # a call that returned Ok delivered its message whole, once (PUB with a time-out may drop per peer)
        main_id = 200 if kind == "rep" else (150 if kind == "req" else 100)
        # (ROUTER without ROUTER_MANDATORY drops silently by definition)
        if r_op == 1 and not (kind == "pub" and c["tmo"]) and not (kind == "router" and not c["mand"]):
            for i, l in enumerate(peers):
                if main_id not in l:
                    return "the call returned Ok but peer %d never received its message: %s" % (i, l)
        # follow-up messages were accepted, so they arrive
        want = {"push": [101], "pub": [101], "dealer": [101], "router": [101], "rep": [202], "req": []}[kind]
        for i, l in enumerate(peers):
            for w in want:
                if w not in l:
                    return "follow-up message %d was accepted but peer %d never received it: %s" % (w, i, l)
        if op == "waiter" and len(fol) == 3 and fol[1] == 1 and 150 not in peers[0]:
            return "task B's send_multipart returned Ok but its message never arrived: %s" % peers[0]
        if kind == "req" and app != [100]:
            return "REQ: expected exactly the reply 100, application got %s" % app
        return None
    # receivers: everything queued for the application arrives exactly once, in order, whole
    if kind in ("pull", "sub", "dealer", "router"):
        mp = op in ("mp", "rmp")
        want = []
        for m in range(c["msgs"]):
            want += [100 + m] if mp else frame_codes(100 + m, c["frames"], kind == "router")
        if app != want:
            return "application received %s, the peer sent %s (lost / duplicated / partial)" % (app, want)
    elif kind == "req":
        first = [100] if op == "mp" else [100001]
        if app != first + [101]:
            return "REQ: application received %s, expected replies %s" % (app, first + [101])
    elif kind == "rep":
        first = [100] if op == "rmp" else [100001]
        if app != first:
            return "REP: application received %s, expected request %s" % (app, first)
        if peers[0] != [160]:
            return "REP: the requester received %s instead of the reply 160" % peers[0]
    return None


def signature(c, o, msg):
    """known-finding signatures are tied to the SHAPE of the failure, not only to the scenario"""
    kind, op = c["kind"], c["op"]
    row = {r[0]: r[1:] for r in o["rows"]}
    r_op, fol = row[1][0], row.get(2, [])
    partial = "not one whole message" in msg
    if kind == "router" and op.startswith("parts") and 7 not in fol:
        # lone identity frame / unterminated message: the next message arrives merged; without ROUTER_MANDATORY the
        # failed part answers Ok and the application's next parts are refused
        if r_op != 1 and partial and all(x == 1 for x in fol):
            return SIG_ROUTER
        if not c["mand"] and c["tmo"] and r_op == 1 and (partial or 5 in fol):
            return SIG_ROUTER
    if kind == "dealer" and op == "parts" and r_op != 1 and partial and all(x == 1 for x in fol):
        return SIG_DEALER
    if kind == "dealer" and op == "waiter" and r_op == 0 and len(fol) == 3 and fol[0] == 1 and fol[2] == 1 and fol[1] in (2, 7) \
            and not partial:
        return SIG_WAITER
    if kind == "rep" and op in ("send", "mp") and r_op != 1 and fol[:1] == [3] and all(x == 1 for x in fol[1:]) and not partial:
        return SIG_REP
    if kind == "req" and op in ("recv", "mp") and c["tmo"] and r_op == 2 and fol == [1, 3, 1, 1]:
        return SIG_REQ
    return None


def nontrivial(c, o):
    return o.get("pendings", 0) >= 1 and len(o["rows"]) >= 4


def shrink(c):
    # fewer script steps / smaller n
    if c["n"] > 1:
        yield dict(c, n=c["n"] - 1)
    if len(c["script"]) > 1 and c["script"][0] == "-":
        yield dict(c, script=c["script"][1:], n=max(0, c["n"] - 1))


def main(argv):
    tier, seed = C.tier_and_seed(argv)
    res = C.Result(PROP, tier, seed)
    res.rule = ("cases = (socket type, operation, world, script, n): the operation's future is polled by hand on real sockets "
                "(inproc, tcp for the receivers) and dropped after its n-th Pending, for every n from 0 (never) to past "
                "completion; worlds: every stage to a non-reading peer full (SNDHWM = RCVHWM = 1), no peer yet, "
                "nothing queued yet; with and without SNDTIMEO/RCVTIMEO (200 ms); script steps between polls: peer reads "
                "one / peer sends / peer answers / subject connects / time-out expires; follow-up calls and full "
                "accounting afterwards; non-trivial = the operation under test returned Pending at least once; "
                "distinct by case JSON")
    C.proof_stage(res, PROP, ["theories/Corr/C09Corr.vo"])
    rng = random.Random(seed)
    cases = C.load_corpus(PROP, "cases") + gen_cases(rng, tier)
    for c in cases:
        res.count("sock:" + c["kind"])
        res.count("op:%s/%s%s" % (c["kind"], c["op"], "/" + c["var"] if c["var"] else ""))
        res.count("n:%d" % c["n"])
        res.count("timeout:%d" % c["tmo"])
        res.count("transport:" + c["transport"])
    known_sigs = {k.get("signature") for k in res.known}
    hits = {}

    def oracle_np(c, o):
        """recorded genuine defects are routed here (KNOWN-FINDING if listed in known_findings.json), so that they do
        not use up the slots of the generic reporting; anything else is returned as a plain failure"""
        msg = oracle(c, o)
        if msg:
            sig = signature(c, o, msg)
            if sig is not None and sig in known_sigs:
                hits[sig] = hits.get(sig, 0) + 1
                res.violation({"property": PROP, "kind": "implementation violates property oracle", "what": msg, "case": c,
                               "impl_obs": o, "harness": "c09", "signature": sig}, found_input=True, signature=sig)
                return None
        return msg

    obs = C.differential(res, PROP, "c09", cases, to_coq, REQ, "c09_mismatches", "c09_model", oracle_np,
                         shrink=None, nontrivial=nontrivial, signature=signature, theorems_note=THEOREMS,
                         shards=16, canon=canon)
    for sig, k in sorted(hits.items()):
        res.count("known-finding:%s" % sig, k)
    if obs:
        # informative: how tight is the tie?  cases whose outcome equals the model run with the SAME n and no slack
        terms = [(i, to_coq(c), C.cobs(canon(c, o["rows"]))) for i, (c, o) in enumerate(zip(cases, obs))]
        okx, inexact, _ = C.run_coq_cases(PROP, REQ, "c09_inexact", terms, shards=16, tag="exact")
        if okx:
            res.extra["outcome_equals_model_with_same_n"] = "%d of %d" % (len(cases) - len(inexact), len(cases))
            res.notes.append("outcome-set inclusion holds for all cases; %d of %d outcomes also equal the model run with the same "
                             "cancellation index (others: %s)" % (len(cases) - len(inexact), len(cases),
                             sorted({"%s/%s" % (cases[i]["kind"], cases[i]["op"]) for i in inexact})))
        dropped = sum(1 for o in obs if o["rows"] and o["rows"][0][:2] == [1, 0])
        timed = sum(1 for o in obs if o["rows"] and o["rows"][0][:2] == [1, 2])
        res.count("outcome:dropped", dropped)
        res.count("outcome:timed-out", timed)
        res.count("outcome:completed", len(obs) - dropped - timed)
        for o in obs:
            res.count("pendings:%s" % o.get("pendings"))
    # REQ send() dropped at its pipe-write await: reachable only through a sequence (REP never reads, each recv() times out)
    rb = [{"kind": "reqbp", "transport": tr, "drop_ms": d} for tr in ("inproc", "tcp") for d in ((300,) if tier == "quick" else (5, 60, 300))]
    robs, rlog = C.run_harness("c09", rb, PROP, tag="reqbp", timeout=300)
    if robs is None:
        res.obligation(False, "REQ back-pressure cancellation probe could not run: " + str(rlog)[-500:])
    else:
        for c, o in zip(rb, robs):
            res.evaluations += 1
            row = o["rows"][0]
            if row[0] != 80:
                res.notes.append("REQ back-pressure probe %s did not run to the end: %s" % (c, o["rows"]))
                continue
            res.count("reqbp:%s:%s" % (c["transport"], "send dropped while parked" if row[1] else "no send ever parked"))
            if row[1]:
                res.nontrivial.add("reqbp:%s:%d" % (c["transport"], c["drop_ms"]))
                bad = None
                if row[3] == 2:
                    bad = ("the send() after a DROPPED send() was refused with InvalidState although nothing had been sent "
                           "(%d requests accepted before)" % row[2])
                elif row[3] == 9:
                    bad = "the send() after a dropped send() failed with an unexpected error"
                elif not row[4]:
                    bad = "no send() completed after the peer had drained the path (socket unusable after a dropped send())"
                if bad:
                    res.violation({"property": PROP, "kind": "implementation violates property oracle",
                                   "what": "REQ over %s, REP never reads, send() dropped after %d ms at its pipe-write await: %s"
                                           % (c["transport"], c["drop_ms"], bad),
                                   "case": c, "impl_obs": o, "harness": "c09"}, found_input=True)
    # a dropped recv() loses nothing, inside a real tokio task: each recv() is polled once and dropped when Pending
    po = [{"kind": "pollonce", "transport": tr, "n": n} for tr in ("inproc", "tcp") for n in ((200,) if tier == "quick" else (60, 200, 700))]
    pobs, plog = C.run_harness("c09", po, PROP, tag="pollonce", timeout=300)
    if pobs is None:
        res.obligation(False, "poll-once drain probe could not run: " + str(plog)[-500:])
    else:
        for c, o in zip(po, pobs):
            res.evaluations += 1
            row = o["rows"][0]
            if row[0] != 81:
                res.notes.append("poll-once drain %s did not run to the end: %s" % (c, o["rows"]))
                continue
            res.nontrivial.add("pollonce:%s:%d" % (c["transport"], c["n"]))
            res.count("pollonce:%s:%d of %d" % (c["transport"], row[2], row[1]))
            if row[2] != row[1] or not row[3]:
                res.violation({"property": PROP, "kind": "implementation violates property oracle",
                               "what": "%d messages were queued on a PULL socket (%s); a task that polls each recv() once and drops it when "
                                       "Pending received %d of them%s (missing %s): a message vanished with a dropped recv() future"
                                       % (row[1], c["transport"], row[2], "" if row[3] else ", out of order", o.get("missing")),
                               "case": c, "impl_obs": o, "harness": "c09"}, found_input=True)
    return res.finish(assumptions=[
        "tie is by outcome-set inclusion: polls of the real future and await points of the model are not 1:1; every "
        "implementation outcome must be one the model produces for some cancellation point, some bounded extra pipeline "
        "slack and some HashSet order of PUB's peers",
        "ReadyPipeQueue internals (SendReservation rollback, pop's re-arm await) are C08's model and theorems",
        "uncontended tokio mutexes: one application task per socket; tokio's cooperative budget is not modelled",
        "peers are real rzmq sockets; over inproc the reader task absorbs unterminated frames without bound"])
