#!/bin/bash
# usage: coqgoal.sh file.v LINE  -- shows the goal just before LINE (1-based)
f=$1; n=$2
tmp=$(dirname $f)/_goal_tmp.v
head -n $((n-1)) $f > $tmp
echo "Show. Admitted." >> $tmp
cd "$(dirname "$0")/../coq" && coqc -Q theories RZ $tmp 2>&1 | head -${3:-60}
rm -f $tmp $(dirname $f)/_goal_tmp.vo $(dirname $f)/_goal_tmp.glob $(dirname $f)/._goal_tmp.aux $(dirname $f)/_goal_tmp.vok $(dirname $f)/_goal_tmp.vos
