"""C18 - encrypted connections (CURVE / NOISE_XX): no cleartext, tamper detection, decodability,
session separation. See DESIGN.md section 6 (C18).

Cases are executed by harness/src/c18.rs on pairs of REAL engines that completed the real handshake and
by Corr/C18Corr.v on Model/SecFramer.v instantiated with a toy AEAD; observations are symbolic
(length-prefix value / ciphertext length / plaintext length per record, delivered digests, errors)."""
import json
import random
from . import common as C
from . import englib as E

PROP = "C18"
REQ = ("From RZ Require Import Base.Prelude Model.Codec Model.Engine Model.SecFramer Corr.C03Corr Corr.EngCorr "
       "Corr.C18Corr.")
THEOREMS = ("C18_enc_roundtrip_any_size, C18_sender_emits, C18_tamper_prefix_safety, "
            "C18_tamper_detected, C18_tamper_messages, C18_no_cleartext, C18_heartbeat_decodable_refuted, "
            "C18_sessions_differ_refuted, C18_sessions_differ_noise")

SIG_HB = "C18:heartbeat-bypasses-record-layer"
SIG_SESS = "C18:curve-static-session-keys"

MAX_PT = 65519
PING = [4] + E.asc("PING")


def enc_len(f):
    n = f["len"] if "len" in f else len(f["bytes"])
    return (2 if n <= 255 else 9) + n


def step_pt(st):
    if "app" in st:
        return sum(enc_len(f) for f in st["app"])
    if "batch" in st:
        return sum(enc_len(f) for g in st["batch"] for f in g)
    return None


# ---------------------------------------------------------------- generators

def gen_msg(rng, sizes, parts=None):
    n = parts if parts is not None else rng.choice([1, 1, 1, 2, 3, 5])
    fs = []
    for i in range(n):
        fs.append({"more": i < n - 1, "len": rng.choice(sizes), "seed": rng.randrange(256)})
    return fs


SMALL = [0, 1, 7, 8, 16, 40, 100, 255, 256, 300, 1000, 3000]
MED = [4000, 16383, 16384, 20000, 30000]
# single long frame: plaintext = 9 + n. 65510 -> 65519 (largest that fits); 65511 -> ciphertext 65536 (prefix 0);
# 65526 -> prefix 15 (< tag); 65527 -> prefix 16; 70000; two wraps
# 131029 / 196548: plaintext exactly 2 x / 3 x 65519 (every record full, no short tail record)
EDGE = [65400, 65509, 65510, 65511, 65512, 65526, 65527, 65528, 65535, 65536, 70000, 131028, 131029, 131030, 131100, 196548]


def gen_cuts(rng, total):
    r = rng.random()
    if total == 0 or r < 0.25:
        return []
    if r < 0.4:
        return [1, 1, 1]
    if r < 0.55 and total <= 300:
        return [1] * (total - 1)
    cuts = []
    left = total
    for _ in range(rng.randrange(1, 6)):
        if left <= 0:
            break
        k = min(rng.choice([0, 1, 2, 17, 18, 19, rng.randrange(0, left + 1)]), left)
        cuts.append(k)
        left -= k
    return cuts


def base_case(rng, mech=None):
    return {"k": "flow", "mech": mech or rng.choice(["curve", "noise"]), "dir": rng.choice([0, 1]),
            "seed": rng.randrange(1, 60000), "maxsz": -1, "steps": [], "imuts": [], "bmuts": [], "cuts": []}


def n_records(pt):
    """records of one write call: one per 65519-byte chunk of the plaintext"""
    return (pt + MAX_PT - 1) // MAX_PT


def stream_len(c):
    """wire length of an honest flow as the model computes it (every chunk + 16-byte tag + 2-byte prefix)"""
    n = 0
    for st in c["steps"]:
        pt = step_pt(st)
        if pt is not None:
            n += pt + 18 * n_records(pt)
        else:
            n += 9
    return n


def gen_honest(rng, big):
    c = base_case(rng)
    nst = rng.choice([1, 2, 3, 4])
    nbig = 0
    for _ in range(nst):
        r = rng.random()
        if big and nbig < 2 and r < 0.55:
            nbig += 1
            q = rng.random()
            if q < 0.6:
                c["steps"].append({"app": [{"len": rng.choice(EDGE), "seed": rng.randrange(256)}]})
            elif q < 0.8:
                # a batch of messages whose total crosses the limit although each message is small
                k = rng.choice([3, 4])
                c["steps"].append({"batch": [gen_msg(rng, [rng.choice([16380, 21840, 21841, 22000])], 1) for _ in range(k)]})
            else:
                # multipart whose total crosses
                c["steps"].append({"app": [{"more": True, "len": rng.choice([32000, 32750, 32760]), "seed": 3},
                                           {"len": rng.choice([32750, 32760, 33000]), "seed": 4}]})
        elif r < 0.75:
            c["steps"].append({"app": gen_msg(rng, SMALL + (MED if rng.random() < 0.3 else []))})
        else:
            c["steps"].append({"batch": [gen_msg(rng, SMALL) for _ in range(rng.choice([1, 2, 3]))]})
    c["cuts"] = gen_cuts(rng, stream_len(c))
    if rng.random() < 0.15:
        mx = max([f["len"] for st in c["steps"] for f in (st.get("app") or [x for g in st["batch"] for x in g])] + [0])
        # the limit also applies to the handshake commands (CURVE HELLO is ~200 bytes): keep it above them
        c["maxsz"] = rng.choice([max(mx, 400), max(mx - 1, 400), 400])
    return c


def rec_bounds(c):
    """(start, end) byte offsets of the records of a heartbeat-free flow, in emission order"""
    out = []
    pos = 0
    for st in c["steps"]:
        pt = step_pt(st)
        while pt > 0:
            n = min(pt, MAX_PT) + 18
            out.append((pos, pos + n))
            pos += n
            pt -= min(pt, MAX_PT)
    return out


def gen_one_mut(rng, c, seq, total):
    """one mutation: ('i', obj) item level or ('b', obj) byte level (relative to the current stream)"""
    bounds = rec_bounds(c)
    r = rng.random()
    n = len(bounds)
    if r < 0.3 and n > 0:
        op = rng.choice(["drop", "dup", "swap"] if n > 1 else ["drop", "dup"])
        i = rng.randrange(n - 1) if op == "swap" else rng.randrange(n)
        return ("i", {"op": op, "i": i})
    if r < 0.7:
        (a, b) = rng.choice(bounds)
        where = rng.choice(["p0", "p1", "tag", "tag", "body", "body", "last"])
        off = {"p0": a, "p1": a + 1, "tag": a + 2 + rng.randrange(16), "last": b - 1,
               "body": a + 18 + rng.randrange(max(b - a - 18, 1)) if b - a > 18 else a + 2}[where]
        return ("b", {"op": "flip", "at": min(off, max(total - 1, 0)), "bit": rng.randrange(8)})
    if r < 0.85:
        (a, b) = rng.choice(bounds)
        at = rng.choice([a, a + 1, a + 2, a + 10, b - 1, b, rng.randrange(a, b + 1)])
        return ("b", {"op": "trunc", "at": min(at, total)})
    (a, b) = rng.choice(bounds)
    at = min(rng.choice([0, a, b, a + 1, a + 5, rng.randrange(a, b + 1)]), total)
    q = rng.random()
    if q < 0.4:
        data = {"bytes": [0, 20] + [rng.randrange(256) for _ in range(20)]}      # a well-framed bogus record
    elif q < 0.6:
        data = {"bytes": [0, 0]}                                                   # an empty record
    elif q < 0.8:
        data = {"bytes": E.ping(rng.randrange(65536))}                             # a PING in clear
    else:
        data = {"len": rng.randrange(1, 40), "seed": rng.randrange(256)}
    return ("b", {"op": "inject", "at": at, "data": data})


def gen_mutated(rng, double, big=False):
    c = base_case(rng)
    nbig = 0
    for _ in range(rng.choice([2, 3, 4, 5])):
        q = rng.random()
        if big and nbig == 0 and q < 0.4:
            nbig += 1
            if rng.random() < 0.5:
                # one message sealed in two or three records
                c["steps"].append({"app": [{"len": rng.choice([65511, 70000, 131100]), "seed": rng.randrange(256)}]})
            else:
                # three messages in one write call: the second one spans the record boundary
                c["steps"].append({"batch": [gen_msg(rng, [rng.choice([21841, 30000])], 1) for _ in range(3)]})
        elif q < 0.8:
            c["steps"].append({"app": gen_msg(rng, SMALL)})
        else:
            c["steps"].append({"batch": [gen_msg(rng, SMALL[:8]) for _ in range(rng.choice([1, 2]))]})
    total = stream_len(c)
    seq = None
    for _ in range(2 if double else 1):
        kind, m = gen_one_mut(rng, c, seq, total)
        if kind == "i" and not c["bmuts"]:
            c["imuts"].append(m)
        elif kind == "b":
            if m in c["bmuts"] and m["op"] == "flip":
                m = dict(m, bit=(m["bit"] + 1) % 8)
            c["bmuts"].append(m)
        else:
            c["bmuts"].append({"op": "flip", "at": rng.randrange(max(total, 1)), "bit": rng.randrange(8)})
    c["cuts"] = gen_cuts(rng, total)
    return c


def all_single_mutations(rng):
    """every single mutation class on one fixed three-record flow, both mechanisms"""
    out = []
    for mech in ("curve", "noise"):
        c0 = base_case(rng, mech)
        c0["steps"] = [{"app": [{"len": 40, "seed": 1}]}, {"app": [{"more": True, "len": 8, "seed": 2}, {"len": 300, "seed": 3}]},
                       {"batch": [[{"len": 16, "seed": 4}], [{"len": 0, "seed": 0}]]}]
        # a message sealed in two records between two small ones: every record-level mutation
        c1 = base_case(rng, mech)
        c1["steps"] = [{"app": [{"len": 40, "seed": 1}]}, {"app": [{"len": 70000, "seed": 2}]}, {"app": [{"len": 9, "seed": 3}]}]
        for i in (range(4) if mech == "curve" else [1, 2]):
            out.append(dict(c1, imuts=[{"op": "drop", "i": i}]))
            out.append(dict(c1, imuts=[{"op": "dup", "i": i}]))
            if i < 3:
                out.append(dict(c1, imuts=[{"op": "swap", "i": i}]))
        b1 = rec_bounds(c1)
        out.append(dict(c1, bmuts=[{"op": "flip", "at": b1[1][1] - 1, "bit": 0}]))
        out.append(dict(c1, bmuts=[{"op": "flip", "at": b1[2][0] + 1, "bit": 7}]))
        out.append(dict(c1, bmuts=[{"op": "trunc", "at": b1[2][0]}]))
        out.append(dict(c1, bmuts=[{"op": "trunc", "at": b1[2][1] - 1}]))
        bounds = rec_bounds(c0)
        total = bounds[-1][1]
        for i in range(3):
            out.append(dict(c0, imuts=[{"op": "drop", "i": i}]))
            out.append(dict(c0, imuts=[{"op": "dup", "i": i}]))
            if i < 2:
                out.append(dict(c0, imuts=[{"op": "swap", "i": i}]))
        for (a, b) in bounds:
            for off in [a, a + 1, a + 2, a + 17, a + 18, b - 1]:
                out.append(dict(c0, bmuts=[{"op": "flip", "at": off, "bit": rng.randrange(8)}]))
            for at in [a, a + 1, a + 2, a + 18, b - 1]:
                out.append(dict(c0, bmuts=[{"op": "trunc", "at": at}]))
            out.append(dict(c0, bmuts=[{"op": "inject", "at": a, "data": {"bytes": [0, 20] + [7] * 20}}]))
            out.append(dict(c0, bmuts=[{"op": "inject", "at": a + 9, "data": {"len": 5, "seed": 9}}]))
        out.append(dict(c0, bmuts=[{"op": "trunc", "at": total}]))
    return out


def gen_heartbeat(rng):
    c = base_case(rng)
    c["hb"] = {"ivl": 100, "timeout": 500}
    r = rng.random()
    if r < 0.55:
        # data, a due tick (PING), more data (small: stalls; large: runs into the bogus record), late tick
        c["steps"] = [{"app": gen_msg(rng, SMALL[:8])}, {"tick": rng.choice([100, 1000])}]
        for _ in range(rng.choice([0, 1, 2])):
            c["steps"].append({"app": gen_msg(rng, SMALL + [2000, 5000])})
        if rng.random() < 0.5:
            c["steps"].append({"tick": 1200})      # still waiting for the PONG, not yet timed out
        c["fb_tick"] = rng.choice([1300, 2000, 5000])
    elif r < 0.75:
        # ticks that are not due: nothing is emitted, everything decodes
        c["steps"] = [{"app": gen_msg(rng, SMALL)}, {"tick": rng.choice([0, 50, 99])}, {"app": gen_msg(rng, SMALL)}]
        c["fb_tick"] = 99
    else:
        # a PING that travels INSIDE a record (as a conforming peer would send it): answered by a PONG in clear
        ctx = [rng.randrange(256) for _ in range(rng.choice([0, 2, 16]))]
        c["steps"] = [{"app": gen_msg(rng, SMALL[:8])},
                      {"app": [{"cmd": True, "bytes": PING + [0, 7] + ctx}]},
                      {"app": gen_msg(rng, SMALL[:8])}]
    c["cuts"] = gen_cuts(rng, stream_len(c))
    return c


def gen_cases(rng, tier):
    quick = tier == "quick"
    cases = C.load_corpus(PROP, "cases")
    # boundary sweep, both mechanisms: every EDGE size once on its own, followed by a small message
    for mech in ("curve", "noise"):
        for n in (EDGE if not quick else [65510, 65511, 70000, 131029]):
            c = base_case(rng, mech)
            c["steps"] = [{"app": [{"len": 20, "seed": 1}]}, {"app": [{"len": n, "seed": 2}]}, {"app": [{"len": 5, "seed": 3}]}]
            c["cuts"] = gen_cuts(rng, stream_len(c))
            cases.append(c)
    # MAXMSGSIZE set on an encrypted link: every frame within the limit, the RECORD (a whole multipart message / a coalesced
    # batch) well above it - must be delivered like over NULL (added after C18-record-length-guard-assumes-one-frame)
    for mech in ("curve", "noise"):
        for (mxs, shape) in ((1024, [[1000, 1000, 1000]]), (1024, [[1024]]), (400, [[400, 0, 400], [5]]), (500, "batch")):
            c = base_case(rng, mech)
            c["maxsz"] = mxs
            if shape == "batch":
                c["steps"] = [{"batch": [[{"more": False, "len": 450, "seed": k}] for k in range(4)]}, {"app": [{"more": False, "len": 7, "seed": 9}]}]
            else:
                c["steps"] = [{"app": [{"more": i < len(m) - 1, "len": n, "seed": 11 + i} for i, n in enumerate(m)]} for m in shape]
            c["cuts"] = gen_cuts(rng, stream_len(c))
            cases.append(c)
    cases += all_single_mutations(rng)
    n_h, n_hb, n_m1, n_m2, n_big, n_mb = (40, 24, 60, 50, 8, 6) if quick else (800, 300, 1800, 1800, 120, 60)
    for _ in range(n_h):
        cases.append(gen_honest(rng, big=False))
    for _ in range(n_big):
        cases.append(gen_honest(rng, big=True))
    for _ in range(n_hb):
        cases.append(gen_heartbeat(rng))
    for _ in range(n_m1):
        cases.append(gen_mutated(rng, double=False))
    for _ in range(n_m2):
        cases.append(gen_mutated(rng, double=True))
    for _ in range(n_mb):
        cases.append(gen_mutated(rng, double=rng.random() < 0.4, big=True))
    for mech in ("curve", "noise"):
        for d in (0, 1):
            for _ in range(1 if quick else 6):
                cases.append({"k": "sessions", "mech": mech, "dir": d, "seed": rng.randrange(1, 60000),
                              "msg": gen_msg(rng, SMALL)})
    # reflection: the victim's own next record is played back into its incoming stream after `warm` messages each way
    # (then its receive counter equals the counter the record was sealed with)
    for mech in ("curve", "noise"):
        for d in (0, 1):
            for warm in ((0, 1, 3) if quick else (0, 1, 2, 3, 7, 20)):
                cases.append({"k": "reflect", "mech": mech, "dir": d, "warm": warm, "seed": rng.randrange(1, 60000),
                              "msg": gen_msg(rng, SMALL)})
    # early data: the server's first record reaches the client together with (or right behind) the server's READY
    for mech in ("curve", "noise"):
        for (join, cut) in ((True, 0), (False, 0), (True, 1), (True, 30), (True, 60)) if quick else \
                [(True, 0), (False, 0)] + [(True, k) for k in (1, 2, 9, 20, 30, 41, 60, 80, 100)]:
            cases.append({"k": "early", "mech": mech, "join": join, "cut": cut, "seed": rng.randrange(1, 60000),
                          "msg": gen_msg(rng, SMALL)})
    return cases


# ---------------------------------------------------------------- Coq printers

def c_step(st):
    if "app" in st:
        return "(SApp [%s])" % "; ".join(E.c_fr(f) for f in st["app"])
    if "batch" in st:
        return "(SBatch [%s])" % "; ".join("[" + "; ".join(E.c_fr(f) for f in g) + "]" for g in st["batch"])
    return "(STick %d)" % st["tick"]


def c_imut(m):
    return "(%s %d)" % ({"drop": "IDrop", "dup": "IDup", "swap": "ISwap"}[m["op"]], m["i"])


def c_bmut(m):
    if m["op"] == "flip":
        return "(BFlip %d %d)" % (m["at"], m["bit"])
    if m["op"] == "trunc":
        return "(BTrunc %d)" % m["at"]
    return "(BInject %d %s)" % (m["at"], E.c_pl(m["data"]))


def to_coq(c):
    mech = 0 if c["mech"] == "curve" else 1
    if c["k"] == "sessions":
        return "(CSessions %d %d [%s])" % (mech, c.get("dir", 0), "; ".join(E.c_fr(f) for f in c["msg"]))
    if c["k"] == "early":
        return "(CEarly %d [%s])" % (mech, "; ".join(E.c_fr(f) for f in c["msg"]))
    if c["k"] == "reflect":
        return "(CReflect %d %d %d [%s])" % (mech, c.get("dir", 0), c["warm"], "; ".join(E.c_fr(f) for f in c["msg"]))
    hb = "None" if "hb" not in c else "(Some (%d, %d))" % (c["hb"]["ivl"], c["hb"]["timeout"])
    fb = "None" if "fb_tick" not in c else "(Some %d)" % c["fb_tick"]
    return "(CFlow %d %d %s %s [%s] [%s] [%s] %s %s)" % (
        mech, c.get("dir", 0), C.cZ(c.get("maxsz", -1)), hb, "; ".join(c_step(s) for s in c["steps"]),
        "; ".join(c_imut(m) for m in c.get("imuts", [])), "; ".join(c_bmut(m) for m in c.get("bmuts", [])),
        C.cNlist(c.get("cuts", [])), fb)


# ---------------------------------------------------------------- implementation-side oracle

def split_rows(rows, nsteps):
    """-> (sender rows, receiver rows, final99, back_len, feedback rows, final98, tick rows, final97)"""
    snd = rows[1:1 + nsteps]
    rest = rows[1 + nsteps:]
    i99 = next(i for i, r in enumerate(rest) if r[0] == 99)
    rcv, f99 = rest[:i99], rest[i99]
    rest = rest[i99 + 1:]
    back = rest[0][1]
    i98 = next(i for i, r in enumerate(rest) if r[0] == 98)
    fb, f98 = rest[1:i98], rest[i98]
    rest = rest[i98 + 1:]
    tick, f97 = [], None
    if rest:
        tick, f97 = rest[1:-1], rest[-1]
    return snd, rcv, f99, back, fb, f98, tick, f97


def oracle(c, o):
    """-> (message, known-finding signature or None) or None when the property holds on this run"""
    rows = o["rows"]
    if c["k"] == "sessions":
        r = rows[0]
        if not r[1]:
            return ("handshake between honest peers failed", None)
        if r[2]:
            return ("two sessions with the same static keys encrypted the same first message to identical bytes",
                    SIG_SESS if c["mech"] == "curve" else None)
        return None
    if not o.get("hs"):
        return ("handshake between honest peers failed", None)
    if c["k"] == "early":
        r = rows[0]
        if r[2] != 1:
            return ("the message the server sent right after its handshake completed was %s by the client (%s)"
                    % ("not delivered" if r[2] == 0 else "delivered %d times / split" % r[2],
                       "READY and the record in one read" + (", cut after %d bytes" % c["cut"] if c["cut"] else "") if c["join"] else "separate reads"), None)
        if rows[1:] != o.get("sent"):
            return ("the client delivered something that is not the message the server sent (ciphertext / mis-framed bytes) when the "
                    "first record arrived %s" % ("in the same read as READY" if c["join"] else "in its own read"), None)
        return None
    if c["k"] == "reflect":
        r = rows[0]
        if r[2] != 2 * c["warm"]:
            return ("warm-up exchange between honest peers lost messages (%d of %d delivered)" % (r[2], 2 * c["warm"]), None)
        if r[3]:
            return ("the %s authenticated and DELIVERED its own record, played back into its incoming stream after %d messages "
                    "each way (injected ciphertext accepted)" % ("client" if c.get("dir", 0) == 0 else "server", c["warm"]), None)
        if not r[4]:
            return ("a record that does not authenticate was not reported as an error", None)
        return None
    if o.get("clear"):
        return ("an application payload appears in clear in the bytes emitted on an encrypted connection", None)
    steps = c["steps"]
    snd, rcv, f99, back, fb, f98, tick, f97 = split_rows(rows, len(steps))
    if any(r[0] == 9 for r in rows):
        return ("a panic inside the engine", None)
    delivered, other = E.deliveries(rcv)
    delivered = [[[7] + fr for fr in m] for m in delivered]
    rcv_err = any(r[0] == 8 for r in rcv)
    # records in emission order (ciphertext lengths) and the messages with their end offsets in the plaintext stream
    rec_ct = []        # ciphertext length of every record
    msgs = []          # (end offset in the concatenated plaintext, message rows, a cleartext PING was emitted before it)
    saw_raw = False
    pt_off = 0
    for i, (st, r) in enumerate(zip(steps, snd)):
        if r[0] == 10:
            if 999999 in r[4:]:
                return ("a write call emitted bytes that are not a sequence of length-prefixed records", None)
            rec_ct += r[4:]
            groups = [st["app"]] if "app" in st else st["batch"]
            for g, rows_g in zip(groups, o["sent"][i]):
                pt_off += sum(enc_len(f) for f in g)
                # COMMAND frames (a PING travelling inside a record) are consumed by the engine, not delivered
                if not any(fr[2] for fr in rows_g):
                    msgs.append((pt_off, rows_g, saw_raw))
        elif r[0] == 11:
            saw_raw = True
        elif r[0] == 12 and "tick" not in st:
            # every batch the endpoint accepted must go out, whatever its size (both mechanisms)
            return ("the sender refused a batch of %d plaintext bytes" % step_pt(st), None)
        elif r[0] == 13 and "tick" not in st and not any(x[0] == 12 for x in snd[:i]):
            return ("a write call emitted nothing for %d plaintext bytes" % step_pt(st), None)
    mutated = bool(c.get("imuts") or c.get("bmuts"))
    all_msgs = [m for (_, m, _) in msgs]

    if not mutated:
        # --- decodability of everything the endpoint emitted, of any size
        # MAXMSGSIZE only excuses a refusal when some FRAME exceeds it: a multipart message or a coalesced batch whose frames
        # are all within the limit must be delivered however large the record is (added after the seeded change
        # C18-record-length-guard-assumes-one-frame)
        mxs = c.get("maxsz", -1)
        frame_lens = [f["len"] if "len" in f else len(f.get("bytes", [])) for st in c["steps"]
                      for f in (st.get("app") or [x for g in st.get("batch", []) for x in g])]
        limited = mxs >= 0 and any(n > mxs for n in frame_lens)
        if delivered != all_msgs[:len(delivered)]:
            return ("the peer delivered something that was not sent (wrong, partial or duplicated message)", None)
        if not limited and (len(delivered) < len(all_msgs) or rcv_err):
            if len(delivered) < len(all_msgs) and msgs[len(delivered)][2] or (len(delivered) == len(all_msgs) and saw_raw):
                return ("after a heartbeat PING (written outside the record layer) the peer no longer decodes the "
                        "sender's records: message %d not delivered%s" % (len(delivered), ", PeerError" if rcv_err else ", stalled"),
                        SIG_HB)
            return ("an accepted batch was not delivered by the peer: %d of %d messages delivered%s"
                    % (len(delivered), len(all_msgs), ", PeerError" if rcv_err else ""), None)
        if saw_raw and f98[3] == 1 and back == 0:
            return ("the heartbeat PING emitted on an encrypted link was not decoded by the peer (no PONG): the sender "
                    "is left waiting_for_pong%s" % (" and closes with Timeout" if f97 and f97[1] == 5 else ""), SIG_HB)
        if back > 0 and (f98[2] > 0 or f98[1] == 5):
            return ("the PONG the peer wrote in clear is not decodable by the PING's sender (buffer stuck at %d bytes)" % f98[2],
                    SIG_HB)
        return None

    # --- tampered stream: exactly the messages complete in the clean prefix of records are delivered, each whole
    seq = list(range(len(rec_ct)))
    for m in c.get("imuts", []):
        i = m["i"]
        if m["op"] == "drop" and i < len(seq):
            seq.pop(i)
        elif m["op"] == "dup" and i < len(seq):
            seq.insert(i, seq[i])
        elif m["op"] == "swap" and i + 1 < len(seq):
            seq[i], seq[i + 1] = seq[i + 1], seq[i]
    lens = [rec_ct[j] + 2 for j in seq]
    total = sum(lens)
    clean = total
    bmuts = c.get("bmuts", [])
    if len(bmuts) == 2 and bmuts[0] == bmuts[1] and bmuts[0]["op"] == "flip":
        bmuts = []                            # the same bit flipped twice: the stream is unchanged
    for m in bmuts:
        if m["op"] == "flip" and m["at"] < total:
            clean = min(clean, m["at"])
        elif m["op"] == "trunc" and m["at"] <= total:
            clean = min(clean, m["at"])
            total = m["at"]
        elif m["op"] == "inject" and m["at"] <= total:
            clean = min(clean, m["at"])
            total += len(m["data"]["bytes"]) if "bytes" in m["data"] else m["data"]["len"]
    k = 0
    pos = 0
    while k < len(seq) and seq[k] == k and pos + lens[k] <= clean:
        pos += lens[k]
        k += 1
    clean_pt = sum(rec_ct[j] - 16 for j in range(k))
    expect = [m for (end, m, _) in msgs if end <= clean_pt]
    if delivered != expect:
        if delivered == expect[:len(delivered)]:
            return ("the messages complete in the untouched records before the first modification were not all delivered "
                    "(%d of %d)" % (len(delivered), len(expect)), None)
        return ("after tampering the peer delivered a message outside the untouched prefix (wrong, partial, replayed "
                "or reordered): %d delivered, %d expected" % (len(delivered), len(expect)), None)
    closed = f99[1] == 5
    if rcv_err != closed:
        return ("PeerError and the Closed phase do not go together", None)
    # an error is mandatory when a complete wrong record is certainly present
    must_err = False
    if not bmuts and k < len(seq):
        must_err = True                       # dropped (not last) / duplicated / swapped record
    for m in bmuts:
        if m["op"] == "flip" and len(bmuts) == 1 and not c.get("imuts") and m["at"] < total:
            off = m["at"] - pos
            if k < len(seq) and off >= 2:
                must_err = True               # flip inside tag or body of a complete record
    if must_err and not rcv_err:
        return ("a modified record did not close the connection", None)
    if not rcv_err and not closed and k == len(seq) and f99[2] != total - pos:
        return ("bytes after the delivered records vanished", None)
    return None


def nontrivial(c, o):
    return any(r and r[0] in (7, 8, 70, 62, 63) for r in o["rows"])


def shrink(c):
    if c["k"] != "flow":
        return
    st = c["steps"]
    if not c.get("imuts") and not c.get("bmuts"):
        for i in range(len(st)):
            if len(st) > 1:
                yield dict(c, steps=st[:i] + st[i + 1:], cuts=[])
    if c.get("cuts"):
        yield dict(c, cuts=[])


def main(argv):
    tier, seed = C.tier_and_seed(argv)
    res = C.Result(PROP, tier, seed)
    res.rule = ("cases = flows between two REAL engines after a real CURVE / NOISE_XX handshake (both roles): honest batches "
                "(sizes 0 .. 131100, totals crossing 65519/65535, multipart, frame_batch), every single and sampled double "
                "mutation of the record stream (bit flips in prefix/tag/body, drop/dup/swap, truncation, injection) under "
                "random segmentation, heartbeat ticks / PINGs, and pairs of sessions with equal static keys; generated "
                "from random.Random(seed); non-trivial = at least one delivered frame, error or session comparison; "
                "distinct by case JSON")
    C.proof_stage(res, PROP, ["theories/Corr/C18Corr.vo"])
    rng = random.Random(seed)
    cases = gen_cases(rng, tier)
    for c in cases:
        res.count("kind:" + c["k"])
        res.count("mech:" + c["mech"])
        if c["k"] == "flow":
            res.count("mutations:%d" % (len(c.get("imuts", [])) + len(c.get("bmuts", []))))
            for m in c.get("imuts", []) + c.get("bmuts", []):
                res.count("mut:" + m["op"])
            if "hb" in c:
                res.count("heartbeat")

    hits = {}

    def oracle_np(c, o):
        v = oracle(c, o)
        if v is None:
            return None
        msg, sig = v
        if sig:
            # genuine defect of rzmq recorded in known_findings.json: KNOWN-FINDING if listed, VIOLATION otherwise
            hits[sig] = hits.get(sig, 0) + 1
            res.violation({"property": PROP, "kind": "implementation violates property oracle", "what": msg,
                           "case": c, "impl_obs": o, "harness": "c18", "signature": sig},
                          found_input=True, signature=sig)
            return None
        return msg

    C.differential(res, PROP, "c18", cases, to_coq, REQ, "c18_mismatches", "c18_model", oracle_np,
                   shrink=shrink, nontrivial=nontrivial, theorems_note=THEOREMS, shards=16)
    for s in (SIG_HB, SIG_SESS):
        res.notes.append("finding %s reproduced on %d cases" % (s, hits.get(s, 0)))
    res.extra["suspected_defects_reproduced"] = hits
    return res.finish(level="proof", assumptions=[
        "the AEADs (dryoc crypto_box, snow ChaChaPoly) are idealised: ideal_aead premise of every C18 theorem; no claim "
        "about the primitives, key secrecy or side channels",
        "attacker streams are 'unforged' (no new ciphertext under the session key): explicit premise of the tamper theorems",
        "the model side of the correspondence runs a toy AEAD with the same ciphertext expansion (16 bytes); ciphertext "
        "bytes themselves are not compared",
        "record counters stay below 2^64 (ctr_room premise)"])
