"""C12 - SUB delivers exactly what its current subscriptions match. See DESIGN.md section 6 (C12)."""
import json
import random
from collections import Counter
from . import common as C

PROP = "C12"
REQ = "From RZ Require Import Base.Prelude Model.Trie Corr.C12Corr."
THEOREMS = ("C12_subscribe_abs, C12_unsubscribe_abs, C12_matches_spec, C12_run_refines, C12_history_balance, "
            "C12_filter_paths_agree, C12_batch_backpressure_keeps_order, C12_sub_forwards_iff_active_prefix")


# ---------------------------------------------------------------- generators

def gen_pool(rng):
    """A family of topics that are empty / nested prefixes of each other / binary / siblings."""
    style = rng.random()
    if style < 0.35:
        alphabet = [0, 1, 255]                     # tiny alphabet: many accidental prefixes
    elif style < 0.6:
        alphabet = [0, 1, 127, 128, 254, 255, 47]  # binary incl. NUL and 0xFF
    elif style < 0.8:
        alphabet = list(b"ab/")                    # text-like
    else:
        alphabet = list(range(256))
    base = [rng.choice(alphabet) for _ in range(rng.choice([1, 2, 3, 4, 6, 9, 12]))]
    pool = [[]] if rng.random() < 0.3 else []
    pool.append(base)
    for _ in range(rng.randrange(1, 5)):
        pool.append(base[:rng.randrange(0, len(base) + 1)])            # nested prefix
    for _ in range(rng.randrange(0, 3)):
        k = rng.randrange(0, len(base) + 1)
        pool.append(base[:k] + [rng.choice(alphabet) for _ in range(rng.randrange(1, 4))])  # sibling / extension
    for _ in range(rng.randrange(0, 3)):
        pool.append([rng.choice(alphabet) for _ in range(rng.randrange(0, 5))])
    return pool, alphabet


def gen_probe(rng, pool, alphabet):
    """A message topic: pool element, an extension, a strict prefix, a near miss, or unrelated."""
    r = rng.random()
    p = list(rng.choice(pool))
    if r < 0.2:
        return p
    if r < 0.55:
        return p + [rng.choice(alphabet) for _ in range(rng.randrange(1, 5))]
    if r < 0.7:
        return p[:rng.randrange(0, len(p) + 1)]
    if r < 0.85 and p:
        i = rng.randrange(len(p))
        q = list(p)
        q[i] = (q[i] + rng.choice([1, 255])) % 256
        return q + [rng.choice(alphabet) for _ in range(rng.randrange(0, 3))]
    return [rng.choice(alphabet) for _ in range(rng.randrange(0, 6))]


def gen_subops(rng, pool, n, with_queries=True, alphabet=None):
    ops = []
    for _ in range(n):
        r = rng.random()
        if r < 0.32:
            t = rng.choice(pool)
            for _ in range(rng.choice([1, 1, 1, 2, 3])):       # repeated subscribe
                ops.append({"o": "sub", "t": t})
        elif r < 0.6:
            t = rng.choice(pool)
            for _ in range(rng.choice([1, 1, 2, 4])):          # possibly more unsubs than subs
                ops.append({"o": "unsub", "t": t})
        elif r < 0.66:
            ops.append({"o": "unsub", "t": gen_probe(rng, pool, alphabet)})   # mostly never subscribed
        elif not with_queries:
            continue
        elif r < 0.93:
            ops.append({"o": "match", "t": gen_probe(rng, pool, alphabet)})
        else:
            ops.append({"o": "topics"})
    return ops


def gen_message(rng, pool, alphabet):
    r = rng.random()
    if r < 0.04:
        return []                                   # empty batch: topic is b""
    if r < 0.1:
        first = None                                # Msg::new(): data() is None, topic is b""
    else:
        first = gen_probe(rng, pool, alphabet)
    rest = []
    for _ in range(rng.choice([0, 0, 1, 2, 3])):
        # later frames deliberately look like topics: they must not influence the filter
        rest.append(gen_probe(rng, pool, alphabet) if rng.random() < 0.8 else None)
    return [first] + rest


FIXED = [
    {"k": "hist", "ops": [{"o": "match", "t": []}, {"o": "unsub", "t": []}, {"o": "topics"}, {"o": "sub", "t": []},
                          {"o": "match", "t": []}, {"o": "match", "t": [0]}, {"o": "topics"}, {"o": "unsub", "t": []},
                          {"o": "match", "t": []}, {"o": "unsub", "t": []}, {"o": "sub", "t": [0]}, {"o": "match", "t": []},
                          {"o": "match", "t": [0, 0]}, {"o": "topics"}]},
    {"k": "hist", "ops": [{"o": "sub", "t": [1, 2, 3]}, {"o": "unsub", "t": [1, 2]}, {"o": "match", "t": [1, 2, 3]},
                          {"o": "match", "t": [1, 2]}, {"o": "unsub", "t": [1, 2, 3, 4]}, {"o": "unsub", "t": [1, 2, 3]},
                          {"o": "match", "t": [1, 2, 3]}, {"o": "unsub", "t": [1, 2, 3]}, {"o": "sub", "t": [1, 2, 3]},
                          {"o": "match", "t": [1, 2, 3, 255]}, {"o": "topics"}]},
    {"k": "hist", "ops": [{"o": "sub", "t": [7]}] * 5 + [{"o": "unsub", "t": [7]}, {"o": "match", "t": [7, 7]}] * 6 + [{"o": "topics"}]},
    {"k": "hist", "ops": [{"o": "sub", "t": [5, 6]}, {"o": "sub", "t": [5]}, {"o": "unsub", "t": [5]}, {"o": "match", "t": [5, 7]},
                          {"o": "match", "t": [5, 6, 0]}, {"o": "topics"}]},
]


def gen_cases(rng, n):
    cases = list(FIXED)
    while len(cases) < n:
        pool, alphabet = gen_pool(rng)
        r = rng.random()
        if r < 0.6:
            cases.append({"k": "hist", "ops": gen_subops(rng, pool, rng.choice([4, 8, 15, 30]), True, alphabet)})
        else:
            ops = gen_subops(rng, pool, rng.choice([1, 3, 6, 10]), False, alphabet)
            items = [gen_message(rng, pool, alphabet) for _ in range(rng.choice([0, 1, 3, 6, 10]))]
            base = {"k": "filter", "ops": ops, "items": items, "alive": rng.random() < 0.9}
            big = len(items) + 1
            for path in (0, 1, 2):
                cap = big if path == 0 else rng.choice([1, 1, 2, 3, big])
                cases.append(dict(base, path=path, cap=cap))
    return cases


# ---------------------------------------------------------------- Coq printers

def c_op(o):
    if o["o"] == "sub":
        return "Sub " + C.cNlist(o["t"])
    if o["o"] == "unsub":
        return "Unsub " + C.cNlist(o["t"])
    if o["o"] == "match":
        return "Match " + C.cNlist(o["t"])
    return "Topics"


def c_ops(ops):
    return "[" + "; ".join(c_op(o) for o in ops) + "]"


def c_msg(m):
    return "[" + "; ".join("None" if f is None else "Some " + C.cNlist(f) for f in m) + "]"


def to_coq(c):
    if c["k"] == "hist":
        return "(CHist %s)" % c_ops(c["ops"])
    return "(CFilter %s %d %s %d %s)" % (c_ops(c["ops"]), c["cap"], C.cbool(c["alive"]), c["path"],
                                         "[" + "; ".join(c_msg(m) for m in c["items"]) + "]")


# ---------------------------------------------------------------- implementation-side oracle
# The reference is the multiset semantics of the property text, computed here independently of the
# Coq model: a topic is active while (#subscribes - #effective unsubscribes) > 0; a message matches
# iff some active topic is a byte-prefix of it.

def ref_matches(active, m):
    return any(cnt > 0 and tuple(m[:len(t)]) == t for t, cnt in active.items())


def ref_apply(active, o):
    """returns the expected row"""
    t = tuple(o.get("t", []))
    if o["o"] == "sub":
        active[t] += 1
        return [0]
    if o["o"] == "unsub":
        if active[t] > 0:
            active[t] -= 1
            return [1, 1 if active[t] == 0 else 0]
        return [1, 0]
    if o["o"] == "match":
        return [2, 1 if ref_matches(active, list(t)) else 0]
    ts = sorted(list(k) for k, v in active.items() if v > 0)
    row = [3, len(ts)]
    for x in ts:
        row += [len(x)] + x
    return row


def msg_row(tag, m):
    r = [tag, len(m)]
    for f in m:
        r += [0, 0] if f is None else [1, len(f)] + list(f)
    return r


def topic_of(m):
    return [] if not m or m[0] is None else m[0]


def oracle(c, o):
    if o.get("panic"):
        return "the trie / filter code panicked"
    rows = o["rows"]
    active = Counter()
    if c["k"] == "hist":
        if len(rows) != len(c["ops"]):
            return "wrong number of observation rows"
        for i, (op, row) in enumerate(zip(c["ops"], rows)):
            exp = ref_apply(active, op)
            if row != exp:
                what = {"sub": "subscribe", "unsub": "unsubscribe result", "match": "matches", "topics": "get_all_topics"}[op["o"]]
                return "op %d (%s %s): implementation %s, multiset reference %s" % (i, what, op.get("t"), row, exp)
        return None
    for op in c["ops"]:
        ref_apply(active, op)
    if o.get("real_cap") != c["cap"]:
        return None  # channel rounded the capacity: the capacity-dependent expectations below do not apply
    items = c["items"]
    want = [m for m in items if ref_matches(active, topic_of(m))]
    drained = [r for r in rows if r and r[0] == 9]
    if not c["alive"]:
        return "a dead pipe received messages" if drained else None
    exp = [msg_row(9, m) for m in want[:c["cap"]]]
    if c["path"] == 0:
        exp = [msg_row(9, m) for m in want]
    if drained != exp:
        return ("SUB-side filter (path %d) forwarded %s but the messages whose first frame has an active prefix are %s"
                % (c["path"], drained, exp))
    if c["path"] == 2:
        # what was not forwarded for lack of room must still be queued, in order, starting at the
        # first matching message that did not fit
        left = [r for r in rows if r and r[0] == 8]
        k, seen = len(items), 0
        for i, m in enumerate(items):
            if ref_matches(active, topic_of(m)):
                if seen == c["cap"]:
                    k = i
                    break
                seen += 1
        if left != [msg_row(8, m) for m in items[k:]]:
            return "batched path lost or reordered back-pressured messages"
    return None


# ---------------------------------------------------------------- stack level (kind D)

def gen_stack(rng, idx, transport):
    import os
    pool, alphabet = gen_pool(rng)
    subs = []
    for _ in range(3):
        subs.append({"ops": gen_subops(rng, pool, rng.choice([2, 4, 7]), False, alphabet), "reads": True})
    msgs = []
    for _ in range(14):
        m = [f if f is not None else [] for f in gen_message(rng, pool, alphabet)]
        msgs.append(m or [[]])
    return {"k": "stack", "transport": transport, "port": 20000 + (os.getpid() * 7 + idx) % 20000, "settle_ms": 400,
            "idle_ms": 500, "send_timeout_ms": 3000, "subs": subs, "msgs": msgs}


def stack_oracle(c, o):
    if o.get("panic"):
        return "stack scenario panicked"
    if o["send_timed_out_at"] >= 0:
        return None  # publisher blocked although every subscriber reads: not judged here
    for i, sd in enumerate(c["subs"]):
        active = Counter()
        for op in sd["ops"]:
            ref_apply(active, op)
        want = [msg_row(9, m) for m in c["msgs"] if ref_matches(active, topic_of(m))]
        if o["recv"][i] != want:
            return ("SUB %d (%s) received %s, but the published messages whose first frame has an active prefix are %s"
                    % (i, c["transport"], o["recv"][i], want))
    return None


def stall_case(transport, idx):
    import os
    return {"k": "stack", "transport": transport, "port": 20000 + (os.getpid() * 7 + 100 + idx) % 20000, "settle_ms": 300,
            "idle_ms": 700, "send_timeout_ms": 1000, "sndhwm": 4, "rcvhwm": 4,
            "subs": [{"ops": [{"o": "sub", "t": []}], "reads": False}, {"ops": [{"o": "sub", "t": []}], "reads": True}],
            "msgs": [[[65, i % 256]] for i in range(60)]}


def stack_stage(res, rng, tier):
    n = 2 if tier == "quick" else 8
    cases = []
    for i in range(n):
        cases.append(gen_stack(rng, 2 * i, "inproc"))
        cases.append(gen_stack(rng, 2 * i + 1, "tcp"))
    obs, log = C.run_harness("c12", cases, PROP, tag="stack", timeout=600)
    if obs is None:
        res.notes.append("stack scenarios did not run: " + str(log)[-500:])
        return
    res.evaluations += len(cases)
    for c, o in zip(cases, obs):
        res.count("stack:" + c["transport"])
        msg = stack_oracle(c, o)
        if msg:
            # timing (slow joiner) is the only legitimate reason for a difference: run once more, slower
            c2 = dict(c, settle_ms=1500, idle_ms=1500, port=c["port"] + 50)
            o2, _ = C.run_harness("c12", [c2], PROP, tag="stack_retry", timeout=600)
            msg2 = stack_oracle(c2, o2[0]) if o2 else None
            if msg2:
                res.violation({"property": PROP, "kind": "implementation violates property oracle (stack level)", "what": msg2,
                               "case": c2, "impl_obs": o2[0], "harness": "c12"}, found_input=True)
        elif any(o["recv"]):
            res.nontrivial.add(json.dumps(c, sort_keys=True))
    # stalled subscriber: observation only (DESIGN 6/C12 "Expected findings"); never fails the check
    sc = [stall_case("inproc", 0)]
    so, _ = C.run_harness("c12", sc, PROP, tag="stall", timeout=600)
    if so:
        o = so[0]
        res.extra["stalled_subscriber_observation"] = {
            "scenario": "PUB(sndhwm=4) + SUB that never reads + SUB that reads, inproc, 60 one-frame messages, per-send cap 1000 ms",
            "publishes_completed": len(o["send_ms"]) - (1 if o["send_timed_out_at"] >= 0 else 0),
            "publish_blocked_at_index": o["send_timed_out_at"],
            "max_publish_ms": max(o["send_ms"]) if o["send_ms"] else 0,
            "reading_subscriber_received": len(o["recv"][1] or []),
        }
        if o["send_timed_out_at"] >= 0 or (o["send_ms"] and max(o["send_ms"]) >= 900):
            sig = "C12:pub-blocks-on-stalled-subscriber"
            res.violation({"property": PROP, "kind": "implementation violates property oracle (stack level)",
                           "what": "a subscriber that never reads blocks PUB send() (publish #%d did not return within 1000 ms) "
                                   "and so delays delivery to the reading subscriber" % o["send_timed_out_at"],
                           "case": sc[0], "impl_obs": {k: o[k] for k in ("send_timed_out_at",)}, "harness": "c12",
                           "signature": sig}, found_input=True, signature=sig)


def shrink(c):
    ops = c["ops"]
    for i in range(len(ops)):
        yield dict(c, ops=ops[:i] + ops[i + 1:])
    if c["k"] == "filter":
        it = c["items"]
        for i in range(len(it)):
            yield dict(c, items=it[:i] + it[i + 1:])


def nontrivial(c, o):
    if c["k"] == "hist":
        return any(r[:2] in ([1, 1], [2, 1]) for r in o["rows"])
    return any(r and r[0] == 9 for r in o["rows"])


def replay_main(path):
    """./check C12 --replay <file>: re-run the one case stored in a replay file."""
    rp = json.load(open(path))
    case = rp.get("case")
    res = C.Result(PROP, "replay", 0)
    res.rule = "replay of one stored case"
    if case is None:
        print("replay file has no case (it names a broken correspondence/proof obligation): running the quick tier instead")
        return main(["quick"])
    if case["k"] == "stack":
        ok, log = C.build_harness()
        obs, _ = C.run_harness("c12", [case], PROP, tag="replay") if ok else (None, log)
        res.evaluations += 1
        msg = stack_oracle(case, obs[0]) if obs else "harness did not run"
        if msg:
            res.violation({"property": PROP, "kind": "implementation violates property oracle (stack level)", "what": msg,
                           "case": case, "impl_obs": obs[0] if obs else None, "harness": "c12"}, found_input=True)
        return res.finish()
    C.proof_stage(res, PROP, ["theories/Corr/C12Corr.vo"])
    C.differential(res, PROP, "c12", [case], to_coq, REQ, "c12_mismatches", "c12_model", oracle,
                   nontrivial=nontrivial, theorems_note=THEOREMS)
    return res.finish()


def main(argv):
    if argv and argv[0] == "--replay":
        return replay_main(argv[1])
    tier, seed = C.tier_and_seed(argv)
    res = C.Result(PROP, tier, seed)
    res.rule = ("cases = op histories [sub|unsub|match|topics] on one real SubscriptionTrie (topics: empty, nested prefixes, "
                "binary, repeated, never-subscribed) and runs of multipart messages through a real FilteredAnonymous "
                "PipeMessageSender on the three paths (send / try_send_sync / try_send_batch) with small pipe capacities; "
                "generated from random.Random(seed); non-trivial = some match/unsubscribe answered true or some message "
                "was forwarded; distinct by case JSON")
    C.proof_stage(res, PROP, ["theories/Corr/C12Corr.vo"])
    rng = random.Random(seed)
    n = 450 if tier == "quick" else 30000
    cases = gen_cases(rng, n)
    for c in cases:
        res.count("kind:" + c["k"] + (":path%d" % c["path"] if c["k"] == "filter" else ""))
        for op in c["ops"]:
            res.count("op:" + op["o"])
            if "t" in op:
                res.count("topic_len:%s" % (len(op["t"]) if len(op["t"]) < 4 else "4+"))
    obs = C.differential(res, PROP, "c12", cases, to_coq, REQ, "c12_mismatches", "c12_model", oracle,
                         shrink=shrink, nontrivial=nontrivial, theorems_note=THEOREMS)
    if obs:
        stack_stage(res, rng, tier)
        for c, o in zip(cases, obs):
            for r in o["rows"]:
                if r[0] in (1, 2) and c["k"] == "hist":
                    res.count("%s:%d" % ("unsub" if r[0] == 1 else "match", r[1]))
    return res.finish(assumptions=[
        "concurrent subscribe/unsubscribe/matches on one trie are not modelled (sequential histories only)",
        "usize is 64 bits; subscribe_abs/run_refines exclude histories of 2^64 or more subscribes",
        "HashMap iteration order: get_all_topics is compared after sorting",
        "the pipe's channel is abstracted to a counter of free slots (capacity is echoed by the harness and checked)",
    ])
