"""C13 - PUSH/DEALER load balancing: exactly one peer per message, round-robin over ready peers,
no starvation, membership changes mid-stream, wait_for_connection.  See DESIGN.md section 6 (C13)."""
import random
from . import common as C

PROP = "C13"
REQ = "From RZ Require Import Base.Prelude Model.Balancer Model.Route Model.LbWait Corr.C13Corr."
THEOREMS = ("C13_idx_in_range, C13_peers_nodup, C13_rr_cycle, C13_remove_keeps_successor*, C13_add_joins_end, "
            "C13_route_exactly_one*, C13_route_skips_full, C13_route_no_starvation, C13_dealer_send_*, C13_wait_*")
LOST_SIG = "C13:wait_for_connection:notified-created-after-check"
DEALER_SIG = "C13:dealer:ok-after-blocking-send-timeout"

NP = 8  # uris are 0..7 (bit positions of the readiness masks)


# ---------------------------------------------------------------- generators

def gen_masks(rng, n, style):
    out = []
    full_until = rng.randrange(0, n) if style == "burst" else 0
    stuck = rng.randrange(NP)
    for t in range(n):
        if style == "accept":
            m = (1 << NP) - 1
        elif style == "full":
            m = 0
        elif style == "burst":
            m = 0 if t < full_until else rng.randrange(1 << NP)
        elif style == "onefull":
            m = ((1 << NP) - 1) & ~(1 << stuck)
        elif style == "sparse":
            m = rng.randrange(1 << NP) & rng.randrange(1 << NP)
        else:
            m = rng.randrange(1 << NP)
        out.append(m)
    return out


def gen_hist(rng):
    nops = rng.choice([6, 10, 16, 24, 40])
    universe = rng.sample(range(NP), rng.choice([1, 2, 3, 3, 4, 5, 5]))
    ops = []
    present = []
    # warm-up: connect some peers first (not always: sends without peers are part of the property)
    if rng.random() < 0.8:
        for u in rng.sample(universe, rng.randrange(1, len(universe) + 1)):
            ops.append(["add", u])
            present.append(u)
    steady = rng.random() < 0.3  # long runs without membership change
    for _ in range(nops):
        r = rng.random()
        if r < (0.03 if steady else 0.16):
            u = rng.choice(universe) if rng.random() < 0.9 else rng.randrange(NP)
            ops.append(["add", u])  # duplicates on purpose
            if u not in present:
                present.append(u)
        elif r < (0.05 if steady else 0.30):
            # present (anywhere relative to the cursor) or absent
            u = rng.choice(present) if present and rng.random() < 0.8 else rng.randrange(NP)
            ops.append(["rem", u])
            if u in present:
                present.remove(u)
        elif r < 0.40:
            ops.append(["next"])
        elif r < 0.62:
            ops.append(["try"])
        elif r < 0.84:
            ops.append(["route", 0])
        elif r < 0.93:
            ops.append(["route", 1])
        else:
            ops.append(["resume"])
    nt = 6 * len(ops) + 8
    style = rng.choice(["accept", "full", "burst", "onefull", "sparse", "random", "random", "burst"])
    acc = gen_masks(rng, nt, style)
    closed = [(rng.randrange(1 << NP) & rng.randrange(1 << NP) & rng.randrange(1 << NP)) if rng.random() < 0.08 else 0 for _ in range(nt)]
    sacc = gen_masks(rng, nt, rng.choice(["accept", "full", "random"]))
    sclosed = [rng.randrange(1 << NP) if rng.random() < 0.25 else 0 for _ in range(nt)]
    env = []
    if rng.random() < 0.35:
        for t in sorted(rng.sample(range(nt // 3), rng.randrange(1, 5))):
            mo = []
            for _ in range(rng.choice([1, 1, 2, 3])):
                u = rng.choice(universe) if rng.random() < 0.85 else rng.randrange(NP)
                mo.append(["a" if rng.random() < 0.45 else "r", u])
            env.append([t, mo])
    return {"k": "hist", "ops": ops, "acc": acc, "closed": closed, "sacc": sacc, "sclosed": sclosed, "env": env}


def gen_eops(rng, allow_deact=True):
    out = []
    for _ in range(rng.choice([1, 1, 1, 2, 3])):
        r = rng.random()
        if r < 0.6:
            out.append(["a", rng.randrange(4)])
        elif r < 0.93 or not allow_deact:
            out.append(["r", rng.randrange(4)])
        else:
            out.append(["d"])
    return out


def gen_wait(rng):
    items = []
    for _ in range(rng.randrange(2, 11)):
        r = rng.random()
        if r < 0.45:
            items.append(["poll", []])
        elif r < 0.65:
            items.append(["poll", gen_eops(rng)])
        else:
            items.append(["env", gen_eops(rng)])
    if items[-1][0] != "poll":
        items.append(["poll", []])
    return {"k": "wait", "items": items}


CORPUS = [
    # the lost wake-up, minimal: check; add_connection in the gap; notified() created afterwards
    {"k": "wait", "items": [["poll", [["a", 1]]], ["poll", []]]},
    # same, then a duplicate add (no notify), then a NEW peer finally wakes the waiter
    {"k": "wait", "items": [["poll", [["a", 1]]], ["env", [["a", 1]]], ["poll", []], ["env", [["a", 2]]], ["poll", []]]},
    # control: peer arrives while parked
    {"k": "wait", "items": [["poll", []], ["env", [["a", 1]]], ["poll", []]]},
    {"k": "waitmt", "gap": True},
    {"k": "waitmt", "gap": False},
    # several tasks blocked at once, ONE peer connects: every one of them must proceed
    {"k": "waitn", "n": 2}, {"k": "waitn", "n": 3}, {"k": "waitn", "n": 5},
    # all peers full: try gives the message back, route blocks on the first peer of the pass
    {"k": "hist", "ops": [["add", 0], ["add", 1], ["add", 2], ["next"], ["try"], ["route", 0], ["route", 0], ["next"]],
     "acc": [0] * 16, "closed": [0] * 16, "sacc": [0, 0, 0, 0, 0, 0, 1, 0, 0, 0, 7], "sclosed": [0] * 16, "env": []},
    # removes before / at / after the cursor
    {"k": "hist", "ops": [["add", 0], ["add", 1], ["add", 2], ["add", 3], ["next"], ["next"], ["rem", 0], ["next"], ["rem", 3],
                          ["next"], ["rem", 1], ["next"], ["rem", 2], ["next"], ["rem", 2]],
     "acc": [], "closed": [], "sacc": [], "sclosed": [], "env": []},
    # a peer disconnects while the sweep is on it, another connects: no message sent twice
    {"k": "hist", "ops": [["add", 0], ["add", 1], ["route", 0], ["route", 0], ["try"], ["route", 1]],
     "acc": [0, 2, 4, 4, 4, 4, 4, 4], "closed": [0] * 8, "sacc": [255] * 8, "sclosed": [0] * 8,
     "env": [[0, [["r", 1], ["a", 2]]], [2, [["r", 0]]]]},
    # a send waiting for its first peer proceeds once one has connected
    {"k": "hist", "ops": [["route", 1], ["resume"], ["add", 5], ["resume"], ["resume"]],
     "acc": [32] * 4, "closed": [0] * 4, "sacc": [0] * 4, "sclosed": [0] * 4, "env": []},
]


def gen_cases(rng, n_hist, n_wait):
    cases = [dict(c) for c in CORPUS]
    cases += [gen_hist(rng) for _ in range(n_hist)]
    cases += [gen_wait(rng) for _ in range(n_wait)]
    return cases


# ---------------------------------------------------------------- Coq printers

def c_mops(ops, ctor_a="MAdd", ctor_r="MRemove"):
    out = []
    for o in ops:
        if o[0] == "a":
            out.append("%s %d" % (ctor_a, o[1]))
        elif o[0] == "r":
            out.append("%s %d" % (ctor_r, o[1]))
        else:
            out.append("EDeact")
    return "[" + "; ".join(out) + "]"


def c_hop(o):
    k = o[0]
    if k == "add":
        return "HAdd %d" % o[1]
    if k == "rem":
        return "HRemove %d" % o[1]
    if k == "next":
        return "HNext"
    if k == "try":
        return "HTry"
    if k == "route":
        return "HRoute %s" % C.cbool(o[1] != 0)
    return "HResume"


def to_coq(c):
    if c["k"] == "hist":
        env = "[" + "; ".join("(%d, %s)" % (t, c_mops(ops)) for t, ops in c["env"]) + "]"
        return "(CHist [%s] %s %s %s %s %s)" % ("; ".join(c_hop(o) for o in c["ops"]), C.cNlist(c["acc"]),
                                               C.cNlist(c["closed"]), C.cNlist(c["sacc"]), C.cNlist(c["sclosed"]), env)
    if c["k"] == "wait":
        items = []
        for it in c["items"]:
            items.append("%s %s" % ("WPoll" if it[0] == "poll" else "WEnv", c_mops(it[1], "EAdd", "ERemove")))
        return "(CWait [%s])" % "; ".join(items)
    if c["k"] == "waitn":
        return "(CWaitN %d%%nat)" % c["n"]
    return "(CWaitMT %s)" % C.cbool(c["gap"])


# ---------------------------------------------------------------- implementation-side oracle

def script_answer(c, slow, t, p):
    acc, closed = (c["sacc"], c["sclosed"]) if slow else (c["acc"], c["closed"])
    if t < len(closed) and (closed[t] >> p) & 1:
        return 2
    if t < len(acc) and (acc[t] >> p) & 1:
        return 1
    return 0


def parse_row(r):
    opc, arg, code, peer, idx, n = r[:6]
    peers = r[6:6 + n]
    nlog = r[6 + n]
    flat = r[7 + n:]
    atts = [tuple(flat[4 * i:4 * i + 4]) for i in range(nlog)]
    return opc, arg, code, peer, idx, peers, atts


def oracle(c, o):
    if o.get("panic"):
        return "harness case panicked"
    rows = o["rows"]
    if c["k"] == "waitmt":
        if rows[0][0] == 1 and rows[0][1] > 0:
            return "lost wake-up: wait_for_connection still asleep 400 ms after a peer connected (2 threads, add_connection between the check and notified())"
        return None
    if c["k"] == "waitn":
        if rows[0][2] > 0:
            return ("%d of %d tasks waiting for a first peer were still parked 600 ms after a peer had connected (a send waiting "
                    "for a first peer must proceed as soon as one has connected)" % (rows[0][2], rows[0][0]))
        return None
    if c["k"] == "wait":
        deact = False
        for it, r in zip(c["items"], rows):
            if any(x[0] == "d" for x in it[1]) and (it[0] == "env" or r[3] == 1):
                deact = True
            if it[0] == "poll":
                if r[1] == 0 and (r[2] > 0 or deact):
                    return "lost wake-up: wait_for_connection stays parked although a peer is connected"
                if r[1] == 1 and r[2] == 0 and r[3] == 0:
                    return "wait_for_connection returned Ok without any peer"
        return None
    # ---- histories
    env = {t: ops for t, ops in c["env"]}
    prev_peers = []
    order = []      # independent reference: the upcoming turn order (a rotating queue)
    synced = True
    delivered_seen = []
    for i, (op, r) in enumerate(zip(c["ops"], rows)):
        opc, arg, code, peer, idx, peers, atts = parse_row(r)
        n0 = len(prev_peers)
        # cursor in range, uris unique
        if not (idx < len(peers) or (len(peers) == 0 and idx == 0)):
            return "op %d: cursor %d out of range for %d peers" % (i, idx, len(peers))
        if len(set(peers)) != len(peers):
            return "op %d: the same uri is in the rotation twice" % i
        members = set(prev_peers)
        k = op[0]
        if k == "add":
            if op[1] in prev_peers:
                if peers != prev_peers:
                    return "op %d: duplicate add changed the peer list" % i
            else:
                if peers != prev_peers + [op[1]]:
                    return "op %d: new peer did not join at the end of the list" % i
                synced = False
        elif k == "rem":
            if op[1] in order:
                order.remove(op[1])
            if peers != [p for p in prev_peers if p != op[1]]:
                return "op %d: remove changed other peers" % i
        elif k == "next":
            if n0 == 0:
                if code != 0:
                    return "op %d: get_next returned a peer from an empty balancer" % i
            else:
                if code != 1:
                    return "op %d: get_next returned None although peers are connected" % i
                if synced:
                    if order[0] != peer:
                        return "op %d: get_next returned %d, reference round-robin expects %d" % (i, peer, order[0])
                    order.append(order.pop(0))
        else:
            # try / route / resume: walk the send calls this op made
            accepted = 0
            for j, (t, p, slow, res) in enumerate(atts):
                if res != script_answer(c, slow, t, p):
                    return "op %d: scripted connection answered off-script" % i
                if accepted:
                    return "op %d: a further send call was made after a peer had accepted the message" % i
                if p not in members:
                    return "op %d: message offered to %d which is not a connected peer" % (i, p)
                if synced:
                    if not order or order[0] != p:
                        return "op %d: attempt on %d, reference round-robin expects %s" % (i, p, order[:1])
                    order.append(order.pop(0))
                if res == 1:
                    accepted += 1
                    delivered_seen.append(p)
                if slow and j != len(atts) - 1:
                    return "op %d: send calls after the blocking send" % i
                for e in env.get(t, []):
                    if e[0] == "a":
                        if e[1] not in members:
                            members.add(e[1])
                            synced = False
                    else:
                        members.discard(e[1])
                        if e[1] in order:
                            order.remove(e[1])
            fast = [a for a in atts if not a[2]]
            slowa = [a for a in atts if a[2]]
            if code in (1, 2):
                if accepted != 1 or atts[-1][3] != 1 or atts[-1][1] != peer:
                    return "op %d: success reported but not exactly one peer accepted" % i
                if any(a[3] != 0 for a in atts[:-1]):
                    return "op %d: delivered although an earlier peer of the sweep was not full" % i
            else:
                if accepted:
                    return "op %d: a peer accepted the message but the caller was told it failed (would be sent twice on retry)" % i
            if slowa:
                # blocking send only after max(count,1) full answers, never in try_route_sync
                if k == "try":
                    return "op %d: try_route_sync made a blocking send" % i
                if len(fast) != max(n0, 1) and k != "resume" and not any(t in env for (t, _, _, _) in atts):
                    return "op %d: blocked after %d full answers with %d peers connected" % (i, len(fast), n0)
                if any(a[3] != 0 for a in fast):
                    return "op %d: blocked although a peer had room during the sweep" % i
            if k == "try" and code == 0 and n0 > 0 and not any(t in env for (t, _, _, _) in atts):
                if sorted(a[1] for a in atts) != sorted(prev_peers):
                    return "op %d: try_route_sync gave up without asking every peer exactly once" % i
            if code == 5 and peers:
                return "op %d: send parked waiting for a peer although one is connected" % i
        # the reference queue must agree with the implementation's cursor after every op
        view = peers[idx:] + peers[:idx]
        if synced:
            if order != view:
                return "op %d: upcoming turn order %s, reference round-robin expects %s" % (i, view, order)
        else:
            order = list(view)
            synced = True
        prev_peers = peers
    # exactly-one accounting per message id, from what the peers recorded and what the caller got back
    deliv = {}
    for (mid, t, p) in o["deliveries"]:
        deliv.setdefault(mid, []).append((t, p))
    ids = set()
    for m in o["msgs"]:
        ids.add(m["id"])
        d = deliv.get(m["id"], [])
        if len(d) > 1:
            return "message %d was handed to %d peers" % (m["id"], len(d))
        if m["state"] == "ok":
            if len(d) != 1:
                return "message %d: Ok(()) but no peer has it" % m["id"]
            if m["ret"] is not None:
                return "message %d delivered AND returned" % m["id"]
        else:
            if d:
                return "message %d: peer %d has it but the caller was told it failed / is still waiting" % (m["id"], d[0][1])
            if m["state"] == "err" and m["err"] == 0 and m["ret"] != m["id"]:
                return "message %d: ResourceLimitReached without the batch being handed back" % m["id"]
    if any(mid not in ids for mid in deliv):
        return "a delivery was recorded for an unknown message"
    return None


def signature(c, o, msg):
    if msg and msg.startswith("lost wake-up"):
        return LOST_SIG
    return None


def shrink(c):
    key = "ops" if c["k"] == "hist" else "items" if c["k"] == "wait" else None
    if key is None:
        return
    xs = c[key]
    for i in range(len(xs)):
        if len(xs) > 1:
            yield dict(c, **{key: xs[:i] + xs[i + 1:]})
    if c["k"] == "hist" and c["env"]:
        yield dict(c, env=[])


def nontrivial(c, o):
    if c["k"] == "hist":
        return any(len(r) > 6 and r[0] in (3, 4, 5) and r[2] in (1, 2) for r in o["rows"])
    return any(r[1] == 1 for r in o["rows"]) if c["k"] == "wait" else True


def main(argv):
    tier, seed = C.tier_and_seed(argv)
    res = C.Result(PROP, tier, seed)
    res.rule = ("cases = histories [add|rem|next|try|route(wait)|resume] over 1..5 uris with per-send-call readiness masks "
                "(accept/full/closed per peer), blocking-send answers and membership changes landing during send calls; "
                "wait_for_connection poll schedules with operations injected at the check/notified() schedule point; "
                "2 multi-thread replays; generated from random.Random(seed) after a fixed corpus; non-trivial = at least "
                "one message delivered (hist) / one wait returned Ok; distinct by case JSON")
    C.proof_stage(res, PROP, ["theories/Corr/C13Corr.vo"])
    rng = random.Random(seed)
    n_hist, n_wait = (450, 150) if tier == "quick" else (9000, 3000)
    cases = gen_cases(rng, n_hist, n_wait)
    for c in cases:
        res.count("kind:" + c["k"])
        if c["k"] == "hist":
            for op in c["ops"]:
                res.count("op:" + op[0])
            res.count("env:%s" % bool(c["env"]))
    obs = C.differential(res, PROP, "c13", cases, to_coq, REQ, "c13_mismatches", "c13_model", oracle,
                         shrink=shrink, nontrivial=nontrivial, signature=signature, theorems_note=THEOREMS)
    if obs:
        for c, o in zip(cases, obs):
            if c["k"] == "hist":
                for r in o["rows"]:
                    if r[0] in (3, 4, 5):
                        res.count("outcome:%d" % r[2])
            elif c["k"] == "wait":
                for it, r in zip(c["items"], o["rows"]):
                    if it[0] == "poll":
                        res.count("wait:%s" % ("lost" if (r[1] == 0 and r[2] > 0) else ["parked", "ok", "err", "-"][r[1]]))
    if obs:
        # stack-level replay of C13_dealer_send_loses_refuted: real DEALER (SNDTIMEO 50 ms) -> real ROUTER over
        # inproc that does not read while the sends are made; afterwards the ROUTER drains until 1.5 s of silence
        probe, plog = C.run_harness("c13", [{"k": "dealer_loss", "n": 8}], PROP, tag="probe", timeout=180)
        if probe is None or probe[0].get("panic"):
            res.obligation(False, "DEALER stack-level probe could not run: " + str(plog)[-500:])
        else:
            res.evaluations += 1
            row = probe[0]["rows"][0]
            res.count("dealer_probe:ok=%d,received=%d,lost=%d" % (row[0], row[1], row[2]))
            if row[2] > 0:
                res.violation({"property": PROP, "kind": "implementation violates property oracle",
                               "what": "DEALER send() answered Ok for %d message(s) that no peer ever received (blocking send on "
                                       "the fresh peer timed out; an empty batch was queued instead of the message)" % row[2],
                               "case": {"k": "dealer_loss", "n": 8}, "impl_obs": probe[0], "harness": "c13",
                               "signature": DEALER_SIG}, found_input=True, signature=DEALER_SIG)
    return res.finish(assumptions=[
        "peer readiness (try_send / blocking send answers) is an oracle input; the real pipes are not modelled here (C14)",
        "tokio::sync::Notify: notify_waiters() wakes exactly the Notified futures that already exist (tokio docs)",
        "each LoadBalancer method is one atomic step (it holds the parking_lot mutex for its whole body)"])
