"""C07 - no peer byte stream crashes the engine or makes it buffer without bound (engine level +
handshake deadline at stack level)."""
import random
from . import common as C
from . import englib as E
from . import c04

PROP = "C07"
THEOREMS = "C07_no_panic, C07_error_closes, C07_closed_absorbing, C07_buffer_bound, C07_limit_accept, C07_limit_reject"


def mutate(rng, data):
    data = list(data)
    r = rng.random()
    if not data:
        return data
    if r < 0.3:
        for _ in range(rng.randrange(1, 4)):
            i = rng.randrange(len(data))
            data[i] ^= 1 << rng.randrange(8)
    elif r < 0.45:
        data = data[:rng.randrange(len(data))]
    elif r < 0.6:
        i = rng.randrange(len(data))
        j = min(len(data), i + rng.randrange(1, 30))
        data = data[:i] + data[i:j] + data[i:j] + data[j:]
    elif r < 0.7:
        i = rng.randrange(len(data))
        data = data[:i] + [rng.randrange(256) for _ in range(rng.randrange(1, 12))] + data[i:]
    elif r < 0.85:
        # length-field extremes on a long frame header injected somewhere after the handshake
        ext = rng.choice([0, 255, 256, 2**31, 2**63, 2**64 - 1])
        i = rng.randrange(len(data) + 1)
        data = data[:i] + [rng.choice([2, 3, 6])] + list(ext.to_bytes(8, "big")) + data[i:]
    else:
        i = rng.randrange(len(data))
        j = min(len(data), i + rng.randrange(1, 20))
        data = data[:i] + data[j:]
    return data


def special_transcripts(rng):
    """hand-written hostile transcripts: >255 MORE frames, invalid UTF-8 in READY metadata,
    truncated metadata, huge value_len, PLAIN tokens with bad lengths, v2 identity > 255."""
    out = []
    g = E.greeting("NULL", 1)
    out.append(("more256", E.mk_cfg(stype="PULL"), g + E.ready("PUSH") + sum([E.frame([i % 256], more=True) for i in range(256)], []) + E.frame([9])))
    out.append(("more255", E.mk_cfg(stype="PULL"), g + E.ready("PUSH") + sum([E.frame([i % 256], more=True) for i in range(254)], []) + E.frame([9])))
    out.append(("more300", E.mk_cfg(stype="PULL", server=True), E.greeting("NULL", 0) + E.ready("PUSH") + sum([E.frame([1], more=True) for i in range(300)], [])))
    bad_utf = E.frame([5] + E.asc("READY") + [2, 0xC3, 0x28] + [0, 0, 0, 1, 65], cmd=True)
    out.append(("ready_bad_utf8_name", E.mk_cfg(stype="PULL"), g + bad_utf))
    out.append(("ready_bad_utf8_value", E.mk_cfg(stype="PULL"), g + E.frame([5] + E.asc("READY") + E.prop(E.asc("Socket-Type"), [0xFF, 0xFE]), cmd=True) + E.frame([1])))
    out.append(("ready_trunc_name", E.mk_cfg(stype="PULL"), g + E.frame([5] + E.asc("READY") + [200, 65], cmd=True)))
    out.append(("ready_trunc_vlen", E.mk_cfg(stype="PULL"), g + E.frame([5] + E.asc("READY") + [1, 65, 0, 0], cmd=True)))
    out.append(("ready_huge_vlen", E.mk_cfg(stype="PULL"), g + E.frame([5] + E.asc("READY") + [1, 65, 255, 255, 255, 255, 1], cmd=True)))
    out.append(("ready_dup_props", E.mk_cfg(stype="PULL"), g + E.frame([5] + E.asc("READY") + E.prop(E.asc("Socket-Type"), E.asc("PUSH")) + E.prop(E.asc("Socket-Type"), E.asc("PUB")), cmd=True) + E.frame([7])))
    out.append(("ready_empty_name", E.mk_cfg(stype="PULL"), g + E.frame([5] + E.asc("READY") + [0, 0, 0, 0, 0], cmd=True) + E.frame([7])))
    # every prefix of a valid READY body (two properties) as a complete, consistently framed command: the metadata parser
    # sees each truncation point - inside a name, after it, after 0/1/2/3 of the 4 value-length bytes, inside a value
    # (added after the seeded change C07-ready-metadata-hoisted-bounds-check, which needs exactly 3 length bytes)
    full_ready = E.ready_body("PUSH", [7, 7, 7])
    for k in range(6, len(full_ready)):
        out.append(("ready_prefix_%d" % k, E.mk_cfg(stype="PULL"), g + E.frame(full_ready[:k], cmd=True) + E.frame([1])))
        if k % 3 == 0:
            out.append(("ready_prefix_srv_%d" % k, E.mk_cfg(stype="PULL", server=True), E.greeting("NULL", 0) + E.frame(full_ready[:k], cmd=True)))
    pc = E.mk_cfg(server=True, stype="REP", plain=True, user="u", pw="p")
    pg = E.greeting("PLAIN", 0)
    out.append(("plain_empty_token", pc, pg + E.frame([], cmd=True)))
    out.append(("plain_bad_cmdlen", pc, pg + E.frame([200, 72], cmd=True)))
    out.append(("plain_hello_short", pc, pg + E.frame([5] + E.asc("HELLO") + [1], cmd=True)))
    out.append(("plain_hello_userlen", pc, pg + E.frame([5] + E.asc("HELLO") + [9, 65, 0], cmd=True)))
    out.append(("plain_hello_passlen", pc, pg + E.frame([5] + E.asc("HELLO") + [1, 117, 9, 112], cmd=True)))
    # every prefix of a valid HELLO body as a complete, consistently framed command (cut after the user name, inside it, ...)
    full_body = [5] + E.asc("admin") + [6] + E.asc("secret")
    pc2 = E.mk_cfg(server=True, stype="REP", plain=True, user="admin", pw="secret")
    for k in range(len(full_body) + 1):
        out.append(("plain_hello_prefix_%d" % k, pc2, pg + E.frame([5] + E.asc("HELLO") + full_body[:k], cmd=True) + E.ready("REQ") + E.frame([1])))
    for body in ([1, 97], [0], [0, 0], [2, 97], [255] + [97] * 255, [1, 97, 255], [1, 97, 0]):
        out.append(("plain_hello_body_%s" % "_".join(map(str, body[:4])), pc, pg + E.frame([5] + E.asc("HELLO") + body, cmd=True)))
    out.append(("plain_hello_trailing", pc, pg + E.frame([5] + E.asc("HELLO") + [1, 117, 1, 112, 1, 2, 3], cmd=True) + E.ready("REQ") + E.frame([1])))
    out.append(("plain_data_as_token", pc, pg + E.frame([5] + E.asc("HELLO") + [1, 117, 1, 112]) + E.ready("REQ")))
    out.append(("v2_identity_256", E.mk_cfg(stype="PULL"), E.greeting_v2(8) + E.frame([1] * 256)))
    out.append(("v2_identity_cmd", E.mk_cfg(stype="PULL"), E.greeting_v2(8) + E.frame([1], cmd=True)))
    out.append(("v2_cmd_in_data", E.mk_cfg(stype="PULL"), E.greeting_v2(8) + E.frame([]) + E.ping()))
    out.append(("rev0", E.mk_cfg(stype="PULL"), E.signature() + [0] + [0] * 60))
    out.append(("rev2", E.mk_cfg(stype="PULL"), E.signature() + [2] + [0] * 60))
    out.append(("rev9", E.mk_cfg(stype="PULL"), E.greeting("NULL", 1, major=9)))
    out.append(("bad_sig_last", E.mk_cfg(stype="PULL"), E.greeting("NULL", 1, last_sig=0)))
    out.append(("as_server_2", E.mk_cfg(stype="PULL"), E.greeting("NULL", 2)))
    out.append(("dirty_pad", E.mk_cfg(stype="PULL"), E.greeting("NULL", 1, pad=[0] * 30 + [1])))
    out.append(("ping_short", E.mk_cfg(stype="PULL"), g + E.ready("PUSH") + E.frame([4] + E.asc("PING") + [0], cmd=True) + E.frame([5])))
    out.append(("ping_ctx", E.mk_cfg(stype="PULL"), g + E.ready("PUSH") + E.ping(3, [1, 2, 3, 4, 5, 6, 7, 8, 9, 10, 11, 12, 13, 14, 15, 16, 17, 18]) + E.frame([5])))
    out.append(("error_cmd", E.mk_cfg(stype="PULL"), g + E.ready("PUSH") + E.error_cmd([1, 2]) + E.frame([5])))
    out.append(("cmd_more", E.mk_cfg(stype="PULL"), g + E.ready("PUSH") + E.frame([4] + E.asc("PING") + [0, 0], cmd=True, more=True) + E.frame([5])))
    return out


def gen_cases(rng, n):
    cases = []
    for (name, cfg, data) in special_transcripts(rng):
        for cuts in ([], [rng.randrange(1, len(data))], [64, 3]):
            cfg2 = dict(cfg)
            c = c04.make_case(cfg2, data, cuts, 0, 0, [], "special:" + name)
            cases.append(c)
    while len(cases) < n:
        cfg, hs, msgs, kind = c04.honest_transcript(rng)
        cfg["maxsz"] = rng.choice([-1, -1, 0, 5, 100, 256, 1000])
        data = hs + c04.msgs_bytes(msgs)
        r = rng.random()
        if r < 0.7:
            data = mutate(rng, data)
            kind = "mut:" + kind
        elif r < 0.8:
            data = [rng.randrange(256) for _ in range(rng.randrange(1, 120))]
            kind = "random"
        else:
            kind = "honest+maxsz:" + kind
        total = len(data)
        cuts = []
        if total > 1 and rng.random() < 0.6:
            left = total
            for _ in range(rng.randrange(1, 6)):
                k = rng.randrange(0, min(left, 70) + 1)
                cuts.append(k)
                left -= k
        cases.append(c04.make_case(cfg, data, cuts, 0, 0, [], kind))
    return cases


def limit_cases(rng):
    """frames of exactly MAXMSGSIZE (accepted) and MAXMSGSIZE+1 (rejected), both header forms"""
    cases = []
    for m in [64, 100, 254, 255, 256, 300, 65535, 65536]:  # >= READY command size: MAXMSGSIZE also limits handshake frames
        for extra in (0, 1):
            cfg = E.mk_cfg(stype="PULL", maxsz=m)
            n = m + extra
            inputs = [{"start": 1}, {"net": [E.raw(E.greeting("NULL", 1) + E.ready("PUSH")), {"frame": {"more": False, "cmd": False, "len": n, "seed": 7}}], "t": 0}]
            cases.append({"cfg": cfg, "inputs": inputs, "kind": "limit", "limit": m, "size": n, "cuts": [], "msgs": [], "hs_len": 0, "group": 0})
    return cases


def bound(cfg):
    m = cfg.get("maxsz", -1)
    return None if m < 0 else max(64, 9 + m)


def oracle(c, o):
    if o.get("panicked") or any(r == [9] for r in o["rows"]):
        return "engine panicked on peer input (%s)" % c["kind"]
    b = bound(c["cfg"])
    rows = o["rows"]
    final = rows[-1]
    if b is not None and final[1] != 5 and o["max_buf"] > b + max(len(i["net"][0].get("bytes", [])) if "net" in i else 0 for i in c["inputs"]):
        return "accumulator held %d bytes with MAXMSGSIZE=%d" % (o["max_buf"], c["cfg"]["maxsz"])
    if b is not None and final[1] != 5 and final[2] >= b:
        return "undecoded leftover of %d bytes exceeds 9+MAXMSGSIZE (=%d)" % (final[2], b)
    if c["kind"] == "limit":
        msgs, other = E.deliveries(rows)
        if c["size"] <= c["limit"] and (len(msgs) != 1 or any(r[0] == 8 for r in other)):
            return "a frame of exactly MAXMSGSIZE=%d bytes was not accepted" % c["limit"]
        if c["size"] > c["limit"] and (msgs or not any(r[0] == 8 for r in other)):
            return "a frame of MAXMSGSIZE+1 bytes was not rejected (limit %d)" % c["limit"]
    # after a PeerError nothing else may be delivered
    seen_err = False
    for r in rows:
        if r[0] == 8:
            seen_err = True
        elif seen_err and r[0] in (5, 6):
            return "engine delivered after reporting PeerError"
    return None


def signature(c, o, msg):
    return None


# ---------------------------------------------------------------- handshake deadline (stack level)
HS_IVL = 300


def hs_cases():
    g = E.greeting("NULL", 0)
    out = []
    for be in ("tokio", "uring"):
        o = {"HANDSHAKE_IVL": HS_IVL}
        if be == "uring":
            o["IO_URING_SESSION_ENABLED"] = 1
        base = {"k": "rawpeer", "stype": "PULL", "opts": o, "expect_msgs": 0, "recv_timeout_ms": 100, "backend": be}
        out.append(dict(base, name="silent", writes=[], gap_ms=0, hold_ms=1500))
        out.append(dict(base, name="five_bytes_then_silence", writes=[[E.raw([b])] for b in g[:5]], gap_ms=0, hold_ms=1500))
        # one byte every 200 ms: each read arrives inside a per-read timeout of 300 ms
        out.append(dict(base, name="drip", writes=[[E.raw([b])] for b in g[:12]], gap_ms=200, hold_ms=300))
    return out


def hs_strip(c):
    return {k: c[k] for k in ("k", "stype", "opts", "writes", "gap_ms", "expect_msgs", "recv_timeout_ms", "hold_ms")}


def hs_oracle(c, o):
    rows = o["rows"]
    if rows and rows[0][0] in (95, 96, 97):
        return "scenario crashed or hung (code %d)" % rows[0][0]
    if not o.get("closed_by_socket"):
        return ("peer '%s' did not complete the handshake within HANDSHAKE_IVL=%d ms and was NOT disconnected (backend %s)"
                % (c["name"], HS_IVL, c["backend"]))
    if o["eof_ms"] > HS_IVL + 900:
        return "peer '%s' was disconnected only after %d ms (HANDSHAKE_IVL=%d, backend %s)" % (c["name"], o["eof_ms"], HS_IVL, c["backend"])
    return None


def hs_signature(c, o, msg):
    return "C07:%s:no-handshake-deadline" % c["backend"]


def main(argv):
    tier, seed = C.tier_and_seed(argv)
    res = C.Result(PROP, tier, seed)
    res.rule = ("hostile transcripts (hand-written: >255 MORE frames, invalid UTF-8 / truncated / oversized READY metadata, bad PLAIN tokens, "
                "v2 identity abuse, bad greetings) plus mutations of honest transcripts (bit flips, truncation, duplication, insertion, "
                "length extremes, deletion) and random bytes, x segmentation x MAXMSGSIZE in {-1,0,small,large}, plus exact-limit frames; "
                "non-trivial = the engine emitted at least one action row; distinct by case JSON")
    C.proof_stage(res, PROP, ["theories/Corr/EngCorr.vo"])
    from . import optlib
    optlib.options_stage(res, PROP, [22, 41], n_quick=100, theorems_note='C07_maxmsgsize_option_semantics, C07_handshake_ivl_option_semantics')
    rng = random.Random(seed)
    cases = C.load_corpus(PROP, "eng") + gen_cases(rng, 450 if tier == "quick" else 5000) + limit_cases(rng)
    for c in cases:
        res.count("kind:" + c["kind"].split(":")[0])
        res.count("maxsz:%s" % c["cfg"].get("maxsz"))
    obs = C.differential(res, PROP, "eng", cases, E.case_coq, E.REQ, "eng_mismatches",
                         "(fun '(c, o, i) => eng_model c o i)", oracle,
                         nontrivial=lambda c, o: any(r[0] not in (90, 99) for r in o["rows"]),
                         theorems_note=THEOREMS, strip=c04.strip, signature=signature)
    if obs:
        for o in obs:
            res.count("final_phase:%d" % o["rows"][-1][1])
            for r in o["rows"]:
                if r[0] == 8:
                    res.count("err_class:%d" % r[1])
    hcs = hs_cases()
    hobs, hlog = C.run_harness("stack", [hs_strip(c) for c in hcs], PROP, tag="hs")
    if hobs is None:
        res.obligation(False, "handshake-deadline scenarios could not run: " + str(hlog)[-500:])
    else:
        res.evaluations += len(hcs)
        for c, o in zip(hcs, hobs):
            res.count("hs:%s:%s:%s" % (c["backend"], c["name"], "closed@%dms" % o["eof_ms"] if o.get("closed_by_socket") else "alive"))
            msg = hs_oracle(c, o)
            if msg:
                sig = hs_signature(c, o, msg)
                if not any(k.get("signature") == sig for k in res.known):
                    again = C.confirm_failure(res, PROP, "stack", hs_strip(c), c, hs_oracle)
                    if again is None:
                        continue
                    if again[1] is not None:
                        msg, o = again
                res.violation({"property": PROP, "kind": "implementation violates property oracle (stack level)", "what": msg,
                               "case": c, "impl_obs": o, "harness": "stack", "signature": sig}, found_input=True, signature=sig)
    return res.finish(assumptions=["handshake deadline: decision model Model/HsTimer.v tied by three raw-peer pacing scenarios per backend (timer law of tokio trusted); isolation of the owning socket is C17's subject"])
