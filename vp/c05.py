"""C05 - handshakes converge, agree, and give one verdict on compatibility."""
import random
from . import common as C
from . import englib as E

PROP = "C05"
REQ = "From RZ Require Import Base.Prelude Model.Codec Model.Engine Model.Pair Corr.C03Corr Corr.EngCorr Corr.C05Corr."
THEOREMS = "C05_schedule_independent, C05_progress, C05_converge_grid, C05_one_verdict"
RZ_TYPES = ["PUB", "SUB", "REQ", "REP", "DEALER", "ROUTER", "PULL", "PUSH"]
# RFC 28 / libzmq pairing table restricted to the 8 socket types rzmq implements
VALID = {("PUB", "SUB"), ("SUB", "PUB"), ("REQ", "REP"), ("REP", "REQ"), ("REQ", "ROUTER"), ("ROUTER", "REQ"),
         ("DEALER", "REP"), ("REP", "DEALER"), ("DEALER", "ROUTER"), ("ROUTER", "DEALER"), ("DEALER", "DEALER"),
         ("ROUTER", "ROUTER"), ("PUSH", "PULL"), ("PULL", "PUSH")}


# ZMTP pairing table over the 11 wire socket-type names (RFC 28 + XPUB/XSUB/PAIR)
VALID11 = set(VALID) | {("PUB", "XSUB"), ("XSUB", "PUB"), ("XPUB", "SUB"), ("SUB", "XPUB"), ("XPUB", "XSUB"), ("XSUB", "XPUB"),
                        ("PAIR", "PAIR")}


def gen_pair(rng):
    ta, tb = rng.choice(E.STYPES), rng.choice(E.STYPES)
    if rng.random() < 0.6:
        ta, tb = rng.choice(sorted(VALID11))
    mc = rng.choice([0, 0, 1, 1, 2, 3, 4])
    rida = [rng.randrange(1, 256) for _ in range(rng.choice([0, 0, 1, 255]))] or None
    ridb = [rng.randrange(1, 256) for _ in range(rng.choice([0, 0, 1, 255]))] or None
    a = E.mk_cfg(server=False, stype=ta, rid=rida, plain=mc in (1, 2, 4), user="u" if mc in (1, 2, 4) else None,
                 pw=("q" if mc == 2 else "p") if mc in (1, 2, 4) else None, allow_v2=rng.random() < 0.8)
    b = E.mk_cfg(server=True, stype=tb, rid=ridb, plain=mc in (1, 2, 3), user="u" if mc in (1, 2, 3) else None,
                 pw="p" if mc in (1, 2, 3) else None, allow_v2=rng.random() < 0.8)
    r = rng.random()
    if r < 0.2:
        sched = []
    elif r < 0.4:
        sched = [[rng.randrange(2), 1] for _ in range(rng.randrange(20, 200))]     # byte at a time
    elif r < 0.55:
        sched = [[0, 10 ** 6]] * 6                                               # one side entirely first
    elif r < 0.7:
        sched = [[1, 10 ** 6]] * 6
    else:
        sched = [[rng.randrange(2), rng.choice([1, 2, 9, 10, 11, 12, 53, 54, 63, 64, 65, 100])] for _ in range(rng.randrange(3, 40))]
    return {"a": a, "b": b, "sched": sched, "mc": mc, "ta": ta, "tb": tb}


def pair_coq(c):
    return "(%s, %s, [%s])" % (E.cfg_coq(c["a"]), E.cfg_coq(c["b"]), "; ".join("(%d, %d)" % (d, k) for d, k in c["sched"]))


def side(rows, tag):
    i = next(k for k, r in enumerate(rows) if r[0] == tag)
    n = rows[i][1] + rows[i][2]
    return rows[i + 1:i + 1 + n]


def pair_oracle(c, o):
    rows = o["rows"]
    fin = rows[-1]
    if fin[5] or fin[6]:
        return "channels not drained after the eager tail"
    ra, rb = side(rows, 70), side(rows, 71)
    ha = [r for r in ra if r[0] == 5]
    hb = [r for r in rb if r[0] == 5]
    ea = [r for r in ra if r[0] == 8]
    eb = [r for r in rb if r[0] == 8]
    if any(r[0] == 9 for r in ra + rb):
        return "engine panicked during the handshake"
    if c["mc"] < 2 and (c["ta"], c["tb"]) in VALID11:
        if fin[1] != 4 or fin[2] != 4 or len(ha) != 1 or len(hb) != 1 or ea or eb:
            return ("compatible endpoints (%s<->%s, mech case %d) did not both complete the handshake under this delivery schedule "
                    "(phases %d/%d)" % (c["ta"], c["tb"], c["mc"], fin[1], fin[2]))
        from .c03 import digest_py
        # each side reports the other's socket type and identity
        want_a = [5, 1 if c["b"].get("rid") else 0] + digest_py(c["b"].get("rid") or []) + [1, 0] + digest_py(E.asc(c["tb"]))
        want_b = [5, 1 if c["a"].get("rid") else 0] + digest_py(c["a"].get("rid") or []) + [1, 0] + digest_py(E.asc(c["ta"]))
        if ha[0] != want_a or hb[0] != want_b:
            return "endpoints disagree on each other's socket type / identity after the handshake"
    else:
        if ha or hb or fin[1] == 4 or fin[2] == 4:
            return "incompatible settings (%s<->%s, mech case %d) but a side completed the handshake" % (c["ta"], c["tb"], c["mc"])
        if not (ea or eb):
            return "incompatible settings (%s<->%s, mech case %d) and neither side failed" % (c["ta"], c["tb"], c["mc"])
    return None


def pair_group_oracle(cases, obs):
    """same configuration pair under different schedules => same outcome rows"""
    fails = []
    seen = {}
    for i, (c, o) in enumerate(zip(cases, obs)):
        key = (repr(c["a"]), repr(c["b"]))
        if key in seen and obs[seen[key]]["rows"] != o["rows"]:
            fails.append((i, "outcome of the handshake depends on the delivery schedule"))
        seen.setdefault(key, i)
    return fails


def type_cases(tier, rng):
    pairs = [(a, b) for a in RZ_TYPES for b in RZ_TYPES]
    if tier == "quick":
        keep = sorted(VALID) + [("PUB", "PULL"), ("PUSH", "SUB"), ("REQ", "DEALER"), ("PUB", "PUB"), ("PULL", "PULL"), ("REQ", "REQ")]
        rest = [p for p in pairs if p not in keep]
        rng.shuffle(rest)
        pairs = keep + rest[:10]
    out = []
    for (a, b) in pairs:
        for tr in ("tcp", "inproc"):
            out.append({"k": "typepair", "connector": a, "binder": b, "transport": tr})
    return out


def type_coq(c):
    return "(%d, %s, %s)" % ({"tcp": 0, "ipc": 1, "inproc": 2}[c["transport"]], C.cNlist(E.asc(c["connector"])),
                             C.cNlist(E.asc(c["binder"])))


def type_oracle(c, o):
    v = o["rows"][0][0]
    want = 1 if (c["connector"], c["binder"]) in VALID else 0
    if v == 2 and want == 0 and 'events: ["Connected"]' in (o.get("detail") or ""):
        return "RACE"
    if v not in (0, 1):
        return "no verdict for %s -> %s over %s within the deadline (%s)" % (c["connector"], c["binder"], c["transport"], o.get("detail"))
    if v != want:
        return ("socket pair %s -> %s over %s was %s, but it is %s ZeroMQ pairing" %
                (c["connector"], c["binder"], c["transport"], "accepted" if v else "refused", "a valid" if want else "not a valid"))
    return None


def main(argv):
    tier, seed = C.tier_and_seed(argv)
    res = C.Result(PROP, tier, seed)
    res.rule = ("pairs of real engines (connector/listener; 11 wire socket-type names; NULL / PLAIN ok / PLAIN wrong password / mechanism "
                "mismatch either way; routing ids none, 1 byte, 255 bytes; ALLOW_ZMTP2 either way) driven by delivery schedules "
                "(lock-step, one byte at a time, one side entirely first, random fragment sizes around the greeting stages), each followed by "
                "an eager drain; plus real socket pairs of all 8x8 types over tcp and inproc (quick: the 14 valid pairs + a rotating "
                "sample of invalid ones); non-trivial = a HandshakeComplete or PeerError was produced; distinct by case JSON")
    C.proof_stage(res, PROP, ["theories/Corr/C05Corr.vo"])
    rng = random.Random(seed)
    n = 250 if tier == "quick" else 3000
    cases = []
    while len(cases) < n:
        c = gen_pair(rng)
        cases.append(c)
        # the same pair under two more schedules
        for _ in range(2):
            c2 = dict(gen_pair(rng), a=c["a"], b=c["b"], mc=c["mc"], ta=c["ta"], tb=c["tb"])
            cases.append(c2)
    for c in cases:
        res.count("mech_case:%d" % c["mc"])
        res.count("sched_len:%s" % min(len(c["sched"]) // 10 * 10, 100))
    C.differential(res, PROP, "pair", cases, pair_coq, REQ, "pair_mismatches",
                   "(fun '(a, b, s) => pair_model a b s)", pair_oracle, group_oracle=pair_group_oracle,
                   nontrivial=lambda c, o: any(r[0] in (5, 8) for r in o["rows"]), theorems_note=THEOREMS,
                   strip=lambda c: {"a": c["a"], "b": c["b"], "sched": c["sched"]})
    # foreign peers (a ZMTP/2.0 or ZMTP/3 endpoint that is not rzmq): honest transcripts - greeting, READY / identity frame with
    # routing ids up to 255 bytes, data right behind - delivered all at once, cut around the end of the handshake, byte by
    # byte and in random fragments to ONE real engine; a compatible peer must complete under every fragmentation and
    # every fragmentation must report the same peer (added after the seeded change C05-greeting-fast-path-assumes-v3)
    from . import c04
    fcs = c04.gen_cases(random.Random(seed * 31 + 5), 150 if tier == "quick" else 2500)

    def foreign_oracle(c, o):
        if o.get("panicked"):
            return "engine panicked on an honest peer transcript"
        _, other = E.deliveries(o["rows"])
        if not any(r[0] == 5 for r in other):
            return ("a compatible %s peer did not complete the handshake under fragmentation %s (handshake is %d bytes)"
                    % (c["kind"], c["cuts"][:6], c["hs_len"]))
        if any(r[0] in (8, 9) for r in other):
            return "a compatible %s peer was refused under fragmentation %s" % (c["kind"], c["cuts"][:6])
        return None

    def foreign_group(cases_, obs_):
        fails, first = [], {}
        for i, (c, o) in enumerate(zip(cases_, obs_)):
            hs = [r for r in o["rows"] if r and r[0] == 5]
            if c["group"] in first and first[c["group"]] != hs:
                fails.append((i, "the handshake result for the same peer bytes depends on the fragmentation"))
            first.setdefault(c["group"], hs)
        return fails

    for c in fcs:
        res.count("foreign:%s" % c["kind"])
    C.differential(res, PROP, "eng", fcs, E.case_coq, E.REQ, "eng_mismatches", "(fun '(c, o, i) => eng_model c o i)",
                   foreign_oracle, group_oracle=foreign_group, nontrivial=lambda c, o: True, strip=c04.strip, tag="foreign",
                   theorems_note="C05_converge (engine as a prefix-monotone stream function), C04_engine chunk independence")
    tcs = type_cases(tier, rng)
    # kind-E tie: pairing tables regenerated from the Rust sources must equal the model's; when they do not, the
    # pairs on which they differ are searched for a failing input on real sockets
    tok, info = C.table_stage(res)
    table_broken = not tok
    if table_broken and info:
        code2name = {i: n for i, n in enumerate(E.STYPES)}
        v2pairs = {(a, code2name.get(c, "?")) for a, c in info["v2"]}
        ipairs = set(info["inproc"])
        changed = {p for p in (v2pairs ^ VALID11) if p[0] in RZ_TYPES and p[1] in RZ_TYPES}
        changed |= {p for p in (ipairs ^ (VALID - {("DEALER", "DEALER")}))}
        for (a, b) in sorted(changed):
            for tr in ("tcp", "inproc"):
                tcs.insert(0, {"k": "typepair", "connector": a, "binder": b, "transport": tr})
        res.notes.append("pairing table in the sources differs from the model on %s" % sorted(changed))
    nviol_before = len(res.violations)
    for c in tcs:
        res.count("typepair:%s" % c["transport"])
    C.differential(res, PROP, "stack", tcs, type_coq, REQ, "typepair_mismatches",
                   "(fun '(t, a, b) => typepair_model t a b)", type_oracle, nontrivial=lambda c, o: True,
                   theorems_note="C05_one_verdict", tag="types",
                   signature=lambda c, o, m: ("C05:connector-not-notified-after-refusal" if m == "RACE" else
                                              "C05:verdict:%s:%s->%s" % (c["transport"], c["connector"], c["binder"])))
    if table_broken and len(res.violations) == nviol_before:
        res.violation({"property": PROP, "broken": "Proofs/TablesCheck.v: the socket-type pairing tables or protocol constants extracted "
                       "from /repo/core/src no longer equal the model's (x_v2_table_ok / x_inproc_table_ok / x_limits_ok)",
                       "theorems_relying_on_tie": "C05_v3_verdict_is_v2_verdict, C05_one_verdict_outside, C05_converge_grid",
                       "log": res.extra.get("tables_check_log", "")}, found_input=False)
    return res.finish(assumptions=["two rzmq endpoints always negotiate ZMTP/3 (ZMTP/2 verdicts concern foreign peers; table checked in Coq)",
                                   "EOF propagation when one engine closes is the transport's job (actor level)"])
