#!/bin/bash
# usage: vp/try_seeded.sh <patch.diff | seeded/<id>> <Cxx> [tier]
# Applies a seeded change to /repo, runs the check with its evidence redirected to a scratch directory (so that
# the committed evidence files keep describing the UNCHANGED tree), and reverts /repo straight afterwards.
P=$1; C=$2; T=${3:-quick}
[ -d "$P" ] && P="$P/patch.diff"
P=$(readlink -f "$P")
cd "$(dirname "$0")/.." || exit 2
REPO=${VERIF_REPO:-/repo}
if [ -n "$(git -C $REPO status --porcelain --untracked-files=no)" ]; then echo "$REPO has uncommitted changes"; exit 2; fi
git -C $REPO apply "$P" || { echo "patch does not apply"; exit 2; }
mkdir -p /var/tmp/seeded_evidence
VERIF_EVIDENCE_DIR=/var/tmp/seeded_evidence ./check $C $T 2>&1 | grep -v '^KNOWN-FINDING' | cut -c1-300 | tail -6
git -C $REPO checkout -- .
git -C $REPO status --short | head -3
