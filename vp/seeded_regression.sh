#!/bin/bash
# Applies every stored seeded change to /repo in turn, runs the quick check of its property (evidence redirected) and
# reports whether it is still caught. /repo must be clean; it is reverted after every run.
cd "$(dirname "$0")/.." || exit 2
for d in seeded/*/; do
  id=$(basename $d); prop=${id%%-*}
  extra=""
  out=$(vp/try_seeded.sh $d $prop 2>&1)
  if echo "$out" | grep -q "^VIOLATION"; then
    if echo "$out" | grep "^VIOLATION" | grep -vq "no-failing-input-found"; then r="caught (failing input)"; else r="caught (no failing input)"; fi
  elif echo "$out" | grep -q "patch does not apply"; then r="PATCH DOES NOT APPLY"
  else r="MISSED"; fi
  echo "$id: $r"
done
