"""C16 - close() and term() always finish and leave nothing running or hanging. See DESIGN.md section 6 (C16)."""
import json
import random
from . import common as C

PROP = "C16"
REQ = "From RZ Require Import Base.Prelude Model.WgWait Model.Lifecycle Corr.C16Corr."
THEOREMS = ("C16_wg_counts_guarded, C16_wg_counts_live(_refuted), C16_wg_wait_returns, C16_wg_wait_proceeds, C16_table_complete, "
            "C16_closed_ops_fail_fast, C16_closed_ops_delegated_outside/_refuted, C16_blocked_ops_released_outside/_refuted, "
            "C16_close_reaches_finished, C16_phase_monotone, C16_finished_stays")

TYPES = ["PUB", "SUB", "REQ", "REP", "DEALER", "ROUTER", "PUSH", "PULL"]
TCODE = {t: i for i, t in enumerate(TYPES)}
DELEGATED = (1, 2, 5, 6, 7, 8, 16, 17, 19)       # close() is the mailbox command UserClose
OPNAME = {1: "bind", 2: "connect", 3: "send", 4: "recv", 5: "set_option", 6: "get_option", 7: "monitor", 8: "close", 9: "drop",
          10: "sleep", 11: "term", 12: "wait", 13: "signal", 14: "send_multipart", 15: "recv_multipart", 16: "disconnect",
          17: "unbind", 18: "raw-listen"}

SIG_MAILBOX = "C16:delegated-command-never-answered"
SIG_WINDOW = "C16:delegated-command-between-drain-and-mailbox-close"
SIG_REQ = "C16:req-send-without-peer-never-woken"
SIG_SPAWN = "C16:term-returns-before-spawned-actor-started"
SIG_HANDSHAKE = "C16:session-in-handshake-ignores-stop"
SIG_LEAK = "C16:connection-set-up-during-shutdown-leaks-session"
SIG_CHURN = "C16:blocked-recv-not-woken-after-peer-churn"

PROMPT_NOTE = ("'promptly' is taken as 500 ms (the property text says 100 ms): the check machine runs many builds in parallel and a "
               "100 ms bound produced scheduler-noise alarms; hangs are classified at 2.5 s after the socket was closed")


# ---------------------------------------------------------------- (A) guard scripts

def gen_guard(rng, n):
    cases = []
    fixed = [
        [[0, 0], [1, 0], [3, 0]],                                    # waived exit
        [[0, 0], [2, 0], [3, 0]],                                    # error exit
        [[0, 0], [3, 0]],                                            # dropped without waive (cancelled)
        [[4, 0], [8], [6, 0]],                                       # task: start, normal exit
        [[4, 0], [5, 0]],                                            # task aborted before its first poll: never counted
        [[4, 0], [8], [5, 0]],                                       # task aborted while running
        [[4, 0], [8], [9, 0]],                                       # task panics
        [[4, 0], [4, 1], [4, 2], [8], [7, 1], [5, 2], [6, 0]],
        [[4, 0]],                                                    # spawned, never polled: count 0 with a live task
        [[0, 0], [4, 1], [0, 2], [8], [3, 0], [3, 2], [5, 1]],
    ]
    for ops in fixed:
        cases.append({"k": "guard", "ops": ops, "threads": 1})
    while len(cases) < n:
        ops = []
        kinds = {}          # id -> 'g' | 't'
        alive = set()
        nid = 0
        for _ in range(rng.randrange(2, 14)):
            r = rng.random()
            if r < 0.2:
                ops.append([0, nid]); kinds[nid] = 'g'; alive.add(nid); nid += 1
            elif r < 0.45:
                ops.append([4, nid]); kinds[nid] = 't'; alive.add(nid); nid += 1
            elif r < 0.55:
                ops.append([8])
            else:
                if not alive:
                    continue
                i = rng.choice(sorted(alive))
                if kinds[i] == 'g':
                    o = rng.choice([1, 2, 3, 3])
                    ops.append([o, i])
                    if o == 3:
                        alive.discard(i)
                else:
                    o = rng.choice([5, 6, 7, 9])
                    ops.append([o, i])
                    alive.discard(i)
        cases.append({"k": "guard", "ops": ops, "threads": 1})
    return cases


# ---------------------------------------------------------------- (D) histories

def reaper(nsock, at_ms=900):
    """every history ends with all sockets closed so that blocked operations are released"""
    return [[10, at_ms]] + [[8, s] for s in range(nsock)]


def mk(name, types, eps, tasks, opts=None, threads=2, **kw):
    d = {"k": "hist", "name": name, "types": types, "eps": eps, "tasks": tasks + [reaper(len(types), kw.pop("reap_ms", 900))],
         "opts": opts or [{"LINGER": 0} for _ in types], "threads": threads, "signals": 4}
    d.update(kw)
    return d


PAIRS = [("PULL", "PUSH"), ("REP", "REQ"), ("ROUTER", "DEALER"), ("PUB", "SUB")]


def pair_scripts(tb, tc):
    """(binder task, connector task, side task) for socket 0 = binder, 1 = connector, endpoint 0"""
    if (tb, tc) == ("PULL", "PUSH"):
        return ([[1, 0, 0], [4, 0], [4, 0], [6, 0]], [[2, 1, 0], [3, 1, 64, 1], [3, 1, 5000, 1], [5, 1], [3, 1, 64, 1]],
                [[7, 1], [6, 1], [6, 0]])
    if (tb, tc) == ("REP", "REQ"):
        return ([[1, 0, 0], [4, 0], [3, 0, 32, 1], [4, 0], [3, 0, 32, 1]], [[2, 1, 0], [3, 1, 64, 1], [4, 1], [3, 1, 64, 1], [4, 1]],
                [[6, 0], [5, 1], [6, 1]])
    if (tb, tc) == ("ROUTER", "DEALER"):
        return ([[1, 0, 0], [15, 0], [15, 0], [6, 0]], [[2, 1, 0], [3, 1, 64, 1], [14, 1, 200], [6, 1], [4, 1]],
                [[7, 0], [5, 0], [6, 1]])
    return ([[1, 0, 0], [10, 60], [3, 0, 64, 1], [14, 0, 64], [6, 0]], [[2, 1, 0], [4, 1], [15, 1], [6, 1]],
            [[5, 0], [7, 1], [6, 1]])


def gen_hist(rng, tier):
    cases = []
    # F1: every operation on a closed socket, for every type, closed by close() or by term()
    for t in TYPES:
        for closer in ([8, 0], [11]):
            for tr in (["tcp"] if tier == "quick" else ["tcp", "ipc", "inproc"]):
                ops = [[3, 0, 100, 1], [14, 0, 100], [4, 0], [15, 0], [5, 0], [6, 0], [7, 0], [1, 0, 1], [2, 0, 1], [16, 0, 1], [17, 0, 0], [8, 0]]
                cases.append(mk("post-%s-%s-%s" % (t, OPNAME[closer[0]], tr), [t], [tr, tr], [[[1, 0, 0], closer] + ops]))
        # ... and with a live connection (sessions / pipes exist)
        peer = {"PUB": "SUB", "SUB": "PUB", "REQ": "REP", "REP": "REQ", "DEALER": "ROUTER", "ROUTER": "DEALER", "PUSH": "PULL", "PULL": "PUSH"}[t]
        tr = rng.choice(["tcp", "ipc", "inproc"])
        cases.append(mk("postconn-%s-%s" % (t, tr), [t, peer], [tr, "tcp"],
                        [[[1, 0, 0], [13, 0], [10, 120], [8, 0], [3, 0, 100, 1], [4, 0], [6, 0], [5, 0], [1, 0, 1], [7, 0]],
                         [[12, 0], [2, 1, 0]]]))
    # F2: mailbox commands from other tasks while close()/term() runs (the recorded finding replays on DEALER, 1 thread)
    for t in (["DEALER", "PUSH", "PULL", "ROUTER"] if tier == "quick" else TYPES):
        for closer in ([8, 0], [11]):
            for thr in (1, 2):
                cases.append(mk("conc-%s-%s-%d" % (t, OPNAME[closer[0]], thr), [t], ["tcp"],
                                [[[1, 0, 0], [13, 0], closer], [[12, 0]] + [[6, 0]] * 12, [[12, 0]] + [[5, 0]] * 12,
                                 [[12, 0], [6, 0], [7, 0], [6, 0]]], threads=thr))
    # F2b: the DEALER's background queue processor is parked in a blocking send to a full inproc peer (messages queued
    # before the first peer, ROUTER with RCVHWM 1 that never reads, extra connects wake the processor) when close()/term() comes
    for closer in ([8, 0], [11]):
        for thr in (1, 2):
            cases.append(mk("dealer-proc-blocked-%s-%d" % (OPNAME[closer[0]], thr), ["DEALER", "ROUTER"], ["inproc", "tcp"],
                            [[[1, 1, 0], [3, 0, 64, 12], [2, 0, 0], [10, 100]] + [[2, 0, 1], [10, 50]] * 10 + [[10, 200], closer,
                              [3, 0, 64, 1], [6, 0]]],
                            opts=[{"LINGER": 200, "SNDTIMEO": -1}, {"LINGER": 0, "RCVHWM": 1}], threads=thr, reap_ms=4500))
    # F2d: a socket lingering on an undelivered backlog (LINGER -1, peer connected but never reading) whose peer then goes
    # away: the dead session's pipe must not keep the linger alive - term() has to finish promptly
    # (added after the seeded change C16-late-actor-stopping-ignored-while-lingering)
    for thr in (2,) if tier == "quick" else (1, 2, 4):
        cases.append(mk("linger-peer-dies-%d" % thr, ["PUSH", "PULL"], ["tcp", "tcp"],
                        [[[1, 1, 0], [2, 0, 0], [10, 150], [3, 0, 262144, 20], [8, 0], [10, 150], [8, 1], [10, 100], [11], [6, 0]]],
                        opts=[{"LINGER": -1, "SNDHWM": 4, "SNDTIMEO": 100}, {"LINGER": 0, "RCVHWM": 1}], threads=thr, reap_ms=9000))
    # F2c: a monitor whose one-event channel is full and whose receiver is alive but never read, endpoints still registered
    for t in ("PULL", "DEALER", "PUB"):
        for closer in ([8, 0], [11]):
            cases.append(mk("full-monitor-%s-%s" % (t, OPNAME[closer[0]]), [t], ["tcp", "inproc"],
                            [[[19, 0], [1, 0, 0], [1, 0, 1], [10, 100], closer, [6, 0]]], opts=[{"LINGER": 100}]))
    # F3: blocked recv
    for (tb, tc) in [("PULL", "PUSH"), ("SUB", "PUB"), ("REP", "REQ"), ("DEALER", "DEALER"), ("ROUTER", "DEALER")]:
        for closer in ([8, 0], [11]):
            for conn in (0, 1):
                for tr in (["tcp", "inproc"] if tier == "quick" else ["tcp", "ipc", "inproc"]):
                    for op in ([4] if tier == "quick" else [4, 15]):
                        opts = [{"LINGER": rng.choice([0, 0, 50])}, {"LINGER": 0}]
                        if tb == "SUB":
                            opts[0]["SUBSCRIBE"] = []
                        cases.append(mk("brecv-%s-%s-%d-%s-%d" % (tb, OPNAME[closer[0]], conn, tr, op), [tb, tc], [tr],
                                        [[[1, 0, 0], [13, 0], [10, 80], [op, 0]],
                                         [[12, 0]] + ([[2, 1, 0]] if conn else []) + [[10, 220], closer]], opts=opts))
    # REQ waiting for its reply
    for closer in ([8, 1], [11]):
        cases.append(mk("breq-reply-%s" % OPNAME[closer[0]], ["REP", "REQ"], ["tcp"],
                        [[[1, 0, 0], [13, 0]], [[12, 0], [2, 1, 0], [3, 1, 32, 1], [4, 1]], [[10, 300], closer]]))
    # F4: blocked send - nobody connected
    for t in ["PUSH", "DEALER", "REQ", "ROUTER", "PUB", "REP"]:
        for closer in ([8, 0], [11]):
            cases.append(mk("bsend-nopeer-%s-%s" % (t, OPNAME[closer[0]]), [t], ["tcp"], [[[3, 0, 100, 1]], [[10, 200], closer]]))
    #     - HWM reached: the peer never reads
    for (ts, tp) in [("PUSH", "PULL"), ("DEALER", "ROUTER")]:
        for closer in ([8, 0], [11]):
            for tr in ("tcp", "ipc", "inproc"):
                opts = [{"LINGER": 0, "SNDHWM": 2}, {"LINGER": 0, "RCVHWM": 2}]
                cases.append(mk("bsend-hwm-%s-%s-%s" % (ts, OPNAME[closer[0]], tr), [ts, tp], [tr],
                                [[[12, 0], [2, 0, 0], [10, 100], [3, 0, 65536, 400]], [[1, 1, 0], [13, 0]], [[10, 700], closer]],
                                opts=opts, reap_ms=1300))
    # F5: connect retries (nobody listens), close/term at different moments
    for tr in ("tcp", "ipc"):
        for closer in ([8, 0], [11]):
            for at in ([0, 30, 130] if tier == "quick" else [0, 10, 30, 60, 130, 260]):
                opts = [{"LINGER": 0, "RECONNECT_IVL": 50, "RECONNECT_IVL_MAX": 100}]
                cases.append(mk("retry-%s-%s-%d" % (tr, OPNAME[closer[0]], at), ["PUSH"], [tr],
                                [[[2, 0, 0], [13, 0], [3, 0, 64, 1]], [[12, 0], [10, at], closer]], opts=opts))
    # F6: handshake that never completes (raw peer accepts and stays silent): default options, and HANDSHAKE_IVL 200 ms
    for closer in ([8, 0], [11]):
        for at in ([60] if tier == "quick" else [0, 20, 60, 200]):
            for t in (["DEALER"] if tier == "quick" else ["DEALER", "SUB", "PUSH"]):
                cases.append(mk("handshake-%s-%s-%d" % (t, OPNAME[closer[0]], at), [t], ["tcp"],
                                [[[18, 0, 0], [2, 0, 0], [13, 0], [6, 0]], [[12, 0], [10, at], closer]]))
        for at in (0, 60, 150):
            cases.append(mk("handshakeivl-%s-%d" % (OPNAME[closer[0]], at), ["DEALER"], ["tcp"],
                            [[[18, 0, 0], [2, 0, 0], [13, 0], [6, 0]], [[12, 0], [10, at], closer]],
                            opts=[{"LINGER": 0, "HANDSHAKE_IVL": 200}]))
    #     ... and on the accepting side: a raw client that connects and stays silent
    # the recorded race: term() / close()+term() right after a tcp / ipc connect() returned
    for rep in range(3):
        for tr in ("tcp", "ipc"):
            cases.append(mk("leakrace-%s-%d" % (tr, rep), ["PUB", "SUB"], [tr],
                            [[[1, 0, 0], [13, 0], [10, 60], [3, 0, 64, 1]], [[12, 0], [2, 1, 0], [13, 1], [4, 1]], [[12, 1], [11]]],
                            opts=[{"LINGER": 0}, {"LINGER": 0, "SUBSCRIBE": []}]))
    # the recorded race: a receiver blocked in recv(), a peer that connects, sends and closes at once, then close()
    for rep in range(12 if tier == "quick" else 40):
        for (tb, op) in (("ROUTER", 4), ("DEALER", 4)):
            cases.append(mk("churn-%s-%d" % (tb, rep), [tb, "DEALER"], ["tcp"],
                            [[[1, 0, 0], [13, 0], [op, 0]], [[12, 0], [2, 1, 0], [3, 1, 64, 1], [14, 1, 200], [13, 1]], [[12, 1], [8, 1]]]))
    # F7: pair histories with close()/term() injected at every call boundary
    inj = []
    for (tb, tc) in PAIRS:
        t0, t1, t2 = pair_scripts(tb, tc)
        tasks = [t0, t1, t2]
        for ti, task in enumerate(tasks):
            for j in range(len(task) + 1):
                for what in ("close0", "close1", "term"):
                    inj.append((tb, tc, ti, j, what))
    rng.shuffle(inj)
    take = inj[:70] if tier == "quick" else inj
    for (tb, tc, ti, j, what) in take:
        t0, t1, t2 = pair_scripts(tb, tc)
        tasks = [list(t0), list(t1), list(t2)]
        tasks[ti] = tasks[ti][:j] + [[13, 1]] + tasks[ti][j:]
        closer = {"close0": [8, 0], "close1": [8, 1], "term": [11]}[what]
        tr = rng.choice(["tcp", "ipc", "inproc"])
        opts = [{"LINGER": rng.choice([0, 0, 30])}, {"LINGER": rng.choice([0, 0, 30])}]
        if tc == "SUB":
            opts[1]["SUBSCRIBE"] = []
        # the connector waits until the binder has bound (signal 0)
        b = next(i for i, st in enumerate(tasks[0]) if st[0] == 1)
        tasks[0] = tasks[0][:b + 1] + [[13, 0]] + tasks[0][b + 1:]
        tasks[1] = [[12, 0]] + tasks[1]
        cases.append(mk("inj-%s-%s-t%d-%d-%s-%s" % (tb, tc, ti, j, what, tr), [tb, tc], [tr],
                        tasks + [[[12, 1], closer]], opts=opts, threads=rng.choice([1, 2, 4])))
    return cases


def gen_termfirst():
    return [{"k": "termfirst", "n": n, "threads": 1} for n in (1, 3)]


def linger_of(c, s):
    o = c.get("opts") or []
    return (o[s].get("LINGER", 0) if s < len(o) else 0) or 0


def canon(c, rows):
    if c["k"] != "hist" or not rows or rows[-1][0] != 99 or len(rows[-1]) != 12:
        return rows
    f = rows[-1]
    lmax = max([linger_of(c, s) for s in range(len(c["types"]))] + [0])
    fin = [99, 1 if f[1] <= lmax + 2000 else 0, 1 if f[2] <= lmax + 2500 else 0, f[3], 1 if f[4] == 0 else 0, 1 if f[5] == 0 else 0,
           1 if f[7] == 0 else 0, 1 if f[8] == 0 else 0, 1 if f[9] == 0 else 0, 1 if f[10] == 0 else 0, 1 if f[11] == 0 else 0]
    return [r for r in rows[:-1]] + [fin]


def describe(c, r):
    return "%s on socket %d (%s)" % (OPNAME.get(r[2], r[2]), r[3], c["types"][r[3]] if r[3] < len(c["types"]) else "?")


def connect_in_flight(c, o):
    """a tcp/ipc connect() returned at most 300 ms before (or during) the first close()/term() of the history"""
    tm = {(t[0], t[1]): (t[2], t[3]) for t in o.get("times", [])}
    closes = [tm[(r[0], r[1])][0] for r in o["rows"][:-1] if r[2] in (8, 11) and (r[0], r[1]) in tm]
    if not closes:
        return False
    first = min(closes)
    for r in o["rows"][:-1]:
        if r[2] == 2 and (r[0], r[1]) in tm and not c["eps"][c["tasks"][r[0]][r[1]][2]].startswith("inproc"):
            st, en = tm[(r[0], r[1])]
            if en + 300 >= first and st <= first + 300:
                return True
    return False


def peer_churned_before_close(c, o, s):
    """another socket of the history (the peer: either side of the connection) was closed before socket s was closed"""
    tm = {(t[0], t[1]): (t[2], t[3]) for t in o.get("times", [])}
    my_close = [tm[(r[0], r[1])][0] for r in o["rows"][:-1] if (r[2] == 8 and r[3] == s or r[2] == 11) and (r[0], r[1]) in tm]
    if not my_close:
        return False
    first = min(my_close)
    for r in o["rows"][:-1]:
        if r[2] == 8 and r[3] != s and (r[0], r[1]) in tm and tm[(r[0], r[1])][1] <= first:
            return True
    return False


def problems_of(c, o):
    """[(signature or None, text)] - every way in which this history violates the property text"""
    rows = o["rows"]
    out = []
    silent_peer = any(st[0] == 18 for t in c["tasks"] for st in t) and not any("HANDSHAKE_IVL" in (x or {}) for x in c.get("opts") or [])
    for r in rows[:-1]:
        op, s, resu, rel, late = r[2], r[3], r[4], r[5], r[6]
        if op in (10, 12, 13, 18, 9):
            continue
        if resu == 2:
            when = {0: "issued before close()/term() started", 2: "issued while close()/term() ran", 1: "issued after close()/term() had returned"}[rel]
            sig = None
            if op in DELEGATED:
                # since the drain fix: only a command that lands between the drain's last try_recv and the mailbox close
                # (two adjacent statements, no await in between) can still be left unanswered; that cannot happen on a
                # current-thread runtime, where the old defect replays deterministically (conc-*-1 cases)
                # (a command issued BEFORE the shutdown started cannot be in that window either)
                sig = SIG_MAILBOX if c.get("threads", 2) == 1 else (SIG_WINDOW if rel != 0 else None)
            elif op == 3 and c["types"][s] == "REQ":
                sig = SIG_REQ
            elif op in (4, 15) and rel == 0 and peer_churned_before_close(c, o, s):
                sig = SIG_CHURN
            out.append((sig, "%s still pending 2.5 s after the socket was closed (%s)" % (describe(c, r), when)))
        elif rel == 1 and op not in (8, 11):
            if resu == 0:
                out.append((None, "%s returned Ok on a closed socket" % describe(c, r)))
            elif late:
                out.append((None, "%s on a closed socket took more than 500 ms to fail" % describe(c, r)))
    f = rows[-1]
    lmax = max([linger_of(c, s) for s in range(len(c["types"]))] + [0])
    if f[0] != 99 or len(f) != 12:
        return [(None, "no final row: %s" % rows[-1:])]
    hs = SIG_HANDSHAKE if silent_peer else None
    if hs is None and connect_in_flight(c, o):
        hs = SIG_LEAK
    if f[1] > lmax + 2000:
        out.append((None, "close() took %d ms (LINGER %d)" % (f[1], lmax)))
    if f[2] > lmax + 2500 or not f[3]:
        out.append((hs, "term() took %d ms (returned: %d)" % (f[2], f[3])))
    if f[4]:
        if f[2] < 9000 and not f[5]:
            # term() did not time out, yet an actor is registered right after it returned: a task that was spawned
            # but not yet polled when wait() read the count (same window as the termfirst scenario)
            out.append((SIG_SPAWN, "live-actor count %d right after term() returned Ok in %d ms (0 later): an actor registered after wait() saw zero" % (f[4], f[2])))
        else:
            out.append((hs, "live-actor count %d when term() returned Ok" % f[4]))
    leak = hs if hs == SIG_LEAK else None
    if f[5]:
        out.append((leak, "live-actor count %d 1.5 s after term()" % f[5]))
    if f[7]:
        out.append((leak, "%d tasks of the runtime still alive 1.5 s after term()" % f[7]))
    if f[8] or f[9]:
        out.append((None, "%d sockets / %d inproc names still registered after term()" % (f[8], f[9])))
    if f[10]:
        out.append((None, "%d listening endpoint(s) cannot be bound again: %s" % (f[10], o.get("rebind_detail"))))
    if f[11]:
        out.append((None, "%d panic(s) during the history" % f[11]))
    return out


def make_oracle(res):
    reported = set()

    def oracle(c, o):
        rows = o["rows"]
        if rows and len(rows[0]) == 1 and rows[0][0] in (96, 97, 98):
            return "harness could not run the case: %s" % rows
        if c["k"] == "guard":
            return None        # compared with the model row by row
        if c["k"] == "termfirst":
            r = rows[0]
            if r[2] > 0 or r[3] > 0:
                msg = ("term() returned Ok with the WaitGroup at %d while %d task(s) of the context had not even started "
                       "(%d socket(s) still registered); they ran afterwards" % (r[1], r[2], r[3]))
                res.violation({"property": PROP, "kind": "implementation violates property oracle", "what": msg, "case": c,
                               "impl_obs": o, "harness": "c16", "signature": SIG_SPAWN}, found_input=True, signature=SIG_SPAWN)
            return None
        probs = problems_of(c, o)
        for (sg, t) in probs:
            if sg is None:
                continue
            res.count("finding:" + sg)
            if sg not in reported:
                reported.add(sg)
                res.violation({"property": PROP, "kind": "implementation violates property oracle (real sockets)", "what": t,
                               "case": c, "impl_obs": o, "harness": "c16", "signature": sg}, found_input=True, signature=sg)
        if probs:
            return "; ".join(t for (_, t) in probs[:5])
        return None
    return oracle


def signature(c, o, msg):
    """a case whose problems are ALL recorded findings is absorbed; one unknown problem makes it a violation"""
    if c["k"] != "hist":
        return None
    probs = problems_of(c, o)
    if probs and all(sg is not None for (sg, _) in probs):
        return probs[0][0]
    return None


def to_coq(c):
    if c["k"] == "guard":
        return "(CGuard [%s])" % "; ".join(C.cNlist(o) for o in c["ops"])
    if c["k"] == "termfirst":
        return "(CTermFirst %d)" % c["n"]
    return "(CHist %s)" % C.cNlist([TCODE[t] for t in c["types"]])


def strip(c):
    d = dict(c)
    d.pop("name", None)
    return d


def nontrivial(c, o):
    return len(o["rows"]) >= 1 and len(o["rows"][0]) > 1


def main(argv):
    tier, seed = C.tier_and_seed(argv)
    res = C.Result(PROP, tier, seed)
    res.rule = ("cases = (a) scripts over the real ActorDropGuard + context WaitGroup: guards created directly and inside spawned tasks "
                "(first poll, waive, set_error, normal exit, abort before / after the first poll, panic), live count read after every op, from "
                "random.Random(seed) plus a fixed list; (b) sockets created and term() called before their command loops were polled; "
                "(c) histories on real sockets of one context, several tasks: every op on a closed socket (8 types x close/term), mailbox "
                "commands racing close/term, blocked recv (5 type pairs x connected or not x tcp/ipc/inproc), blocked send (no peer; HWM with a "
                "peer that never reads), connect retries and never-answered handshakes with close/term at several offsets, and 4 socket-pair "
                "scripts with close(binder) / close(connector) / term() injected at every call boundary; after each: op results and latencies, "
                "close/term time, live-actor count, alive tasks of the runtime, registered sockets / inproc names, re-bind of tcp port / ipc "
                "path from a fresh context, panics; non-trivial = every executed case; distinct by case JSON")
    C.proof_stage(res, PROP, ["theories/Corr/C16Corr.vo"])
    rng = random.Random(seed)
    cases = gen_guard(rng, 150 if tier == "quick" else 2000) + gen_termfirst() + gen_hist(rng, tier)
    for c in cases:
        res.count("kind:" + c["k"])
        if c["k"] == "hist":
            res.count("family:" + c["name"].split("-")[0])
    obs = C.differential(res, PROP, "c16", cases, to_coq, REQ, "c16_mismatches", "c16_model", make_oracle(res),
                         nontrivial=nontrivial, signature=signature, theorems_note=THEOREMS, strip=strip, canon=canon,
                         shards=(8 if tier == "quick" else 16))
    if obs:
        # differential() looks at the first 20 failing cases only: make sure no unknown problem hides behind recorded ones
        nrep = 0
        for c, o in zip(cases, obs):
            if c["k"] == "hist" and len(o["rows"][-1]) == 12:
                unknown = [t for (sg, t) in problems_of(c, o) if sg is None]
                if unknown and nrep < 5:
                    nrep += 1
                    res.violation({"property": PROP, "kind": "implementation violates property oracle (real sockets)",
                                   "what": "; ".join(unknown[:5]), "case": c, "impl_obs": o, "harness": "c16"}, found_input=True)
        hangs, stragglers = [], 0
        for c, o in zip(cases, obs):
            if c["k"] != "hist":
                continue
            f = o["rows"][-1]
            if len(f) == 12 and f[6] > 0:
                stragglers += 1
            for r in o["rows"][:-1]:
                if len(r) == 7 and r[4] == 2:
                    hangs.append("%s: %s" % (c["name"], describe(c, r)))
        res.extra["hanging_operations"] = hangs[:60]
        res.extra["histories_with_tasks_alive_when_term_returned"] = stragglers
    res.notes.append(PROMPT_NOTE)
    return res.finish(assumptions=[
        "tokio::sync::Notify: notify_waiters() wakes exactly the Notified futures that exist (as C08/C13)",
        "the operations table (Model/Lifecycle.v op_table) was transcribed by reading the code; each row is exercised by the histories",
        "bounded time: close <= LINGER + 2 s, term <= LINGER + 2.5 s, later ops fail within 500 ms, hang = still pending 2.5 s after the socket was closed; " + PROMPT_NOTE,
        "'no background task' is measured as tokio RuntimeMetrics::num_alive_tasks() == 0 at most 1.5 s after term(); the count when term() returns is reported, not judged (sessions sleep up to 1 s after dropping their guard: SessionRegulator::enforce_min_lifespan)",
        "scheduler starvation and tasks parked in foreign awaits are outside the model (DESIGN 6/C16 label)",
    ])


def replay_main(path):
    """./check C16 --replay <file>: run the recorded case again on the current /repo tree and judge it again"""
    r = json.load(open(path))
    case = r.get("case")
    print("replay of %s: %s" % (path, r.get("what") or r.get("kind") or r.get("broken")))
    if case is None:
        print(json.dumps({k: v for k, v in r.items() if k != "log"}, indent=1)[:3000])
        return 1
    ok, log = C.build_harness()
    if not ok:
        print("harness does not build: " + log[-2000:])
        return 1
    reps = 1 if case.get("k") != "hist" else 4       # races: try a few times
    worst = None
    for _ in range(reps):
        obs, hlog = C.run_harness("c16", [strip(case)], PROP, tag="replay")
        if obs is None:
            print("harness run failed: " + str(hlog)[-2000:])
            return 1
        o = obs[0]
        if case.get("k") == "hist" and len(o["rows"][-1]) == 12:
            probs = problems_of(case, o)
            if probs:
                worst = (o, "; ".join(t for (_, t) in probs[:5]))
                break
        elif case.get("k") == "termfirst" and (o["rows"][0][2] > 0 or o["rows"][0][3] > 0):
            worst = (o, "term() returned before the spawned actors had started: %s" % o["rows"][0])
            break
    if worst:
        print("implementation observation now: " + json.dumps(worst[0])[:3000])
        print("VIOLATION property=%s replay=%s" % (PROP, path))
        print("still failing: " + worst[1])
        return 1
    print("the recorded case did not fail the implementation-side oracle in %d run(s)" % reps)
    return 0
