#!/usr/bin/env python3
"""prints the prompt for a seeded-change sub-agent: property text only, nothing from /verif"""
import json, sys
pid, wt = sys.argv[1], sys.argv[2]
variant = sys.argv[3] if len(sys.argv) > 3 else ""
for l in open('/verif/properties.jsonl'):
    p = json.loads(l)
    if p['id'] == pid:
        break
print(f"""You are given a git worktree of an open-source Rust project at {wt} (rzmq: a pure-Rust async ZeroMQ implementation on Tokio; the crate is in {wt}/core, tests in {wt}/core/tests). Work ONLY inside {wt} (do not read or touch /repo or /verif; build with `cd {wt} && cargo ... --offline`, the cargo registry is already populated; the first test build takes several minutes - prefer building single test targets with `cargo test -p rzmq --offline --test <name>` or `cargo test -p rzmq --offline --lib <filter>`).

The project is expected to satisfy this semantic property:

  PROPERTY {p['id']} - {p['title']}
  {p['statement']}
  It must hold: {p['quantifier']['text']}

Your job: produce a REALISTIC code change (the kind of regression a well-meaning contributor could introduce: an optimisation, a refactor, an off-by-one, a reordered step, a missing case, two cooperating edits that each look fine alone) to the library sources under {wt}/core/src that BREAKS this property while (a) the crate still compiles (`cargo build -p rzmq --offline --features full-linux`), and (b) the project's existing test suite still passes - at least run the lib unit tests of the modules you touched and the integration tests that exercise the area (`cargo test -p rzmq --offline --lib <module filter>`, `cargo test -p rzmq --offline --test <relevant tests>`), and tell me exactly what you ran. {variant}
The change must need something SPECIFIC to manifest - a particular interleaving, a fault at a particular point, a multi-step sequence of operations, an unusual input size or byte pattern, or a rare configuration - not something ordinary use exposes at once. Do not touch files under core/src/verif (a verification facade, irrelevant to you), do not edit existing tests, do not add `#[cfg]` tricks, and keep the change small (ideally under 20 changed lines).

Deliver, in {wt}:
  1. `patch.diff` - `git diff` of your change to core/src (only the change, not the demonstration);
  2. a demonstration: a new integration test file `core/tests/seeded_demo.rs` (or a small example program) that FAILS with your change applied and PASSES without it (verify both: `git stash` / `git stash pop` or `git apply -R patch.diff`), saved also as `{wt}/demo.rs`;
  3. `meta.json`: {{"property": "{p['id']}", "summary": "...what the change does...", "needs_to_manifest": "...the specific input / schedule / sequence...", "files_changed": [...], "ran": ["...commands you ran and their outcome..."]}}.
Leave the worktree with the change APPLIED and the demo test present. Report the summary and how the demonstration fails.""")
