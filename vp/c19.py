"""C19 - heartbeats detect dead peers and never kill live ones (engine timing logic)."""
import random
from . import common as C
from . import englib as E
from . import c04

PROP = "C19"
THEOREMS = ("C19_tick_rule, C19_ping_not_early, C19_ping_within_two_ivl, C19_dead_peer_closed, C19_live_peer_safe, "
            "C19_pong_echoes_context, C19_v2_never_pings")


def gen_case(rng):
    v2 = rng.random() < 0.15
    ivl = rng.choice([None, 1000, 1000, 2000, 5000])
    tmo = rng.choice([None, 1000, 1000, 3000, 70000])
    stype, peer = rng.choice([("DEALER", "ROUTER"), ("PULL", "PUSH"), ("SUB", "PUB")])
    server = rng.random() < 0.5
    cfg = E.mk_cfg(server=server, stype=stype, hb_ivl_ms=ivl, hb_timeout_ms=tmo)
    if v2:
        hs = E.greeting_v2(E.V2CODE[peer]) + E.frame([])
    else:
        hs = E.greeting("NULL", 0 if server else 1) + E.ready(peer)
    inputs = [{"start": 1}, {"net": [E.raw(hs)], "t": 0}]
    t = 0
    trace = []
    for _ in range(rng.randrange(2, 12)):
        r = rng.random()
        if r < 0.55:
            # tick times are k*500+250 ms: at least 250 ms away from every ivl/timeout boundary (multiples of 1000)
            t += rng.choice([500, 500, 1000, 1500, 3000, 6000])
            inputs.append({"tick": t + 250})
            trace.append(("tick", t + 250))
        elif r < 0.7:
            ctx = [rng.randrange(256) for _ in range(rng.choice([0, 0, 1, 8, 16, 17, 40]))]
            inputs.append({"net": [E.raw(E.ping(rng.randrange(65536), ctx))], "t": 0})
            trace.append(("ping", ctx))
        elif r < 0.82:
            inputs.append({"net": [E.raw(E.pong([rng.randrange(256) for _ in range(rng.choice([0, 3]))]))], "t": 0})
            trace.append(("pong",))
        elif r < 0.9:
            bad = rng.choice([E.frame([4] + E.asc("PING") + [1], cmd=True), E.frame([4] + E.asc("PING"), cmd=True),
                              E.frame([4] + E.asc("PON"), cmd=True), E.frame([4] + E.asc("PING") + [0, 0], cmd=True, more=True)])
            inputs.append({"net": [E.raw(bad)], "t": 0})
            trace.append(("badcmd",))
        else:
            inputs.append({"net": [E.raw(E.frame([1, 2, 3]))], "t": 0})
            trace.append(("data",))
    return {"cfg": cfg, "inputs": inputs, "v2": v2, "ivl": ivl, "tmo": tmo, "trace": trace,
            "kind": "v2" if v2 else "v3", "cuts": [], "msgs": [], "hs_len": len(hs), "group": 0}


def reference(c):
    """independent reference of the property: which ticks must ping / time out (activity stamps are ~0 because
    all network input is fed at harness time ~0; tick times are virtual and far from every boundary)"""
    exp = []
    waiting = False
    last_ping = None
    closed = False
    for ev in c["trace"]:
        if closed:
            exp.append(None)
            continue
        if ev[0] == "tick":
            now = ev[1]
            if c["v2"]:
                exp.append("none")
            elif c["tmo"] is not None and waiting and last_ping is not None and now - last_ping >= c["tmo"]:
                exp.append("timeout")
                closed = True
            elif c["ivl"] is not None and not waiting and now >= c["ivl"]:
                exp.append("ping")
                waiting = True
                last_ping = now
            else:
                exp.append("none")
        elif ev[0] == "pong":
            if c["v2"]:
                closed = True
                exp.append("err")
            else:
                waiting = False
                exp.append("none")
        elif ev[0] == "ping":
            if c["v2"]:
                closed = True
                exp.append("err")
            else:
                exp.append(("pong", ev[1]))
        elif ev[0] == "badcmd":
            if c["v2"]:
                closed = True
                exp.append("err")
            else:
                exp.append("none")
        else:
            exp.append("deliver")
    return exp


def split_calls(rows):
    calls = []
    i = 0
    while i < len(rows):
        r = rows[i]
        if r[0] == 90:
            calls.append(rows[i + 1:i + 1 + r[1]])
            i += 1 + r[1]
        else:
            i += 1
    return calls


def oracle(c, o):
    if o.get("panicked"):
        return "engine panicked"
    calls = split_calls(o["rows"])[2:]   # skip start + handshake
    exp = reference(c)
    from .c03 import digest_py
    for k, (e, out) in enumerate(zip(exp, calls)):
        sends = [r for r in out if r[0] == 1]
        errs = [r for r in out if r[0] == 8]
        if e is None:
            if out:
                return "event %d: closed engine still produced output" % k
        elif e == "none":
            if sends or errs:
                return "event %d (%s): unexpected heartbeat action %s" % (k, c["trace"][k][0], out)
        elif e == "ping":
            if len(sends) != 1 or errs:
                return "event %d: a PING was due at tick %s but the engine emitted %s" % (k, c["trace"][k][1], out)
            ttl = min(c["tmo"], 65535) if c["tmo"] is not None else 0
            want = E.frame([4] + E.asc("PING") + list(ttl.to_bytes(2, "big")), cmd=True)
            if sends[0][2:] != digest_py(want):
                return "event %d: PING bytes are not a well-formed PING command with TTL %d" % (k, ttl)
        elif e == "timeout":
            if not any(r == [8, 4] for r in errs):
                return "event %d: PING outstanding for >= HEARTBEAT_TIMEOUT at tick %s but no Timeout error" % (k, c["trace"][k][1])
        elif e == "err":
            if not errs:
                return "event %d: COMMAND frame on a ZMTP/2.0 session was not rejected" % k
        elif e == "deliver":
            if not any(r[0] == 6 for r in out):
                return "event %d: data frame not delivered" % k
        else:
            want = E.frame([4] + E.asc("PONG") + list(e[1]), cmd=True)
            if len(sends) != 1 or sends[0][2:] != digest_py(want):
                return "event %d: PING with %d-byte context was not answered by a PONG echoing it as its own frame" % (k, len(e[1]))
    return None


def main(argv):
    tier, seed = C.tier_and_seed(argv)
    res = C.Result(PROP, tier, seed)
    res.rule = ("engines with (HEARTBEAT_IVL, HEARTBEAT_TIMEOUT) in {unset,1s,2s,5s}x{unset,1s,3s,70s}, v3 and v2 sessions, after an honest "
                "handshake a timeline of 2..11 events from {tick at virtual time k*500+250 ms, PING with 0..40-byte context, PONG, "
                "malformed PING/PONG, data frame}; network input is fed at harness time ~0 (Instant::now() inside the engine cannot be "
                "injected), tick times are virtual; non-trivial = at least one heartbeat action (PING, PONG, Timeout); distinct by JSON")
    C.proof_stage(res, PROP, ["theories/Corr/EngCorr.vo"])
    rng = random.Random(seed)
    cases = [gen_case(rng) for _ in range(400 if tier == "quick" else 5000)]
    for c in cases:
        res.count("kind:" + c["kind"])
        res.count("ivl:%s tmo:%s" % (c["ivl"], c["tmo"]))
        for ev in c["trace"]:
            res.count("ev:" + ev[0])
    obs = C.differential(res, PROP, "eng", cases, E.case_coq, E.REQ, "eng_mismatches",
                         "(fun '(c, o, i) => eng_model c o i)", oracle,
                         nontrivial=lambda c, o: any(r[0] in (1, 8) for call in split_calls(o["rows"])[2:] for r in call),
                         theorems_note=THEOREMS, strip=c04.strip)
    return res.finish(assumptions=[
        "activity stamps inside the real engine come from Instant::now(); the correspondence only uses timelines whose tick times are "
        ">= 250 ms away from every decision boundary, with all network input at harness time ~0",
        "tokio interval regularity (ticks at most HEARTBEAT_IVL apart) is a premise of C19_ping_within_two_ivl",
        "PING/PONG under an encrypted framer is C18's subject; the io_uring backend's tick source is C20's"])
