"""C19 - heartbeats detect dead peers and never kill live ones (engine timing logic)."""
import random
from . import common as C
from . import englib as E
from . import c04

PROP = "C19"
THEOREMS = ("C19_tick_rule, C19_ping_not_early, C19_ping_within_two_ivl, C19_dead_peer_closed, C19_dead_peer_closed_despite_traffic, "
            "C19_pong_deadline_from_ping, C19_ping_not_early_after_write, C19_live_peer_safe, "
            "C19_pong_echoes_context, C19_v2_never_pings")


STEPS = [0, 0, 1, 249, 250, 251, 499, 500, 500, 501, 750, 999, 1000, 1000, 1001, 1500, 2000, 2999, 3000, 3001, 6000]


def gen_case(rng, directed=None):
    """a timeline on a VIRTUAL clock (cfg.vclock): every inbound frame and every outbound write carries its own time
    'at' (ms); the harness re-stamps the engine's activity time with it (clock injection through the cfg(rzmq_verif)
    accessor), tick times are passed to on_tick. Times step by values on, just below and just above the interval /
    timeout boundaries."""
    v2 = rng.random() < 0.12
    ivl = rng.choice([None, 500, 1000, 1000, 2000, 5000])
    tmo = rng.choice([None, 500, 1000, 1000, 3000, 70000])
    stype, peer = rng.choice([("DEALER", "ROUTER"), ("PULL", "PUSH"), ("SUB", "PUB")])
    server = rng.random() < 0.5
    cfg = E.mk_cfg(server=server, stype=stype, hb_ivl_ms=ivl, hb_timeout_ms=tmo)
    cfg["vclock"] = 1
    if v2:
        hs = E.greeting_v2(E.V2CODE[peer]) + E.frame([])
    else:
        hs = E.greeting("NULL", 0 if server else 1) + E.ready(peer)
    t = rng.choice([0, 0, 3, 700])
    inputs = [{"start": 1}, {"net": [E.raw(hs)], "at": t}]
    trace = [("hs", t)]
    script = directed if directed is not None else [None] * rng.randrange(2, 14)
    for d in script:
        if d is not None:
            kind, dt = d
        else:
            r = rng.random()
            kind = ("tick" if r < 0.45 else "wrote" if r < 0.60 else "ping" if r < 0.68 else "pong" if r < 0.78 else
                    "badcmd" if r < 0.83 else "data" if r < 0.90 else "app" if r < 0.94 else "deadline")
            dt = rng.choice(STEPS)
        t += dt
        if kind == "tick":
            inputs.append({"tick": t})
            # the session frames an outbound batch right before some ticks: framing is not activity (no model row; the
            # heartbeat state of the model ignores it) - added after the seeded change C19-framing-counts-as-activity
            if directed is None and rng.random() < 0.3:
                inputs[-1]["frame_before"] = t
            trace.append(("tick", t))
        elif kind == "wrote":
            inputs.append({"wrote": 1, "at": t})
            trace.append(("wrote", t))
        elif kind == "ping":
            # context sizes incl. the short/long frame boundary of the PONG (body = 5 + context: 250 -> 255, 251 -> 256)
            ctx = [rng.randrange(256) for _ in range(rng.choice([0, 0, 1, 8, 16, 17, 40, 248, 250, 251, 252, 300]))]
            inputs.append({"net": [E.raw(E.ping(rng.randrange(65536), ctx))], "at": t})
            trace.append(("ping", t, ctx))
        elif kind == "pong":
            inputs.append({"net": [E.raw(E.pong([rng.randrange(256) for _ in range(rng.choice([0, 3]))]))], "at": t})
            trace.append(("pong", t))
        elif kind == "badcmd":
            bad = rng.choice([E.frame([4] + E.asc("PING") + [1], cmd=True), E.frame([4] + E.asc("PING"), cmd=True),
                              E.frame([4] + E.asc("PON"), cmd=True), E.frame([4] + E.asc("PING") + [0, 0], cmd=True, more=True)])
            inputs.append({"net": [E.raw(bad)], "at": t})
            trace.append(("badcmd", t))
        elif kind == "data":
            inputs.append({"net": [E.raw(E.frame([1, 2, 3]))], "at": t})
            trace.append(("data", t))
        elif kind == "app":
            inputs.append({"app": [{"more": False, "bytes": [7, 7]}]})
            trace.append(("app", t))
        else:
            inputs.append({"deadline": 1})
            trace.append(("deadline", t))
    return {"cfg": cfg, "inputs": inputs, "v2": v2, "ivl": ivl, "tmo": tmo, "trace": trace,
            "kind": "v2" if v2 else "v3", "cuts": [], "msgs": [], "hs_len": len(hs), "group": 0}


def directed_cases(rng):
    """the timelines the property text singles out: traffic (writes, inbound frames) between a PING and its deadline,
    PONG just before / at / just after the deadline, ticks exactly on the boundaries"""
    out = []
    for _ in range(3):
        out += [
            [("tick", 1000), ("wrote", 100), ("wrote", 300), ("tick", 400), ("deadline", 0), ("wrote", 100), ("tick", 100), ("tick", 100), ("tick", 500)],
            [("tick", 999), ("tick", 1), ("data", 200), ("data", 300), ("tick", 499), ("tick", 1), ("tick", 2500)],
            [("tick", 2000), ("deadline", 0), ("pong", 999), ("tick", 1), ("tick", 999), ("tick", 1)],
            [("tick", 2000), ("tick", 1000), ("pong", 0)],
            [("tick", 2000), ("tick", 999), ("pong", 0), ("tick", 1), ("deadline", 0)],
            [("wrote", 900), ("tick", 100), ("tick", 899), ("tick", 1), ("wrote", 499), ("tick", 500), ("tick", 1)],
            [("tick", 5000), ("ping", 100), ("badcmd", 100), ("app", 0), ("wrote", 100), ("tick", 200), ("tick", 2500), ("tick", 70000)],
            [("ping", 10), ("ping", 10), ("ping", 10), ("ping", 10), ("ping", 10), ("ping", 10), ("data", 5), ("ping", 10), ("ping", 10)],
        ]
    return [gen_case(rng, d) for d in out]


def reference(c):
    """independent reference written from the property text: a PING no sooner than HEARTBEAT_IVL after the last
    activity (inbound frame or outbound write), a Timeout once HEARTBEAT_TIMEOUT has passed since the PING without a
    PONG - whatever other traffic there was -, nothing otherwise"""
    exp = []
    waiting = False
    last_ping = None
    last_act = 0
    closed = False
    for ev in c["trace"]:
        if ev[0] == "hs":
            last_act = ev[1]
            continue
        if closed:
            exp.append(None)
            continue
        k, now = ev[0], ev[1]
        if k == "tick":
            if c["v2"]:
                exp.append("none")
            elif c["tmo"] is not None and waiting and last_ping is not None and now - last_ping >= c["tmo"]:
                exp.append("timeout")
                closed = True
            elif c["ivl"] is not None and not waiting and now - last_act >= c["ivl"]:
                exp.append("ping")
                waiting = True
                last_ping = now
            else:
                exp.append("none")
        elif k == "wrote":
            last_act = now
            exp.append("none")
        elif k == "app":
            exp.append("send")
        elif k == "deadline":
            exp.append(("deadline", (last_ping + (c["tmo"] if c["tmo"] is not None else 30000)) if waiting else None))
        elif k == "pong":
            last_act = now
            if c["v2"]:
                closed = True
                exp.append("err")
            else:
                waiting = False
                exp.append("none")
        elif k == "ping":
            last_act = now
            if c["v2"]:
                closed = True
                exp.append("err")
            else:
                exp.append(("pong", ev[2]))
        elif k == "badcmd":
            last_act = now
            if c["v2"]:
                closed = True
                exp.append("err")
            else:
                exp.append("none")
        else:
            last_act = now
            exp.append("deliver")
    return exp


def split_calls(rows):
    calls = []
    i = 0
    while i < len(rows):
        r = rows[i]
        if r[0] == 90:
            calls.append(rows[i + 1:i + 1 + r[1]])
            i += 1 + r[1]
        else:
            i += 1
    return calls


def oracle(c, o):
    if o.get("panicked"):
        return "engine panicked"
    calls = split_calls(o["rows"])[2:]   # skip start + handshake
    exp = reference(c)
    from .c03 import digest_py
    tr = c["trace"][1:]
    for k, (e, out) in enumerate(zip(exp, calls)):
        sends = [r for r in out if r[0] == 1]
        errs = [r for r in out if r[0] == 8]
        if e is None:
            if out and tr[k][0] != "deadline":
                return "event %d: closed engine still produced output" % k
        elif e == "none":
            if sends or errs:
                return "event %d (%s): unexpected heartbeat action %s" % (k, tr[k][0], out)
        elif e == "ping":
            if len(sends) != 1 or errs:
                return "event %d: a PING was due at tick %s but the engine emitted %s" % (k, tr[k][1], out)
            ttl = min(c["tmo"], 65535) if c["tmo"] is not None else 0
            want = E.frame([4] + E.asc("PING") + list(ttl.to_bytes(2, "big")), cmd=True)
            if sends[0][2:] != digest_py(want):
                return "event %d: PING bytes are not a well-formed PING command with TTL %d" % (k, ttl)
        elif e == "timeout":
            if not any(r == [8, 4] for r in errs):
                return "event %d: PING outstanding for >= HEARTBEAT_TIMEOUT at tick %s but no Timeout error" % (k, tr[k][1])
        elif e == "send":
            if len(sends) != 1 or errs:
                return "event %d: application send did not produce exactly one Send" % k
        elif isinstance(e, tuple) and e[0] == "deadline":
            want = [91, 1, e[1]] if e[1] is not None else [91, 0, 0]
            if out != [want]:
                return ("event %d: get_pong_deadline() = %s, but the property anchors the deadline at the PING: expected %s"
                        % (k, out, want))
        elif e == "err":
            if not errs:
                return "event %d: COMMAND frame on a ZMTP/2.0 session was not rejected" % k
        elif e == "deliver":
            if not any(r[0] == 6 for r in out):
                return "event %d: data frame not delivered" % k
        else:
            want = E.frame([4] + E.asc("PONG") + list(e[1]), cmd=True)
            if len(sends) != 1 or sends[0][2:] != digest_py(want):
                return "event %d: PING with %d-byte context was not answered by a PONG echoing it as its own frame" % (k, len(e[1]))
    return None


# ---------------------------------------------------------------- session level: a peer that never answers (stack.rs hbpeer)
# PING + timeout lies beyond the session's 1 s minimum lifespan (SessionRegulator keeps a failed session's stream open until then)
HB_IVL, HB_TMO = 500, 700
STALL_AT = 250      # the hanging peer's backlog is queued mid-interval, so the last write stamp is unambiguous for the ticks


def session_cases(tier):
    """a raw peer completes a NULL handshake with a real DEALER/PULL socket and never answers its PING: idle, while the
    local application keeps writing, while the peer keeps sending data frames"""
    out = []
    combos = [("DEALER", "ROUTER", "idle"), ("DEALER", "ROUTER", "app_writes"), ("PULL", "PUSH", "peer_data"), ("DEALER", "ROUTER", "peer_data")]
    if tier != "quick":
        combos += [("DEALER", "ROUTER", "app_writes"), ("PULL", "PUSH", "idle"), ("SUB", "PUB", "peer_data")]
    # a peer that HANGS (never reads) while the application has a backlog pending: the egress buffer is non-empty at every tick
    combos += [("DEALER", "ROUTER", "stalled")] + ([("PUSH", "PULL", "stalled")] if tier != "quick" else [])
    for (stype, peer, mode) in combos:
        hs = E.greeting("NULL", 0) + E.ready(peer)
        data = E.frame([0x55] * 12) if stype != "DEALER" else E.frame([], more=True) + E.frame([0x55] * 12)
        out.append({"k": "hbpeer", "stype": stype, "peer": peer, "mode": mode, "period_ms": 100, "observe_ms": 3600,
                    "opts": {"HEARTBEAT_IVL": HB_IVL, "HEARTBEAT_TIMEOUT": HB_TMO}, "hs": [E.raw(hs)], "data": [E.raw(data)],
                    "threads": 2})
        if mode == "stalled":
            out[-1].update({"backlog_at_ms": STALL_AT, "backlog": 64, "backlog_size": 262144})
    return out


def session_timeline(c):
    """the nominal timeline handed to the model (ms): handshake bytes at 5, ticks every HEARTBEAT_IVL, after the first PING
    its own write, then the scenario's traffic every period, the backstop polled after every event and at its deadline"""
    evs = [("net", c["hs"], 5)]
    if c["mode"] == "stalled":
        # the writes that still succeed (kernel buffers filling) happen right after the backlog is queued; afterwards
        # nothing is written: ticks every HEARTBEAT_IVL, the PING's own write never completes, the backstop is polled
        evs.append(("wrote", STALL_AT + 30))
        for t in range(HB_IVL, c["observe_ms"], 100):
            if t % HB_IVL == 0:
                evs.append(("tick", t))
            evs.append(("deadline", t))
        return evs
    ping = None
    t = 0
    horizon = c["observe_ms"]
    times = sorted(set(list(range(HB_IVL, horizon, HB_IVL)) + list(range(0, horizon, c["period_ms"]))))
    for t in times:
        if t % HB_IVL == 0 and t > 0:
            evs.append(("tick", t))
            if ping is None and t - 5 >= HB_IVL:
                ping = t
                evs.append(("wrote", t))                 # the PING's own write
        if ping is not None and t > ping and t % c["period_ms"] == 0:
            if c["mode"] == "app_writes":
                evs.append(("wrote", t))
            elif c["mode"] == "peer_data":
                evs.append(("net", c["data"], t))
        if ping is not None:
            if t >= ping + HB_TMO and not any(e == ("deadline", ping + HB_TMO) for e in evs):
                evs.append(("deadline", ping + HB_TMO))
            evs.append(("deadline", max(t, ping)))
    return evs


def session_coq(c):
    cfg = E.mk_cfg(server=True, stype=c["stype"], hb_ivl_ms=HB_IVL, hb_timeout_ms=HB_TMO)
    parts = []
    for e in session_timeline(c):
        if e[0] == "net":
            parts.append("(SNetE [%s] %d)" % ("; ".join(E.piece_coq(p) for p in e[1]), e[2]))
        else:
            parts.append("(%s %d)" % ({"tick": "STickE", "deadline": "SDeadlineE", "wrote": "SWroteE"}[e[0]], e[1]))
    return "(%s, [%s], %d, %d, %d)" % (E.cfg_coq(cfg), "; ".join(parts), HB_IVL, 60, 350)


def session_oracle(c, o):
    """the property text, judged on the real socket: a PING no sooner than HEARTBEAT_IVL and no later than two intervals
    after the last activity (the handshake), and the connection closed if no PONG arrives within HEARTBEAT_TIMEOUT of that
    PING - whatever else is written or received meanwhile"""
    r = o["rows"][0]
    if c["mode"] == "stalled":
        if r[0] != 96 or len(r) != 4:
            return "scenario crashed or hung: %s" % o
        _, closed, cms, acc = r
        if acc < 8:
            return None         # no backlog could be queued: nothing to judge
        if not closed:
            return ("a peer that hangs (never reads) while %d accepted messages are pending was still connected %d ms after the "
                    "last write (HEARTBEAT_IVL %d, HEARTBEAT_TIMEOUT %d): never probed / never dropped" % (acc, c["observe_ms"] - STALL_AT, HB_IVL, HB_TMO))
        if cms + 100 < STALL_AT + HB_IVL + HB_TMO:
            return "hanging peer dropped %d ms after the handshake, before HEARTBEAT_IVL + HEARTBEAT_TIMEOUT after the last write" % cms
        if cms > STALL_AT + 100 + 2 * HB_IVL + HB_TMO + 350:
            return "hanging peer dropped only %d ms after the handshake (later than two intervals + timeout after the last write)" % cms
        return None
    if r[0] != 97 or len(r) != 6:
        return "scenario crashed or hung: %s" % o
    _, pinged, closed, ping_ms, win, sent = r
    if not pinged:
        return "no PING within %d ms of an idle connection (HEARTBEAT_IVL %d)" % (c["observe_ms"], HB_IVL)
    if ping_ms + 60 < HB_IVL:
        return "PING %d ms after the last activity, sooner than HEARTBEAT_IVL %d" % (ping_ms, HB_IVL)
    if ping_ms > 2 * HB_IVL + 350:
        return "PING only %d ms after the last activity, later than two HEARTBEAT_IVL (%d)" % (ping_ms, 2 * HB_IVL)
    if not closed:
        return ("the peer never answered the PING but the connection was still open %d ms after it (HEARTBEAT_TIMEOUT %d, mode %s, "
                "%d messages written by the application meanwhile)" % (c["observe_ms"] - ping_ms, HB_TMO, c["mode"], sent))
    if win + 60 < HB_TMO:
        return "connection closed %d ms after the PING, before HEARTBEAT_TIMEOUT %d" % (win, HB_TMO)
    if win > HB_TMO + 350:
        return "connection closed only %d ms after the unanswered PING (HEARTBEAT_TIMEOUT %d, mode %s)" % (win, HB_TMO, c["mode"])
    return None


def session_strip(c):
    return {k: c[k] for k in ("k", "stype", "mode", "period_ms", "observe_ms", "opts", "hs", "data", "threads", "backlog_at_ms", "backlog", "backlog_size") if k in c}


def main(argv):
    tier, seed = C.tier_and_seed(argv)
    res = C.Result(PROP, tier, seed)
    res.rule = ("engines with (HEARTBEAT_IVL, HEARTBEAT_TIMEOUT) in {unset,1s,2s,5s}x{unset,1s,3s,70s}, v3 and v2 sessions, after an honest "
                "handshake a timeline of 2..13 events on a VIRTUAL clock from {tick, outbound write (record_activity), PING with 0..40-byte "
                "context, PONG, malformed PING/PONG, data frame, application send, get_pong_deadline query}, time steps on / just below / "
                "just above the interval and timeout boundaries (0,1,249..251,499..501,999..1001,...), plus 21 directed timelines (traffic "
                "between PING and deadline, PONG just before / at / after the deadline); the engine's Instant::now() stamps are replaced by "
                "the scripted time through a cfg(rzmq_verif) accessor; non-trivial = at least one heartbeat action; distinct by JSON")
    C.proof_stage(res, PROP, ["theories/Corr/EngCorr.vo"])
    from . import optlib
    optlib.options_stage(res, PROP, [38, 39], n_quick=100, theorems_note='C19_heartbeat_option_semantics')
    rng = random.Random(seed)
    cases = directed_cases(rng) + [gen_case(rng) for _ in range(400 if tier == "quick" else 5000)]
    for c in cases:
        res.count("kind:" + c["kind"])
        res.count("ivl:%s tmo:%s" % (c["ivl"], c["tmo"]))
        for ev in c["trace"]:
            res.count("ev:" + ev[0])
    obs = C.differential(res, PROP, "eng", cases, E.case_coq, E.REQ, "eng_mismatches",
                         "(fun '(c, o, i) => eng_model c o i)", oracle,
                         nontrivial=lambda c, o: any(r[0] in (1, 8) for call in split_calls(o["rows"])[2:] for r in call),
                         theorems_note=THEOREMS, strip=c04.strip)
    scs = session_cases(tier)
    for c in scs:
        res.count("session:%s:%s" % (c["stype"], c["mode"]))
    C.differential(res, PROP, "stack", scs, session_coq, E.REQ, "hbs_mismatches",
                   "(fun '(c, es, i, lo, hi) => hb_session_model c es)", session_oracle,
                   nontrivial=lambda c, o: (o["rows"][0][0] == 97 and o["rows"][0][1] == 1) or (o["rows"][0][0] == 96 and o["rows"][0][1] == 1),
                   theorems_note="C19_session_timeout_not_early, C19_session_dead_peer_closed_at_deadline, C19_session_dead_peer_closed_despite_traffic",
                   strip=session_strip, tag="session", shards=2)
    return res.finish(assumptions=[
        "session level (Model/HbActor.v): the actor's interval and backstop timers are events of the model; tied by raw-peer scenarios "
        "on real sockets (tokio backend) with 60 ms / 350 ms slack around HEARTBEAT_IVL=500, HEARTBEAT_TIMEOUT=700; tokio timers fire no "
        "earlier than asked (premise)",
        "activity stamps inside the real engine come from Instant::now(): the harness detects each stamp (sentinel) and replaces it "
        "by the scripted virtual time through verif_set_last_activity (clock injection); the real actor's calls to record_activity() "
        "after writes are represented by 'wrote' events",
        "tokio interval regularity (ticks at most HEARTBEAT_IVL apart) is a premise of C19_ping_within_two_ivl",
        "PING/PONG under an encrypted framer is C18's subject; the io_uring backend's tick source is C20's"])
