"""C01 - accepted messages arrive exactly once, in order, intact. See DESIGN.md section 6 (C01).

Correspondence:
  A  EgressBuffer + EgressDriver   (harness kind "egress", facade rzmq::verif::egress)
  A  IngressDriver + per-pipe queue (harness kind "ingress", facade rzmq::verif::ingress)
  C  batch assembly transitions logged by real sessions (kind "trace", facade rzmq::verif::batch)
  D  whole connections on real sockets (kind "pair")
"""
import json
import random
import zlib
from . import common as C

PROP = "C01"
REQ = "From RZ Require Import Base.Prelude Model.Codec Model.Batch Model.Egress Model.IngressDriver Corr.C01Corr."
THEOREMS = ("C01_assemble_order, C01_assemble_run_order, C01_egress_stream, C01_ingress_exactly_once, "
            "C01_inproc_exactly_once, C01_dealer_*, C01_end_to_end")
NOSEQ = 4294967295


# ---------------------------------------------------------------- payloads (same as harness/src/c01.rs)

def fill(n, seed):
    return bytes(((seed + i * 131 + i // 251) % 256) for i in range(n))


_payload_cache = {}


def payload(sender, seq, ln):
    key = (sender, seq, ln)
    if key in _payload_cache:
        return _payload_cache[key]
    if ln < 16:
        p = fill(ln, seq % 256)
    else:
        body = fill(ln - 16, seq % 256)
        p = (sender.to_bytes(4, "big") + seq.to_bytes(4, "big") + ln.to_bytes(4, "big")
             + (zlib.adler32(body) & 0xffffffff).to_bytes(4, "big") + body)
    if ln <= 4096:
        _payload_cache[key] = p
    return p


def adler(b):
    return zlib.adler32(b) & 0xffffffff


def digest_py(b):
    return [len(b), adler(b)] + list(b[:8]) + list(b[max(0, len(b) - 8):])


# ---------------------------------------------------------------- kind D: pair scenarios

PATTERNS = ["PUSH_PULL", "DEALER_ROUTER", "ROUTER_DEALER", "REQ_REP"]
SMALL = [0, 1, 16, 20, 255, 256, 300]
MID = [4087, 4096, 5000]
BIG = [70000]
HUGE = [266231, 270000, 1048576]


def descriptors(c):
    """(dir, seq, len, adler) per message in send order"""
    out = []
    for i, ln in enumerate(c["sizes"]):
        if c["pat"] in ("REQ_REP", "DUPLEX"):
            if i % 2 == 0:
                out.append((5, i, ln, adler(payload(1, i, ln))))
            else:
                out.append((15, i, ln, adler(payload(2, i, ln))))
        else:
            out.append((5, i, ln, adler(payload(1, i, ln))))
    if c["pat"] == "REQ_REP" and len(out) % 2 == 1:
        out = out[:-1]
    return out


def size_mix(rng, tier, n):
    """adversarial mixes around the byte ceilings: [small, BIG, small, BIG, small...]"""
    kind = rng.choice(["small", "alt_mid", "alt_big", "random", "uniform", "alt_huge" if tier != "quick" else "alt_big"])
    if kind == "small":
        return [rng.choice(SMALL) for _ in range(n)]
    if kind == "uniform":
        s = rng.choice(SMALL + MID)
        return [s] * n
    if kind == "random":
        pool = SMALL * 3 + MID + (BIG if rng.random() < 0.5 else [])
        return [rng.choice(pool) for _ in range(n)]
    big = {"alt_mid": MID, "alt_big": MID + BIG, "alt_huge": HUGE}[kind]
    head = []
    for _ in range(rng.choice([2, 3])):
        head += [rng.choice([16, 20, 300]), rng.choice(big)]
    tail = [rng.choice([16, 20, 255]) for _ in range(max(0, n - len(head)))]
    # sprinkle a few more big ones
    for _ in range(rng.choice([0, 1, 2])):
        if tail:
            tail[rng.randrange(len(tail))] = rng.choice(big)
    return head + tail


def duplex_cases(rng, tier):
    """full-duplex traffic with big messages: each session reads >= 512 KiB chunks while it has egress work of its own"""
    out = []
    for tr in (("tcp", "ipc") if tier == "quick" else ("tcp", "ipc", "tcp", "tcp", "ipc")):
        n = 24 if tier == "quick" else 64
        sizes = [rng.choice([65536, 200000, 524288, 1048576, 1048576, 300, 16]) for _ in range(n)]
        out.append({"k": "pair", "pat": "DUPLEX", "tr": tr, "threads": 2, "when": 2, "sizes": sizes, "sopts": {}, "ropts": {},
                    "send_binds": False, "idle_ms": 8000})
    return out


def gen_pairs(rng, tier, n):
    cases = []
    while len(cases) < n:
        pat = rng.choice(["PUSH_PULL", "PUSH_PULL", "DEALER_ROUTER", "DEALER_ROUTER", "ROUTER_DEALER", "REQ_REP"])
        tr = rng.choice(["tcp", "tcp", "ipc", "inproc"])
        when = rng.choice([0, 1, 2])
        if pat == "DEALER_ROUTER" and rng.random() < 0.85:
            when = 2      # before/around connect DEALER hits the known pending-queue finding: sampled, not flooded
        threads = rng.choice([1, 2])
        nmsg = rng.choice([12, 40, 150, 300]) if pat != "REQ_REP" else rng.choice([8, 20, 40])
        sizes = size_mix(rng, tier, nmsg)
        if pat == "REQ_REP":
            sizes = [s if s < 100000 else 5000 for s in sizes]
        sopts, ropts = {}, {}
        if rng.random() < 0.6:
            sopts["SNDHWM"] = rng.choice([1, 2, 7, 256])
        if rng.random() < 0.6:
            ropts["RCVHWM"] = rng.choice([1, 2, 7, 256])
        if rng.random() < 0.6:
            sopts["SNDBATCH_COUNT"] = rng.choice([1, 2])
        if rng.random() < 0.7:
            sopts["SNDBATCH_BYTES"] = rng.choice([64, 300, 4096])
        if rng.random() < 0.3:
            ropts["RCVBATCH_COUNT"] = rng.choice([1, 2])
        if pat == "REQ_REP" and rng.random() < 0.5:
            ropts.update({k: v for k, v in sopts.items() if k.startswith("SNDBATCH")})
        if pat == "DEALER_ROUTER" and when in (0, 1):
            sizes = [max(s, 16) for s in sizes]
        c = {"k": "pair", "pat": pat, "tr": tr, "threads": threads, "when": when, "sizes": sizes,
             "sopts": sopts, "ropts": ropts, "send_binds": rng.random() < 0.25}
        if rng.random() < 0.4:
            c["recv_sleep_us"] = rng.choice([200, 2000])
            c["recv_sleep_every"] = rng.choice([1, 5])
        if rng.random() < 0.25:
            c["send_gap_us"] = rng.choice([100, 30000])
            c["send_gap_every"] = rng.choice([3, 10])
        if pat == "ROUTER_DEALER" and c["send_binds"] is False:
            pass
        cases.append(c)
    return cases


def pair_strip(c):
    return {k: v for k, v in c.items() if not k.startswith("_")}


def dealer_early(c):
    return c["pat"] == "DEALER_ROUTER" and c["when"] in (0, 1)


def pair_to_coq(c):
    # short messages (< 16 bytes) carry no sequence number: keep the rows distinguishable for nodup
    ctor = "CPairDealerEarly" if dealer_early(c) and all(s >= 16 for s in c["sizes"]) else "CPair"
    return "(%s [%s])" % (ctor, "; ".join("(%d, %d, %d, %d)" % d for d in descriptors(c)))


def pair_canon(c, rows):
    """what the Coq side needs: number of accepted sends per direction + the received rows"""
    out = []
    for d in (5, 15):
        out.append([4, d, sum(1 for r in rows if r[0] == d and r[2] == 1)])
    return out + [r for r in rows if r[0] in (6, 16)]


def classify(c, o):
    """implementation-side oracle: None when received = accepted, in order, intact"""
    rows = o["rows"]
    if rows and rows[0][0] == 94:
        return None   # the sockets could not be set up (e.g. no free port): the premise "two connected sockets" is not met
    if rows and rows[0][0] in (93, 95, 96):
        return "scenario did not run to completion (code %d: %s)" % (rows[0][0], o.get("detail") or o.get("scenario_timeout") or "")
    desc = descriptors(c)
    msgs = []
    for d, (sdir, rdir) in ((5, (5, 6)), (15, (15, 16))):
        status = {r[1]: r[2] for r in rows if r[0] == sdir}
        if any(v == 2 for v in status.values()):
            msgs.append("a send() did not complete within 12 s although the peer keeps receiving")
        accepted = [x for x in desc if x[0] == d and status.get(x[1]) == 1]
        expected = [[rdir, x[2], x[3], (x[1] if x[2] >= 16 else NOSEQ), 1] for x in accepted]
        got = [r for r in rows if r[0] == rdir]
        if got == expected:
            continue
        known = {(x[2], x[3]) for x in desc if x[0] == d}
        if any(r[4] != 1 or (r[1], r[2]) not in known for r in got):
            msgs.append("CORRUPTED: a received message matches no sent message")
        seqs = [r[3] for r in got if r[3] != NOSEQ]
        accs = [x[1] for x in accepted if x[2] >= 16]
        dup = sorted({s for s in seqs if seqs.count(s) > 1})
        lost = [s for s in accs if s not in set(seqs)]
        if dup:
            msgs.append("DUPLICATED seq %s" % dup[:5])
        if lost:
            msgs.append("LOST (accepted, never received while the connection stayed up) seq %s (%d of %d)" % (lost[:5], len(lost), len(accs)))
        if seqs != sorted(seqs):
            k = next(i for i in range(1, len(seqs)) if seqs[i] < seqs[i - 1])
            msgs.append("REORDERED: received ... %s" % seqs[max(0, k - 3):k + 3])
        if not msgs:
            msgs.append("received sequence differs from accepted sequence (%d received, %d accepted)" % (len(got), len(expected)))
    if msgs:
        return ("%s %s when=%d threads=%d sopts=%s ropts=%s: " % (c["pat"], c["tr"], c["when"], c["threads"], c["sopts"], c["ropts"])
                + "; ".join(msgs))
    return None


def pair_signature(c, o, msg):
    # DEALER messages accepted before the connection is up sit in pending_outgoing_queue: the
    # processor hands over one per wake-up and direct sends overtake them (C01_dealer_queue_refuted)
    # ... and with a small SNDHWM the next send() waits for room in that queue, which nothing drains: it hangs
    if dealer_early(c) and ("LOST" in msg or "REORDERED" in msg or "did not complete within" in msg) \
            and "CORRUPTED" not in msg and "DUPLICATED" not in msg:
        return "C01:dealer-pending-queue-stuck-or-overtaken"
    return None


def pair_shrink(c):
    if dealer_early(c):
        return
    n = len(c["sizes"])
    for k in (n // 2, n - 1):
        if 4 <= k < n:
            yield dict(c, sizes=c["sizes"][:k])
    for key in ("sopts", "ropts"):
        for o in list(c[key]):
            d = dict(c[key])
            del d[o]
            yield dict(c, **{key: d})
    for key in ("recv_sleep_us", "send_gap_us"):
        if key in c:
            d = dict(c)
            del d[key]
            yield d


# ---------------------------------------------------------------- kind A: egress

def gen_egress(rng, n):
    cases = []
    for _ in range(n):
        ops = []
        seed_d, seed_p = 0, 200
        for _ in range(rng.randrange(2, 14)):
            r = rng.random()
            if r < 0.4:
                ops.append(["push", rng.choice([0, 1, 2, 5, 30, 100, 300]), seed_d % 200, rng.choice([0, 1, 1, 2, 5])])
                seed_d += 1
            elif r < 0.6:
                ops.append(["prio", rng.choice([0, 2, 11, 30]), 200 + seed_p % 56])
                seed_p += 1
            else:
                script = [rng.choice([1, 1, 2, 3, 7, 29, 50, 100, 1000]) for _ in range(rng.randrange(0, 5))]
                if rng.random() < 0.03:
                    script.append(0)
                ops.append(["drive", script, rng.choice([1, 2, 3, 64, 128]) if rng.random() > 0.02 else 0])
        if rng.random() < 0.7:
            ops.append(["drive", [100000] * 20, 64])
        cases.append({"k": "egress", "ops": ops})
    return cases


def egress_to_coq(c):
    out = []
    for op in c["ops"]:
        if op[0] == "push":
            out.append("CPush %d %d %d" % (op[1], op[2], op[3]))
        elif op[0] == "prio":
            out.append("CPrio %d %d" % (op[1], op[2]))
        else:
            out.append("CDrive %s %d" % (C.cNlist(op[1]), op[2]))
    return "(CEgress [%s])" % "; ".join(out)


def egress_oracle(c, o):
    """property on the real buffer: the bytes handed to the transport are a prefix of a layout that
    keeps data chunks whole and in push order with priority chunks only between chunks, and
    pending_messages() = messages of the data chunks not yet fully written. Chunk contents start
    with a byte that identifies the chunk (data seeds < 200 <= priority seeds, all distinct)."""
    rows = o["rows"]
    if o.get("panicked") or (rows and rows[0][0] == 96):
        return "EgressBuffer/EgressDriver panicked"
    wbytes = [bytes(w) for w in o.get("wbytes", [])]
    wi = 0
    ri = 0
    pend_d, pend_p = [], []       # pushed chunks not yet started on the wire: (bytes, cnt)
    cur = None                    # [bytes, cnt, offset] of the chunk being written
    popped_cnt = 0
    total_cnt = 0
    for op in c["ops"]:
        if op[0] == "push":
            b = fill(op[1], op[2])
            if b:
                pend_d.append((b, op[3]))
                total_cnt += op[3]
            st = rows[ri]
            ri += 1
        elif op[0] == "prio":
            b = fill(op[1], op[2])
            if b:
                pend_p.append((b, 0))
            st = rows[ri]
            ri += 1
        else:
            hdr = rows[ri]
            ri += 1
            for _ in range(hdr[2]):
                ri += 1
                w = wbytes[wi]
                wi += 1
                pos = 0
                while pos < len(w):
                    if cur is None:
                        # a new chunk starts here: the OLDEST data chunk not yet started, or a priority chunk
                        pick = None
                        if pend_d and pend_d[0][0][0] == w[pos]:
                            pick = pend_d.pop(0)
                        else:
                            for i, (b, _) in enumerate(pend_p):
                                if b[0] == w[pos]:
                                    pick = pend_p.pop(i)
                                    break
                        if pick is None:
                            return ("byte %d at a chunk boundary starts neither the oldest unsent data chunk nor a priority chunk "
                                    "(data reordered, or a chunk was split)" % w[pos])
                        cur = [pick[0], pick[1], 0]
                    k = min(len(w) - pos, len(cur[0]) - cur[2])
                    if w[pos:pos + k] != cur[0][cur[2]:cur[2] + k]:
                        return "bytes handed to the transport deviate inside a chunk (something was inserted into a partially written chunk)"
                    cur[2] += k
                    pos += k
                    if cur[2] == len(cur[0]):
                        popped_cnt += cur[1]
                        cur = None
            st = rows[ri]
            ri += 1
        if st[0] != 2:
            return "unexpected row %s" % st
        if st[1] != total_cnt - popped_cnt:
            return "pending_messages()=%d but %d messages are un-popped" % (st[1], total_cnt - popped_cnt)
    return None


# ---------------------------------------------------------------- kind A: ingress

def gen_ingress(rng, n):
    cases = []
    for _ in range(n):
        cap = rng.choice([1, 1, 2, 3, 8])
        ops = []
        nid = 0
        alive_possible = False
        for _ in range(rng.randrange(3, 30)):
            r = rng.random()
            if r < 0.35:
                ops.append(["enq", nid, rng.choice([1, 1, 2, 3])])
                nid += 1
            elif r < 0.65:
                ops.append(["poll"])
            elif r < 0.75:
                ops.append(["cancel"])
            else:
                ops.append(["pop"])
        # flush: everything that entered must come out
        for _ in range(nid + 2):
            ops.append(["poll"])
            ops += [["pop"]] * cap
        cases.append({"k": "ingress", "cap": cap, "sender": True, "ops": ops, "n": nid})
    for _ in range(max(2, n // 20)):
        ops = [["enq", i, 1 + i % 3] for i in range(rng.randrange(1, 6))] + [["poll"], ["pop"], ["poll"]]
        cases.append({"k": "ingress", "cap": 2, "sender": False, "ops": ops, "n": 0})
    return cases


def ingress_to_coq(c):
    out = []
    for op in c["ops"]:
        if op[0] == "enq":
            out.append("IEnq %d %d" % (op[1], op[2]))
        else:
            out.append({"poll": "IPoll", "cancel": "ICancel", "pop": "IPop"}[op[0]])
    return "(CIngress %d %s [%s])" % (c["cap"], C.cbool(c["sender"]), "; ".join(out))


def ingress_oracle(c, o):
    rows = o["rows"]
    if o.get("panicked") or (rows and rows[0][0] == 96):
        return "IngressDriver panicked"
    if not c["sender"]:
        return None
    popped = [r[1] - 1 for r in rows if r[0] == 3 and r[1] > 0]
    want = list(range(c["n"]))
    if popped != want:
        return "batches popped by the application %s differ from the batches decoded %s (cap=%d)" % (popped[:12], want[:12], c["cap"])
    return None


# ---------------------------------------------------------------- kind C: traces

def gen_traces(rng, tier):
    cases = []
    combos = [
        ({"SNDBATCH_BYTES": 64}, [20, 5000, 20, 5000, 20] + [20] * 150),
        ({}, [20, 270000, 20, 270000, 20] + [20] * 150),
        ({"SNDBATCH_BYTES": 300, "SNDBATCH_COUNT": 2}, [300, 16, 4087, 20, 20, 4096, 255] * 12),
        ({"SNDBATCH_BYTES": 4096, "SNDHWM": 2}, [5000, 20, 20, 300, 5000] * 10),
        ({"SNDBATCH_COUNT": 1, "SNDHWM": 7}, [20, 300, 5000] * 10),
        ({"SNDBATCH_BYTES": 64, "SNDHWM": 1}, [20, 5000, 20] * 10),
    ]
    for sopts, sizes in combos:
        for tr in (["tcp"] if tier == "quick" else ["tcp", "ipc"]):
            cases.append({"k": "trace", "pat": rng.choice(["PUSH_PULL", "DEALER_ROUTER"]), "tr": tr, "threads": rng.choice([1, 2]),
                          "when": 2, "sizes": sizes, "sopts": sopts, "ropts": {}, "recv_sleep_us": rng.choice([0, 300]),
                          "recv_sleep_every": 1})
    if tier != "quick":
        for _ in range(20):
            c = gen_pairs(rng, tier, 1)[0]
            if c["tr"] == "inproc" or c["pat"] == "REQ_REP":
                continue
            c["k"] = "trace"
            cases.append(c)
    return cases


def trace_records(o):
    """parse the logged rows, chain carry_before per session handle"""
    recs = []
    carry = {}
    for r in o.get("traces", []):
        branch, handle, pending, hwm, cnt, maxc, phys, logical, start, nb = r[0] - 20, r[1], r[2], r[3], r[4], r[5], r[6], r[7], r[8], r[9]
        p = 10
        batch = [(r[p + 2 * i], r[p + 2 * i + 1]) for i in range(nb)]
        p += 2 * nb
        nc = r[p]
        p += 1
        after = [(r[p + 2 * i], r[p + 2 * i + 1]) for i in range(nc)]
        recs.append({"branch": branch, "handle": handle, "pending": pending, "hwm": hwm, "cnt": cnt, "maxc": maxc, "phys": phys,
                     "logical": logical, "start": start, "before": carry.get(handle, []), "batch": batch, "after": after})
        carry[handle] = after
    return recs


def tl(ms):
    return "[" + "; ".join("(%d, %d)" % m for m in ms) + "]"


def trace_to_coq(recs):
    return "(CTrace [%s])" % "; ".join(
        "{| t_branch := %d; t_pending := %d; t_sndhwm := %d; t_count := %d; t_max_count := %d; t_phys := %d; t_logical := %d; "
        "t_start := %d; t_carry_before := %s; t_batch := %s; t_carry_after := %s |}"
        % (r["branch"], r["pending"], r["hwm"], r["cnt"], r["maxc"], r["phys"], r["logical"], r["start"],
           tl(r["before"]), tl(r["batch"]), tl(r["after"])) for r in recs)


def trace_oracle(c, o, recs):
    """property on the logged transitions: per session, the concatenation of the batches is in send order"""
    msg = classify(c, o)
    if msg:
        return msg
    per = {}
    for r in recs:
        per.setdefault(r["handle"], []).extend(t for (_, t) in r["batch"])
    for h, tags in per.items():
        tags = [t for t in tags if (t >> 32) in (1, 2)]
        if tags != sorted(tags):
            return "session %d put messages on the wire out of send order: %s" % (h, [t & 0xffffffff for t in tags][:20])
    return None


def run_traces(res, cases):
    ok, log = C.build_harness()
    if not res.obligation(ok, "harness build: " + log[-1500:]):
        return
    obs, hlog = C.run_harness("c01seq", [pair_strip(c) for c in cases], PROP, tag="trace")
    if obs is None or len(obs) != len(cases):
        res.obligation(False, "trace harness run: " + str(hlog)[-1500:])
        res.violation({"property": PROP, "broken": "trace harness run crashed", "log": str(hlog)[-3000:]}, found_input=False)
        return
    terms = []
    ntrans = 0
    failing = set()
    for i, (c, o) in enumerate(zip(cases, obs)):
        recs = trace_records(o)
        ntrans += len(recs)
        res.count("trace_transitions", len(recs))
        res.count("trace_carry_branch", sum(1 for r in recs if r["branch"] == 0))
        res.count("trace_overflow_to_carry", sum(1 for r in recs if len(r["after"]) > len(r["before"])))
        res.evaluations += 1
        if recs:
            res.nontrivial.add(json.dumps(pair_strip(c), sort_keys=True))
        msg = trace_oracle(c, o, recs)
        if msg:
            failing.add(i)
            sig = pair_signature(c, o, msg)
            res.violation({"property": PROP, "kind": "implementation violates property oracle", "what": msg, "case": pair_strip(c),
                           "impl_obs": {"rows": o["rows"][:400], "traces": o.get("traces", [])[:100]}, "harness": "c01seq", "signature": sig},
                          found_input=True, signature=sig)
        terms.append((i, trace_to_coq(recs), "(@nil (list N))"))
    okc, bad, clog = C.run_coq_cases(PROP, REQ, "c01_mismatches", terms, shards=8, tag="trace")
    res.obligation(okc, "model evaluation on traces: " + clog[-1500:])
    res.obligation(not bad, "batch-assembly model reproduces every logged transition (%d transitions in %d sessions; mismatching cases %s)"
                   % (ntrans, len(cases), bad[:10]))
    res.extra["trace_transitions_validated"] = ntrans
    for i in [b for b in bad if b not in failing][:3]:
        recs = trace_records(obs[i])
        mo = C.coq_eval(PROP, REQ, "c01_model %s []" % trace_to_coq(recs), tag="trace_mismatch_%d" % i)
        res.violation({"property": PROP, "kind": "model and implementation disagree; no oracle failure found",
                       "correspondence": "Model/Batch.v assemble_carry / assemble_recv vs trace points in sessionx/actor.rs",
                       "theorems_relying_on_tie": "C01_assemble_order, C01_assemble_run_order, C01_end_to_end",
                       "case": pair_strip(cases[i]), "traces": obs[i].get("traces", [])[:100], "model_obs": C.parse_obs(mo) or mo[-1500:]},
                      found_input=False)


# ---------------------------------------------------------------- main

def to_coq(c):
    return {"pair": pair_to_coq, "egress": egress_to_coq, "ingress": ingress_to_coq}[c["k"]](c)


def oracle(c, o):
    return {"pair": classify, "egress": egress_oracle, "ingress": ingress_oracle}[c["k"]](c, o)


def nontrivial(c, o):
    if c["k"] == "pair":
        return any(r[0] in (6, 16) for r in o["rows"])
    return len(o["rows"]) > 2


def main(argv):
    tier, seed = C.tier_and_seed(argv)
    res = C.Result(PROP, tier, seed)
    res.rule = ("(A) random op sequences (push / push_priority / scripted partial writes, max_iovecs) on the real EgressBuffer+EgressDriver; "
                "(A) random enqueue/poll/cancel/pop schedules on the real IngressDriver + per-pipe queue, flushed at the end; "
                "(C) batch-assembly transitions logged by real tcp/ipc sessions with small SNDBATCH_*/SNDHWM and adversarial size mixes, "
                "each replayed on Model/Batch.v; (D) real socket pairs PUSH->PULL, DEALER->ROUTER, ROUTER(mandatory)->DEALER, REQ<->REP over "
                "tcp/ipc/inproc, current-thread and 2-thread runtimes, first send before connect / right after connect / after handshake, "
                "SNDHWM/RCVHWM in {1,2,7,256}, SNDBATCH_COUNT in {1,2,default}, SNDBATCH_BYTES in {64,300,4096,default}, slow receivers, "
                "payloads carrying (sender, seq, len, adler); corpus first; everything from random.Random(seed); "
                "non-trivial = at least one message received / at least one transition; distinct by case JSON")
    C.proof_stage(res, PROP, ["theories/Corr/C01Corr.vo"])
    from . import optlib
    optlib.slot_stage(res, PROP, theorems_note='C01_physical_ceiling_admits_logical_batch')
    res.extra["phase_s"] = {"proof": round(C.now() - res.t0, 1)}
    rng = random.Random(seed)
    quick = tier == "quick"
    # kind A
    acases = gen_egress(rng, 100 if quick else 2500) + gen_ingress(rng, 80 if quick else 2500)
    for c in acases:
        res.count("kind:" + c["k"])
    C.differential(res, PROP, "c01", acases, to_coq, REQ, "c01_mismatches", "(fun c => c01_model c [])", oracle,
                   nontrivial=nontrivial, theorems_note="C01_egress_stream, C01_ingress_exactly_once", shards=8, tag="kindA")
    res.extra["phase_s"]["kindA"] = round(C.now() - res.t0, 1)
    # kind C
    run_traces(res, gen_traces(rng, tier))
    res.extra["phase_s"]["kindC"] = round(C.now() - res.t0, 1)
    # kind D (corpus first)
    pcases = C.load_corpus(PROP, "pair") + duplex_cases(rng, tier) + gen_pairs(rng, tier, 70 if quick else 1000)
    for c in pcases:
        res.count("pair:%s:%s" % (c["pat"], c["tr"]))
        res.count("when:%d" % c["when"])
        res.count("threads:%d" % c["threads"])
    pobs = C.differential(res, PROP, "c01", pcases, pair_to_coq, REQ, "c01_mismatches", "(fun c => c01_model c [])", classify,
                   nontrivial=nontrivial, signature=pair_signature, shrink=pair_shrink, strip=pair_strip,
                   theorems_note=THEOREMS, shards=16, tag="pair", canon=pair_canon)
    for o in pobs or []:
        if o["rows"] and o["rows"][0][0] == 94:
            res.count("pair_setup_failed(not evaluated)")
    res.extra["phase_s"]["kindD"] = round(C.now() - res.t0, 1)
    return res.finish(assumptions=[
        "TCP / unix byte streams and the fibre channels (core->session pipe, inproc peer queue) are FIFO and reliable (modelled as lists)",
        "a dropped ReadyPipeSender::send future has either enqueued its item and reported Ready in the same poll, or not enqueued it (C08/C09)",
        "the schedule of stage activations inside tokio's select! is abstracted as 'any order'; io_uring sessions are not part of C01's composition",
        "heartbeat PING/PONG chunks are covered by C01_egress_stream but are not part of the C01_end_to_end composition",
    ])
