#!/usr/bin/env python3
"""Kind-E tie: regenerates coq/theories/Extracted/Tables.v from the Rust sources on every run.
Strict regexes; returns (ok, notes). On an unreadable pattern the old file is kept and ok=False
(the caller records it and relies on the behavioural correspondence only: fail open)."""
import os
import re
import sys

ROOT = os.environ.get("VERIF_ROOT") or os.path.dirname(os.path.dirname(os.path.abspath(__file__)))
REPO = os.environ.get("VERIF_REPO", "/repo")


def asc(s):
    return "[" + "; ".join(str(ord(c)) for c in s) + "]"


def extract():
    notes = []
    src = lambda p: open(os.path.join(REPO, "core/src", p)).read()
    greeting = src("protocol/zmtp/greeting.rs")
    engine = src("protocol/zmtp/engine.rs")
    command = src("protocol/zmtp/command.rs")
    codec = src("protocol/zmtp/codec.rs")
    inproc = src("transport/inproc/handshake.rs")
    consts = dict((m.group(1), int(m.group(2))) for m in re.finditer(r"pub const (V2_SOCKET_TYPE_\w+): u8 = (\d+);", greeting))
    if len(consts) != 11:
        raise ValueError("expected 11 V2_SOCKET_TYPE_* constants, found %d" % len(consts))
    # socket_type_code: "NAME" => V2_SOCKET_TYPE_X
    m = re.search(r"pub fn socket_type_code\(name: &str\) -> Option<u8> \{(.*?)\n\}", greeting, re.S)
    names = re.findall(r'"(\w+)" => (V2_SOCKET_TYPE_\w+),', m.group(1))
    if len(names) != 11:
        raise ValueError("socket_type_code arms: %d" % len(names))
    stype_names = sorted((consts[c], n) for n, c in names)
    # validate_v2_compatibility matches! table
    m = re.search(r"fn validate_v2_compatibility.*?let ok = matches!\(\s*\(own, peer_byte\),(.*?)\);\s*if !ok", engine, re.S)
    pairs = re.findall(r'\("(\w+)", (V2_SOCKET_TYPE_\w+)\)', m.group(1))
    if len(pairs) < 5:
        raise ValueError("v2 table too small")
    v2 = [(n, consts[c]) for n, c in pairs]
    # inproc table
    m = re.search(r"let compatible = match \(connector, binder\) \{(.*?)_ => false,", inproc, re.S)
    ip = re.findall(r"\(SocketType::(\w+), SocketType::(\w+)\)", m.group(1))
    if len(ip) < 4:
        raise ValueError("inproc table too small")
    flags = dict((m.group(1), int(m.group(2), 2)) for m in re.finditer(r"pub const ZMTP_FLAG_(\w+): u8 = 0b([01_]+);", command))
    if set(flags) != {"LONG", "MORE", "COMMAND"}:
        raise ValueError("flag constants")
    def const(text, name, pat=r"(\d[\d_ \*]*)"):
        m = re.search(r"const %s: \w+ = %s;" % (name, pat), text)
        if not m:
            raise ValueError("constant " + name)
        return eval(m.group(1).replace("_", ""))
    out = ["(* GENERATED on every run by vp/extract_tables.py from /repo/core/src - do not edit *)",
           "From RZ Require Import Base.Prelude.", "Local Open Scope N_scope.",
           "Definition x_stype_names : list (N * bytes) := [%s]." % "; ".join("(%d, %s)" % (c, asc(n)) for c, n in stype_names),
           "Definition x_v2_table : list (bytes * N) := [%s]." % "; ".join("(%s, %d)" % (asc(n), c) for n, c in v2),
           "Definition x_inproc_table : list (bytes * bytes) := [%s]." % "; ".join("(%s, %s)" % (asc(a.upper()), asc(b.upper())) for a, b in ip),
           "Definition x_flag_more : N := %d." % flags["MORE"],
           "Definition x_flag_long : N := %d." % flags["LONG"],
           "Definition x_flag_command : N := %d." % flags["COMMAND"],
           "Definition x_codec_max_frame : N := %d." % const(codec, "CODEC_MAX_FRAME_SIZE"),
           "Definition x_flat_threshold : N := %d." % const(engine, "FLAT_THRESHOLD"),
           "Definition x_max_frames : N := %d." % const(engine, "MAX_FRAMES_PER_MESSAGE"),
           "Definition x_greeting_length : N := %d." % const(greeting, "GREETING_LENGTH"),
           "Definition x_signature_length : N := %d." % const(greeting, "SIGNATURE_LENGTH"),
           "Definition x_v3_revision : N := %d." % int(re.search(r"pub const V3_REVISION: u8 = 0x([0-9a-fA-F]+);", greeting).group(1), 16),
           "Definition x_v2_revision : N := %d." % int(re.search(r"pub const V2_REVISION: u8 = 0x([0-9a-fA-F]+);", greeting).group(1), 16)]
    return "\n".join(out) + "\n", {"v2": v2, "inproc": [(a.upper(), b.upper()) for a, b in ip]}


def main():
    dst = os.path.join(ROOT, "coq/theories/Extracted/Tables.v")
    try:
        text, info = extract()
    except Exception as e:  # unreadable source pattern: fail open
        return False, "source pattern not readable: %r" % (e,), None
    old = open(dst).read() if os.path.exists(dst) else None
    if old != text:
        open(dst, "w").write(text)
    return True, "tables regenerated from source", info


if __name__ == "__main__":
    ok, note, info = main()
    print(ok, note)
    sys.exit(0 if ok else 1)
