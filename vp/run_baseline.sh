#!/bin/bash
# Runs the repository's pinned baseline suite (guard OFF) and compares with BASELINE.json.
# usage: run_baseline.sh [repo_dir]   (default /repo)
REPO=${1:-/repo}
OUT=/var/tmp/baseline/$(date +%s)
mkdir -p $OUT
cd $REPO
CARGO_NET_OFFLINE=true timeout 3000 cargo nextest run --workspace --no-fail-fast --tool-config-file pb:/w/lib/nextest.toml --profile pb --test-threads 8 --offline > $OUT/log.txt 2>&1
echo "exit $?" >> $OUT/log.txt
J=$(find $REPO/target/nextest -name '*.xml' -newer $OUT -print | head -1)
python3 - "$J" <<'PY'
import sys, json, re
import xml.etree.ElementTree as ET
b = json.load(open('/root/.vp/BASELINE.json'))
stable = set(b['stable_pass'])
passed = set()
failed = set()
if sys.argv[1]:
    root = ET.parse(sys.argv[1]).getroot()
    for tc in root.iter('testcase'):
        cls = tc.get('classname', '')
        name = tc.get('name', '')
        full = (cls + '::' + name) if not name.startswith(cls) else name
        bad = any(ch.tag in ('failure', 'error') for ch in tc)
        (failed if bad else passed).add(full)
miss = sorted(s for s in stable if not any(p.endswith(s) or s.endswith(p) or p == s for p in passed))
print("stable=%d passed=%d failed=%d missing_from_pass=%d" % (len(stable), len(passed), len(failed), len(miss)))
for m in miss[:30]:
    print("  NOT PASSED:", m)
PY
tail -5 $OUT/log.txt
echo "log: $OUT/log.txt"
