"""C04 - what a connection delivers depends on the bytes, not on read boundaries (engine level)."""
import random
from . import common as C
from . import englib as E

PROP = "C04"
THEOREMS = "C04_engine_chunk_independent, C04_engine_outputs_prefix_monotone, C04_handshake_tail_delivered"


def gen_msgs(rng, v2=False):
    msgs = []
    for _ in range(rng.choice([0, 1, 1, 2, 3, 5])):
        nf = rng.choice([1, 1, 1, 2, 3, 4])
        m = []
        for k in range(nf):
            n = rng.choice([0, 1, 2, 5, 8, 9, 30, 100, 254, 255, 256, 300])
            m.append({"more": k < nf - 1, "bytes": [rng.randrange(256) for _ in range(n)]})
        msgs.append(m)
    return msgs


def honest_transcript(rng):
    """returns (cfg, handshake_bytes, msgs)"""
    kind = rng.choice(["null", "null", "plain_s", "plain_c", "v2", "v2"])
    stype, peer = rng.choice([("DEALER", "ROUTER"), ("ROUTER", "DEALER"), ("PULL", "PUSH"), ("REP", "REQ"),
                              ("SUB", "PUB"), ("PAIR", "PAIR"), ("DEALER", "DEALER")])
    server = rng.random() < 0.5
    rid = [rng.randrange(1, 256) for _ in range(rng.choice([0, 0, 1, 5, 255]))] or None
    peer_rid = [rng.randrange(1, 256) for _ in range(rng.choice([0, 0, 1, 7, 255]))] or None
    cork = rng.random() < 0.2
    maxsz = rng.choice([-1, -1, 1000])
    if kind == "null":
        cfg = E.mk_cfg(server=server, stype=stype, rid=rid, cork=cork, maxsz=maxsz)
        hs = E.greeting("NULL", 0 if server else 1) + E.ready(peer, peer_rid)
    elif kind == "plain_s":
        cfg = E.mk_cfg(server=True, stype=stype, rid=rid, plain=True, user="admin", pw="secret", maxsz=maxsz)
        hs = E.greeting("PLAIN", 0) + E.hello(E.asc("admin"), E.asc("secret")) + E.ready(peer, peer_rid)
    elif kind == "plain_c":
        cfg = E.mk_cfg(server=False, stype=stype, rid=rid, plain=True, user="admin", pw="secret", maxsz=maxsz)
        hs = E.greeting("PLAIN", 1) + E.welcome() + E.ready(peer, peer_rid)
    else:
        cfg = E.mk_cfg(server=server, stype=stype, rid=rid, cork=cork, maxsz=maxsz)
        hs = E.greeting_v2(E.V2CODE[peer]) + E.frame(peer_rid or [])
    msgs = gen_msgs(rng, v2=(kind == "v2"))
    return cfg, hs, msgs, kind


def msgs_bytes(msgs):
    out = []
    for m in msgs:
        for f in m:
            out += E.frame(f["bytes"], more=f["more"])
    return out


def make_case(cfg, data, cuts, group, hs_len, msgs, kind):
    chunks = []
    pos = 0
    for k in cuts:
        chunks.append(data[pos:pos + k])
        pos += k
    chunks.append(data[pos:])
    inputs = [{"start": 1}] + [{"net": [E.raw(c)], "t": 0} for c in chunks]
    return {"cfg": cfg, "inputs": inputs, "group": group, "hs_len": hs_len, "msgs": msgs, "kind": kind,
            "cuts": cuts}


def gen_cases(rng, n, exhaustive_single_cuts=False):
    cases = []
    g = 0
    while len(cases) < n:
        cfg, hs, msgs, kind = honest_transcript(rng)
        # keep the admitted sizes within maxsz
        if cfg["maxsz"] >= 0:
            for m in msgs:
                for f in m:
                    f["bytes"] = f["bytes"][:cfg["maxsz"]]
        data = hs + msgs_bytes(msgs)
        g += 1
        total = len(data)
        cases.append(make_case(cfg, data, [], g, len(hs), msgs, kind))
        if exhaustive_single_cuts:
            pts = range(1, total)
        else:
            near = [len(hs) + d for d in (-3, -2, -1, 0, 1, 2, 3, 9)]
            pts = set(p for p in near if 0 < p < total)
            pts |= {rng.randrange(1, total) for _ in range(3)} if total > 1 else set()
        for p in pts:
            cases.append(make_case(cfg, data, [p], g, len(hs), msgs, kind))
        if total <= 300 and rng.random() < 0.5:
            cases.append(make_case(cfg, data, [1] * (total - 1), g, len(hs), msgs, kind))
        cuts = []
        left = total
        for _ in range(rng.randrange(2, 8)):
            k = rng.randrange(0, max(1, min(left, 80)) + 1)
            cuts.append(k)
            left -= k
            if left <= 0:
                break
        cases.append(make_case(cfg, data, cuts, g, len(hs), msgs, kind))
    return cases


def strip(c):
    return {"cfg": c["cfg"], "inputs": c["inputs"]}


def expected_rows(msgs):
    from .c03 import digest_py
    out = []
    for m in msgs:
        out.append([[int(f["more"]), 0] + digest_py(f["bytes"]) for f in m])
    return out


def oracle(c, o):
    rows = o["rows"]
    if o.get("panicked"):
        return "engine panicked on an honest transcript"
    msgs, other = E.deliveries(rows)
    if not any(r[0] == 5 for r in other):
        return "honest transcript did not complete the handshake"
    if any(r[0] in (8, 9) for r in other):
        return "honest transcript produced PeerError/panic"
    if msgs != expected_rows(c["msgs"]):
        return ("delivered messages differ from the messages in the byte stream (cuts=%s, handshake ends at byte %d)"
                % (c["cuts"][:6], c["hs_len"]))
    return None


def group_oracle(cases, obs):
    return []


def nontrivial(c, o):
    return any(r[0] == 6 for r in o["rows"])


# ---------------------------------------------------------------- stack level (real sockets, raw TCP peer)

def stack_cases(rng, n, backends=("tokio", "uring")):
    cases = []
    while len(cases) < n:
        kind = rng.choice(["null", "null", "v2", "plain_s"])
        # PULL only: DEALER/ROUTER/REQ/REP apply envelope processing on top of the engine's deliveries (C11)
        stype, peer = ("PULL", "PUSH")
        peer_rid = [rng.randrange(1, 256) for _ in range(rng.choice([0, 0, 3]))] or None
        opts = {}
        if kind == "null":
            cfg = E.mk_cfg(server=True, stype=stype)
            hs = E.greeting("NULL", 0) + E.ready(peer, peer_rid)
        elif kind == "plain_s":
            cfg = E.mk_cfg(server=True, stype=stype, plain=True, user="admin", pw="secret")
            opts = {"PLAIN_SERVER": 1, "PLAIN_USERNAME": "admin", "PLAIN_PASSWORD": "secret"}
            hs = E.greeting("PLAIN", 0) + E.hello(E.asc("admin"), E.asc("secret")) + E.ready(peer, peer_rid)
        else:
            cfg = E.mk_cfg(server=True, stype=stype)
            hs = E.greeting_v2(E.V2CODE[peer]) + E.frame(peer_rid or [])
        msgs = gen_msgs(rng)
        while not msgs:
            msgs = gen_msgs(rng)
        data = hs + msgs_bytes(msgs)
        total = len(data)
        patterns = [[], [len(hs)], [len(hs) - 1], [len(hs) + 1], [rng.randrange(1, total)],
                    [rng.randrange(1, len(hs)), rng.randrange(0, 40)]]
        cuts = rng.choice(patterns)
        for be in backends:
            o = dict(opts)
            if be == "uring":
                o["IO_URING_SESSION_ENABLED"] = 1
            chunks = []
            pos = 0
            for k in cuts:
                chunks.append(data[pos:pos + k])
                pos += k
            chunks.append(data[pos:])
            cases.append({"k": "rawpeer", "stype": stype, "opts": o, "writes": [[E.raw(c)] for c in chunks if c],
                          "gap_ms": rng.choice([0, 0, 15]), "expect_msgs": len(msgs), "cfg": cfg, "msgs": msgs,
                          "cuts": cuts, "hs_len": len(hs), "kind": kind, "backend": be, "data": data})
    return cases


def eof_cases(rng, n, backends=("tokio", "uring")):
    """the peer sends its messages and closes; the application starts reading late and slowly, so the socket's queue (RCVHWM 8) is full
    and the session still holds decoded messages when the EOF arrives: nothing may be lost, whatever the write cuts"""
    cases = []
    while len(cases) < n:
        cfg = E.mk_cfg(server=True, stype="PULL")
        hs = E.greeting("NULL", 0) + E.ready("PUSH")
        msgs = []
        for i in range(rng.choice([12, 30, 60])):
            msgs.append([{"more": False, "bytes": [i % 256] + [rng.randrange(256) for _ in range(rng.choice([0, 5, 40]))]}])
        data = hs + msgs_bytes(msgs)
        cuts = rng.choice([[], [len(hs)], [len(hs) + 7], [len(data) - 1], [len(hs), (len(data) - len(hs)) // 2]])
        for be in backends:
            o = {"RCVHWM": 8}
            if be == "uring":
                o["IO_URING_SESSION_ENABLED"] = 1
            chunks, pos = [], 0
            for k in cuts:
                chunks.append(data[pos:pos + k])
                pos += k
            chunks.append(data[pos:])
            cases.append({"k": "rawpeer", "stype": "PULL", "opts": o, "writes": [[E.raw(c)] for c in chunks if c],
                          "gap_ms": rng.choice([0, 10]), "expect_msgs": len(msgs), "cfg": cfg, "msgs": msgs, "cuts": cuts,
                          "hs_len": len(hs), "kind": "eof", "backend": be, "data": data, "close_after_write": True,
                          "app_delay_ms": rng.choice([120, 250]), "app_pace_ms": rng.choice([2, 4])})
    return cases


SIG_ERRTAIL = "C04:messages-before-error-in-same-read-dropped"


def errtail_cases(backends=("tokio", "uring")):
    """a stream that ENDS IN A PROTOCOL ERROR (outside the property's quantifier, which ranges over handshake + data
    transcripts; inside its general statement): the messages before the error are determined by the bytes, so they must not
    depend on whether the error arrives in the same read"""
    cases = []
    cfg = E.mk_cfg(server=True, stype="PULL")
    hs = E.greeting("NULL", 0) + E.ready("PUSH")
    msgs = [[{"more": False, "bytes": [i] * 10}] for i in (1, 2, 3)]
    bad = E.frame([5] + E.asc("ERROR") + [0], cmd=True)
    body = msgs_bytes(msgs)
    for be in backends:
        o = {"IO_URING_SESSION_ENABLED": 1} if be == "uring" else {}
        for name, chunks, gap in (("one_write", [hs + body + bad], 0), ("split", [hs, body, bad], 80), ("hs_then_rest", [hs, body + bad], 80)):
            cases.append({"k": "rawpeer", "stype": "PULL", "opts": o, "writes": [[E.raw(c)] for c in chunks], "gap_ms": gap,
                          "expect_msgs": 3, "cfg": cfg, "msgs": msgs, "cuts": name, "hs_len": len(hs), "kind": "errtail",
                          "backend": be, "data": hs + body + bad})
    return cases


def stack_strip(c):
    d = {k: c[k] for k in ("k", "stype", "opts", "writes", "gap_ms", "expect_msgs")}
    for k in ("close_after_write", "app_delay_ms", "app_pace_ms"):
        if k in c:
            d[k] = c[k]
    return d


def stack_to_coq(c):
    return "(%s, [%s])" % (E.cfg_coq(c["cfg"]), E.piece_coq(E.raw(c["data"])))


def stack_oracle(c, o):
    rows = o["rows"]
    if rows and rows[0][0] in (95, 96, 97):
        return "scenario crashed or hung (code %d)" % rows[0][0]
    msgs, _ = E.deliveries(rows)
    if msgs != expected_rows(c["msgs"]):
        return ("application did not receive exactly the messages the peer sent: got %d of %d (backend %s, write cuts %s, "
                "handshake ends at byte %d)" % (len(msgs), len(c["msgs"]), c["backend"], c["cuts"], c["hs_len"]))
    return None


def stack_signature(c, o, msg):
    if c.get("kind") == "errtail":
        return SIG_ERRTAIL
    return None


def main(argv):
    tier, seed = C.tier_and_seed(argv)
    res = C.Result(PROP, tier, seed)
    res.rule = ("honest peer transcripts (v3 NULL, v3 PLAIN either role, v2) followed by 0..5 data messages, each run unchunked, "
                "cut at single positions around the end of the handshake (all positions in thorough), byte-by-byte and at random "
                "multi-cuts, against the real ZmtpEngine and the model; non-trivial = at least one delivery; distinct by case JSON")
    C.proof_stage(res, PROP, ["theories/Corr/EngCorr.vo"])
    rng = random.Random(seed)
    cases = gen_cases(rng, 350 if tier == "quick" else 2500, exhaustive_single_cuts=(tier != "quick"))
    for c in cases:
        res.count("kind:" + c["kind"])
        res.count("chunks:%s" % min(len(c["inputs"]) - 1, 10))
    C.differential(res, PROP, "eng", cases, E.case_coq, E.REQ, "eng_mismatches",
                   "(fun '(c, o, i) => eng_model c o i)", oracle, nontrivial=nontrivial, theorems_note=THEOREMS,
                   strip=strip)
    scs = C.load_corpus(PROP, "stack") + stack_cases(rng, 40 if tier == "quick" else 300) + eof_cases(rng, 12 if tier == "quick" else 80) + errtail_cases()
    for c in scs:
        res.count("stack:%s:%s" % (c["backend"], c["kind"]))
    C.differential(res, PROP, "stack", scs, stack_to_coq, E.REQ, "stack_mismatches",
                   "(fun '(c, p) => stack_model c p)", stack_oracle, nontrivial=lambda c, o: True,
                   theorems_note="C04_actor (session forwards the engine's deliveries), C04_session_eof_loses_nothing, C04_session_eof_segmentation_independent",
                   strip=stack_strip, tag="stack", signature=stack_signature)
    # encrypted mechanisms (opaque in the engine model): the server's first data record arrives in the same read as its
    # READY, in a read of its own, or cut anywhere in between - the client must deliver the same single message
    from . import c18
    ecs = []
    for mech in ("curve", "noise"):
        for (join, cut) in [(True, 0), (False, 0)] + [(True, k) for k in ((1, 30, 60) if tier == "quick" else (1, 2, 9, 20, 30, 41, 60, 80, 100))]:
            ecs.append({"k": "early", "mech": mech, "join": join, "cut": cut, "seed": rng.randrange(1, 60000),
                        "msg": c18.gen_msg(rng, c18.SMALL)})
    eobs, elog = C.run_harness("c18", ecs, PROP, tag="early")
    if eobs is None or len(eobs) != len(ecs):
        res.obligation(False, "encrypted early-data scenarios could not run: " + str(elog)[-500:])
    else:
        for c, o in zip(ecs, eobs):
            res.evaluations += 1
            res.count("early:%s:%s" % (c["mech"], "joined" if c["join"] else "separate"))
            res.nontrivial.add("early:%d" % len(res.nontrivial))
            r = c18.oracle(c, o)
            if r:
                res.violation({"property": PROP, "kind": "implementation violates property oracle", "what": "%s handshake: %s" % (c["mech"], r[0]),
                               "case": c, "impl_obs": o, "harness": "c18"}, found_input=True)
                break
    return res.finish(assumptions=["engine level only in this check; the session actor's forwarding of engine deliveries is checked by the stack-level scenarios (see DESIGN)"])
