"""C06 - a configured security mechanism cannot be bypassed or downgraded (engine level + stack)."""
import random
from . import common as C
from . import englib as E
from . import c04

PROP = "C06"
THEOREMS = "C06_no_bypass, C06_invariant_reachable, C06_plain_auth_only_by_valid_hello, C06_v2_refused_when_secured"
USER, PW = "admin", "s3cret"
KEY = list(range(1, 33))


def local_cfg(rng):
    mech = rng.choice(["plain", "plain", "curve", "noise"])
    server = rng.random() < 0.6
    stype = rng.choice(["DEALER", "ROUTER", "PULL", "PUSH", "REP", "REQ", "PUB", "SUB"])
    cfg = E.mk_cfg(server=server, stype=stype, allow_v2=rng.random() < 0.7,
                   plain=(mech == "plain"), curve=(mech == "curve"), noise=(mech == "noise"),
                   user=USER if mech == "plain" else None, pw=PW if mech == "plain" else None,
                   maxsz=-1)
    if mech == "curve":
        cfg["curve_sk"] = KEY
        cfg["curve_pk"] = KEY[::-1]
    if mech == "noise":
        cfg["noise_sk"] = KEY
        cfg["noise_pk"] = KEY[::-1]
    return cfg, mech


def attacker_items(rng, k, knows=False):
    items = []
    for _ in range(k):
        r = rng.random()
        if r < 0.2:
            items.append(("ready", E.ready(rng.choice(E.STYPES), rng.choice([None, [1, 2, 3]]))))
        elif r < 0.4:
            if knows and rng.random() < 0.5:
                u, p = E.asc(USER), E.asc(PW)
            else:
                u = E.asc(rng.choice(["admin", "root", "", "adm", "admin "]))
                p = E.asc(rng.choice(["", "secret", "s3cre", "s3cret ", "S3CRET"]))
            items.append(("hello", E.hello(u, p)))
        elif r < 0.46:
            # malformed / truncated HELLO bodies: empty, length bytes only, every prefix of the RIGHT encoding
            # (presenting a prefix of the credentials is not presenting the credentials), inconsistent lengths
            full = [len(USER)] + E.asc(USER) + [len(PW)] + E.asc(PW)
            body = rng.choice([[], [0], [0, 0][:rng.randrange(1, 3)], full[:rng.randrange(0, len(full))],
                               full[:rng.randrange(0, len(full))], [len(USER)] + E.asc(USER),
                               [len(USER)] + E.asc(USER) + [len(PW)] + E.asc(PW)[:3],
                               [len(USER)] + E.asc(USER) + [3] + E.asc(PW)[:3], [200] + E.asc(USER), full[:-1] + [full[-1] ^ 1]])
            items.append(("hello_raw", E.frame([5] + E.asc("HELLO") + body, cmd=True)))
        elif r < 0.52:
            items.append(("welcome", E.welcome()))
        elif r < 0.58:
            items.append(("initiate", E.frame([8] + E.asc("INITIATE") + [rng.randrange(256) for _ in range(rng.randrange(0, 40))], cmd=True)))
        elif r < 0.66:
            items.append(("error", E.error_cmd([3, 65, 66, 67])))
        elif r < 0.74:
            items.append(("unknown", E.frame([3] + E.asc("FOO") + [1, 2], cmd=True)))
        elif r < 0.9:
            items.append(("data", E.frame([rng.randrange(256) for _ in range(rng.randrange(0, 20))], more=rng.random() < 0.2)))
        else:
            items.append(("v2id", E.frame([rng.randrange(1, 256) for _ in range(rng.randrange(0, 6))])))
    return items


def directed_cases():
    """PLAIN listener: every prefix of the right HELLO body (incl. the empty body), off-by-one lengths and a flipped
    last byte, each followed by READY and a data frame - none of them presents the credentials"""
    full = [len(USER)] + E.asc(USER) + [len(PW)] + E.asc(PW)
    bodies = [full[:k] for k in range(len(full))] + [full[:-1] + [full[-1] ^ 1], full[:-1] + [0], [len(USER) + 1] + full[1:],
              full[:len(USER) + 1] + [len(PW) - 1] + E.asc(PW)[:-1], [0, 0], [0, len(PW)] + E.asc(PW)]
    out = []
    for stype in ("PULL", "ROUTER"):
        cfg = E.mk_cfg(server=True, stype=stype, plain=True, user=USER, pw=PW)
        for b in bodies:
            data = (E.greeting("PLAIN", 0) + E.frame([5] + E.asc("HELLO") + b, cmd=True) + E.ready("PUSH" if stype == "PULL" else "DEALER")
                    + E.frame([1, 2, 3]))
            c = c04.make_case(cfg, data, [], 0, 0, [], "atk:plain:rev3:directed-hello")
            c["inputs"].append({"app": [{"more": False, "bytes": [1, 2, 3]}]})
            c["opaque"] = False
            c["knows"] = False
            c["mech"] = "plain"
            out.append(c)
    return out


def gen_cases(rng, n):
    cases = directed_cases()
    while len(cases) < n:
        cfg, mech = local_cfg(rng)
        knows = (mech == "plain") and rng.random() < 0.15
        rev = rng.choice([1, 1, 2, 3, 3, 3, 3, 4])
        mname = rng.choice(["NULL", "NULL", "PLAIN", "CURVE", "NOISE_XX", "JUNK", mech.upper() if mech != "noise" else "NOISE_XX"])
        if rev == 1:
            g = E.greeting_v2(rng.choice(list(range(11)) + [E.V2CODE.get({"DEALER": "ROUTER", "PULL": "PUSH", "REP": "REQ", "SUB": "PUB", "PUSH": "PULL", "REQ": "REP", "ROUTER": "DEALER", "PUB": "SUB"}[cfg["stype"]], 0)] * 6))
        else:
            g = E.greeting(mname, rng.choice([0, 1]), major=rev)
        items = attacker_items(rng, rng.randrange(0, 6), knows)
        data = g + sum([b for (_, b) in items], [])
        cuts = []
        if rng.random() < 0.5 and len(data) > 2:
            cuts = sorted(rng.sample(range(1, len(data)), min(len(data) - 1, rng.randrange(1, 4))))
            cuts = [cuts[0]] + [b - a for a, b in zip(cuts, cuts[1:])]
        c = c04.make_case(cfg, data, cuts, 0, 0, [], "atk:%s:rev%d:%s" % (mech, rev, mname))
        c["inputs"].append({"app": [{"more": False, "bytes": [1, 2, 3]}]})
        c["opaque"] = mech in ("curve", "noise")
        c["knows"] = knows
        c["mech"] = mech
        cases.append(c)
    return cases


def strip(c):
    return {"cfg": c["cfg"], "inputs": c["inputs"], "opaque": c.get("opaque", False)}


def oracle(c, o):
    if o.get("panicked") or any(r == [9] for r in o["rows"]):
        return "engine panicked on attacker input"
    if c.get("knows"):
        return None
    for r in o["rows"]:
        if r[0] == 5:
            return "HandshakeComplete reported to a %s-secured socket for a peer that never authenticated (%s)" % (c["mech"], c["kind"])
        if r[0] == 6:
            return "application message delivered from an unauthenticated peer (%s)" % c["kind"]
    if o["rows"][-1][1] == 4:
        return "engine reached the Data phase without authentication (%s)" % c["kind"]
    return None


def signature(c, o, msg):
    return None


# ---------------------------------------------------------------- stack level: real PLAIN listener, raw attacker

def stack_cases(rng):
    cases = []
    opts = {"PLAIN_SERVER": 1, "PLAIN_USERNAME": USER, "PLAIN_PASSWORD": PW}
    atk = [
        ("v2_downgrade", E.greeting_v2(8) + E.frame([]) + E.frame([1, 2, 3])),
        ("null_mech", E.greeting("NULL", 0) + E.ready("PUSH") + E.frame([1, 2, 3])),
        ("plain_wrong_pw", E.greeting("PLAIN", 0) + E.hello(E.asc(USER), E.asc("nope")) + E.ready("PUSH") + E.frame([1, 2, 3])),
        ("plain_skip_hello", E.greeting("PLAIN", 0) + E.ready("PUSH") + E.frame([1, 2, 3])),
        ("plain_data_first", E.greeting("PLAIN", 0) + E.frame([1, 2, 3]) + E.hello(E.asc(USER), E.asc(PW)) + E.ready("PUSH")),
    ]
    for name, data in atk:
        for be in ("tokio", "uring"):
            o = dict(opts)
            if be == "uring":
                o["IO_URING_SESSION_ENABLED"] = 1
            cases.append({"k": "rawpeer", "stype": "PULL", "opts": o, "writes": [[E.raw(data)]], "gap_ms": 0,
                          "expect_msgs": 0, "recv_timeout_ms": 400, "name": name, "backend": be,
                          "cfg": E.mk_cfg(server=True, stype="PULL", plain=True, user=USER, pw=PW), "data": data})
    good = E.greeting("PLAIN", 0) + E.hello(E.asc(USER), E.asc(PW)) + E.ready("PUSH") + E.frame([1, 2, 3])
    cases.append({"k": "rawpeer", "stype": "PULL", "opts": dict(opts), "writes": [[E.raw(good)]], "gap_ms": 0,
                  "expect_msgs": 1, "recv_timeout_ms": 400, "name": "plain_ok", "backend": "tokio",
                  "cfg": E.mk_cfg(server=True, stype="PULL", plain=True, user=USER, pw=PW), "data": good})
    return cases


def stack_oracle(c, o):
    rows = o["rows"]
    if rows and rows[0][0] in (95, 96, 97):
        return "scenario crashed or hung (code %d)" % rows[0][0]
    got = rows[-1][1]
    if c["name"] == "plain_ok":
        return None if got == 1 else "an authenticated PLAIN peer's message was not delivered"
    if got > 0:
        return "PLAIN-secured listener delivered %d message(s) from an unauthenticated raw peer (%s, backend %s)" % (got, c["name"], c["backend"])
    return None


# ---------------------------------------------------------------- real CURVE / NOISE_XX handshakes between two engines
_P = 2 ** 255 - 19


def x25519_pub(sk):
    """X25519(sk, 9) (RFC 7748), to give the two real engines key pairs that do / do not belong together"""
    k = bytearray(sk)
    k[0] &= 248
    k[31] &= 127
    k[31] |= 64
    k = int.from_bytes(k, "little")
    x1, x2, z2, x3, z3, swap = 9, 1, 0, 9, 1, 0
    for t in reversed(range(255)):
        kt = (k >> t) & 1
        swap ^= kt
        if swap:
            x2, x3, z2, z3 = x3, x2, z3, z2
        swap = kt
        a = (x2 + z2) % _P
        aa = a * a % _P
        b = (x2 - z2) % _P
        bb = b * b % _P
        e = (aa - bb) % _P
        c = (x3 + z3) % _P
        d = (x3 - z3) % _P
        da = d * a % _P
        cb = c * b % _P
        x3 = (da + cb) ** 2 % _P
        z3 = x1 * (da - cb) ** 2 % _P
        x2 = aa * bb % _P
        z2 = e * (aa + 121665 * e) % _P
    if swap:
        x2, x3, z2, z3 = x3, x2, z3, z2
    return list((x2 * pow(z2, _P - 2, _P) % _P).to_bytes(32, "little"))


def keypair_cases(rng, n):
    """two REAL engines (harness `pair`), mechanism CURVE or NOISE_XX: the client is configured with the server's true
    public key, or with a key that is not the server's; every delivery schedule must end the same way"""
    out = []
    for i in range(n):
        mech = ["curve", "noise"][i % 2]
        sk_c = [rng.randrange(256) for _ in range(32)]
        sk_s = [rng.randrange(256) for _ in range(32)]
        sk_x = [rng.randrange(256) for _ in range(32)]
        right = (i // 2) % 2 == 0
        true_pk = x25519_pub(sk_s)
        if right:
            pk_for_client = true_pk
        else:
            # a key that is not the server's: an unrelated key pair's, or the true key with one bit flipped at either end or
            # in the middle, with two different bytes swapped (same XOR / same byte sum), reversed, rotated by one byte
            variant = (i // 4) % 7
            pk = list(true_pk)
            if variant == 0:
                pk = x25519_pub(sk_x)
            elif variant in (1, 2, 3):
                pos = {1: 0, 2: 15, 3: 31}[variant]
                pk[pos] ^= 1 << rng.randrange(8)
            elif variant == 4:
                a_, b_ = 0, next(j for j in range(1, 32) if pk[j] != pk[0])
                pk[a_], pk[b_] = pk[b_], pk[a_]
            elif variant == 5:
                pk = pk[::-1] if pk[::-1] != pk else x25519_pub(sk_x)
            else:
                pk = pk[1:] + pk[:1] if pk[1:] + pk[:1] != pk else x25519_pub(sk_x)
            pk_for_client = pk
        a = E.mk_cfg(server=False, stype="PUSH", curve=(mech == "curve"), noise=(mech == "noise"))
        b = E.mk_cfg(server=True, stype="PULL", curve=(mech == "curve"), noise=(mech == "noise"))
        a[mech + "_sk"], a[mech + "_pk"] = sk_c, pk_for_client
        b[mech + "_sk"] = sk_s
        if mech == "noise" and rng.random() < 0.5:
            b["noise_pk"] = x25519_pub(sk_c)             # the server may pin the client's static key as well
        sched = [[rng.randrange(2), rng.choice([1, 3, 17, 64, 200, 10 ** 6])] for _ in range(rng.randrange(0, 30))]
        out.append({"a": a, "b": b, "sched": sched, "mech": mech, "right": right})
    return out


def keypair_oracle(c, o):
    rows = o["rows"]
    if not rows or rows[0][0] != 70:
        return "pair harness did not run: %s" % rows[:2]
    cut = [i for i, r in enumerate(rows) if r[0] == 71][0]
    app_a = [r for r in rows[1:cut] if r[0] in (5, 6, 8, 9)]
    app_b = [r for r in rows[cut + 1:-1] if r[0] in (5, 6, 8, 9)]
    done_a = any(r[0] == 5 for r in app_a)
    done_b = any(r[0] == 5 for r in app_b)
    if any(r[0] == 9 for r in app_a + app_b):
        return "an engine panicked during a %s handshake" % c["mech"]
    if c["right"]:
        if not (done_a and done_b):
            return "%s handshake between matching key pairs did not complete on both sides (client %s, server %s)" % (c["mech"], done_a, done_b)
        return None
    if done_a or done_b:
        return ("%s handshake COMPLETED (client side %s, server side %s) although the client was configured with a public key that is "
                "not the server's: the configured mechanism does not authenticate the peer" % (c["mech"], done_a, done_b))
    return None


def main(argv):
    tier, seed = C.tier_and_seed(argv)
    res = C.Result(PROP, tier, seed)
    res.rule = ("attacker streams against engines configured with PLAIN/CURVE/NOISE_XX (either role, ALLOW_ZMTP2 both ways, 8 socket types): "
                "greeting revision in {1,2,3,4} x mechanism field in {NULL,PLAIN,CURVE,NOISE_XX,junk} x as-server, then up to 5 of "
                "{READY, HELLO(wrong creds), WELCOME, INITIATE, ERROR, unknown, data, v2 identity}, re-chunked, then an application send; "
                "15% of PLAIN cases know the credentials (model correspondence only); non-trivial = engine emitted an action; distinct by JSON")
    C.proof_stage(res, PROP, ["theories/Corr/EngCorr.vo"])
    from . import optlib
    optlib.options_stage(res, PROP, [44, 45, 46, 47, 49, 48, 1202], n_quick=330, theorems_note='C06_mech_option_enables_security, C06_configured_mechanism_stays, C06_noise_flag_semantics, C06_configured_options_no_bypass')
    rng = random.Random(seed)
    cases = C.load_corpus(PROP, "eng") + gen_cases(rng, 500 if tier == "quick" else 6000)
    for c in cases:
        res.count("kind:" + ":".join(c["kind"].split(":")[:3]))
    C.differential(res, PROP, "eng", cases, E.case_coq, E.REQ, "eng_mismatches",
                   "(fun '(c, o, i) => eng_model c o i)", oracle,
                   nontrivial=lambda c, o: any(r[0] not in (90, 99) for r in o["rows"]),
                   theorems_note=THEOREMS, strip=strip, signature=signature,
                   canon=lambda c, rows: E.opaque_summary(rows) if c.get("opaque") else rows)
    scs = stack_cases(rng)
    C.differential(res, PROP, "stack", scs, c04.stack_to_coq, E.REQ, "stack_mismatches",
                   "(fun '(c, p) => stack_model c p)", stack_oracle, nontrivial=lambda c, o: True,
                   theorems_note="C06_no_bypass (session level)", strip=c04.stack_strip, tag="stack")
    # real-crypto gate: matching / non-matching key pairs between two real engines (property oracle; the mechanisms are
    # opaque in the model: this is what stands behind its premise mech_sound)
    kcs = keypair_cases(rng, 56 if tier == "quick" else 280)
    kobs, klog = C.run_harness("pair", [{k: c[k] for k in ("a", "b", "sched")} for c in kcs], PROP, tag="keys")
    if kobs is None or len(kobs) != len(kcs):
        res.obligation(False, "key-pair scenarios could not run: " + str(klog)[-500:])
    else:
        for c, o in zip(kcs, kobs):
            res.evaluations += 1
            res.count("keys:%s:%s" % (c["mech"], "matching" if c["right"] else "foreign-server-key"))
            res.nontrivial.add("keys:%d" % len(res.nontrivial))
            msg = keypair_oracle(c, o)
            if msg:
                res.violation({"property": PROP, "kind": "implementation violates property oracle", "what": msg, "case": c,
                               "impl_obs": o, "harness": "pair"}, found_input=True)
                break
    return res.finish(assumptions=["CURVE and NOISE_XX are opaque in the model: an attacker without keys cannot complete them (mech_sound); "
                                   "for those configurations only the class of each action is compared (sends/errors without content)"])
