"""C02 - multipart messages stay whole, contiguous, correctly flagged. See DESIGN.md section 6 (C02)."""
import json
import random
from . import common as C

PROP = "C02"
REQ = ("From RZ Require Import Base.Prelude Model.Codec Model.RouterMap Model.Envelope Model.FrameBatch Model.SendFlags "
       "Model.Ingress Corr.C03Corr Corr.C02Corr.")
THEOREMS = ("C02_recv_contiguous, C02_recv_contiguous_until_close, C02_recv_contiguous_addressed, "
            "C02_recv_multipart_only, C02_wire_is_one_message, "
            "C02_send_sound, C02_send_never_truncates, C02_wire_reassembled, C02_overlong_wire_refused, "
            "C02_frame_limit_*, C02_framebatch_*")

PATTERNS = {"push_pull": 0, "dealer_router": 1, "router_dealer": 2, "dealer_dealer": 3, "dealer_rep": 4, "rep_req": 5,
            "pub_sub": 6}
RECEIVER = {"push_pull": "PULL", "dealer_router": "ROUTER", "router_dealer": "DEALER", "dealer_dealer": "DEALER",
            "dealer_rep": "REP", "rep_req": "REQ", "pub_sub": "SUB"}
SENDER = {"push_pull": "PUSH", "dealer_router": "DEALER", "router_dealer": "ROUTER", "dealer_dealer": "DEALER",
          "dealer_rep": "DEALER", "rep_req": "REP", "pub_sub": "PUB"}

SIG_REQREP = "C02:reqrep-recv-first-frame-only"
SIG_SEND_PANIC = "C02:over-255-frames-panics-at-sender"
SIG_ROUTER_RECV_PANIC = "C02:router-recv-255-frames-panics"
SIG_INPROC_PANIC = "C02:inproc-256-parts-panics-reader-task"
SIG_PUSH_PARTS = "C02:push-send-parts-spread-over-peers"


# ------------------------------------------------------------------ generators

def gen_fb_case(rng, big=False):
    ops = []
    n = 0          # tracked length (None after an expected panic)
    steps = rng.randrange(3, 14)
    for _ in range(steps):
        r = rng.random()
        if r < 0.12:
            a = rng.choice([0, 1, 2, 3, 4, 5, 254, 255, 256, 257, 300]) if big or rng.random() < 0.3 else rng.randrange(0, 8)
            ops.append({"o": "from", "a": a, "x": rng.randrange(1000)})
            n = a
        elif r < 0.2:
            a = rng.choice([0, 1, 2, 3, 7, 255, 256, 300]) if rng.random() < 0.5 else rng.randrange(0, 9)
            ops.append({"o": "cap", "a": a})
            n = 0
        elif r < 0.25:
            ops.append({"o": "new"})
            n = 0
        elif r < 0.45:
            ops.append({"o": "push", "x": rng.randrange(60000)})
            n += 1
        elif r < 0.58:
            a = rng.randrange(0, n + 2) if rng.random() < 0.85 else n + rng.randrange(2, 5)
            ops.append({"o": "insert", "a": a, "x": rng.randrange(60000)})
            n += 1
        elif r < 0.72:
            a = rng.randrange(0, n + 1) if n and rng.random() < 0.9 else n + rng.randrange(0, 3)
            ops.append({"o": "remove", "a": a})
            n = max(0, n - 1)
        elif r < 0.84:
            ops.append({"o": "pop"})
            n = max(0, n - 1)
        elif r < 0.93:
            a = rng.choice([0, 1, 2, 3, 10, 250, 253, 254, 255, 256]) if big or rng.random() < 0.3 else rng.randrange(0, 6)
            ops.append({"o": "extend", "a": a, "x": rng.randrange(1000)})
            n += a
        else:
            ops.append({"o": "index", "a": rng.randrange(0, n + 1)})
    return {"k": "fb", "ops": ops}


def fb_boundary_cases():
    out = []
    for a in (0, 1, 2, 3, 254, 255, 256, 300):
        out.append({"k": "fb", "ops": [{"o": "from", "a": a, "x": 7}, {"o": "push", "x": 1}, {"o": "pop"}, {"o": "pop"}]})
        out.append({"k": "fb", "ops": [{"o": "extend", "a": a, "x": 7}, {"o": "insert", "a": 0, "x": 1}, {"o": "remove", "a": 0}]})
    out.append({"k": "fb", "ops": [{"o": "from", "a": 254, "x": 0}, {"o": "insert", "a": 254, "x": 9}, {"o": "insert", "a": 1, "x": 9}]})
    out.append({"k": "fb", "ops": [{"o": "cap", "a": 255}, {"o": "push", "x": 3}, {"o": "pop"}, {"o": "push", "x": 4}]})
    out.append({"k": "fb", "ops": [{"o": "cap", "a": 256}]})
    out.append({"k": "fb", "ops": [{"o": "cap", "a": 3}, {"o": "index", "a": 0}]})
    return out


def ing_frames(bid, n, flags="ok"):
    """frames of batch `bid`: data [bid, idx, n]; flags ok / last_more / mid_nomore"""
    fs = []
    for i in range(n):
        more = i < n - 1
        if flags == "last_more" and i == n - 1:
            more = True
        if flags == "mid_nomore" and n > 2 and i == n // 2 - 0 and i < n - 1:
            more = False
        fs.append({"d": [bid % 256, i % 256, n % 256], "m": more})
    return fs


def gen_ing_case(rng, wf=True):
    pipes = rng.sample([1, 2, 3, 5, 8], rng.choice([1, 2, 3]))
    ops = []
    handles = []          # pipe of each registration op
    bid = 0
    for p in pipes:
        ops.append({"o": "reg", "p": p})
        handles.append(p)
    for _ in range(rng.randrange(5, 22)):
        r = rng.random()
        if r < 0.32:
            bid += 1
            n = rng.choice([1, 1, 2, 2, 3, 3, 4, 5, 7]) if rng.random() < 0.93 else rng.choice([200, 250])
            flags, shape = "ok", 0
            if not wf:
                q = rng.random()
                if q < 0.25:
                    flags = "last_more"
                elif q < 0.45:
                    flags = "mid_nomore"
                elif q < 0.55:
                    n = 0
                if rng.random() < 0.3:
                    shape = 1
            ops.append({"o": "enq", "h": rng.randrange(len(handles)), "shape": shape, "f": ing_frames(bid, n, flags)})
        elif r < 0.62:
            ops.append({"o": "recv"})
        elif r < 0.82:
            ops.append({"o": "recvmp"})
        elif r < 0.9:
            p = rng.choice([1, 2, 3, 5, 8, 13])
            ops.append({"o": "dereg", "p": p})
        elif r < 0.97:
            p = rng.choice([1, 2, 3, 5, 8, 13])
            ops.append({"o": "reg", "p": p})
            handles.append(p)
        else:
            ops.append({"o": "close"})
    for _ in range(rng.randrange(0, 6)):
        ops.append({"o": rng.choice(["recv", "recvmp"])})
    return {"k": "ing", "ops": ops, "wf": wf}


def ing_fixed_cases():
    A = ing_frames(1, 3)
    B = ing_frames(2, 1)
    return [
        # repaired finding 1: another pipe detaches while a message is half read - the message must stay whole
        {"k": "ing", "wf": True, "ops": [{"o": "reg", "p": 1}, {"o": "reg", "p": 3}, {"o": "enq", "h": 0, "shape": 0, "f": A},
                                        {"o": "recv"}, {"o": "dereg", "p": 3}, {"o": "recv"},
                                        {"o": "enq", "h": 0, "shape": 0, "f": B}, {"o": "recv"}, {"o": "recvmp"}]},
        {"k": "ing", "wf": True, "ops": [{"o": "reg", "p": 1}, {"o": "enq", "h": 0, "shape": 0, "f": A},
                                        {"o": "enq", "h": 0, "shape": 0, "f": B}, {"o": "recv"}, {"o": "recvmp"},
                                        {"o": "recv"}, {"o": "recv"}]},
        # deregistered pipe with queued batches: they stay deliverable through the ready list
        {"k": "ing", "wf": True, "ops": [{"o": "reg", "p": 1}, {"o": "enq", "h": 0, "shape": 0, "f": A},
                                        {"o": "enq", "h": 0, "shape": 0, "f": B}, {"o": "dereg", "p": 1},
                                        {"o": "enq", "h": 0, "shape": 0, "f": ing_frames(3, 2)}, {"o": "recvmp"},
                                        {"o": "recvmp"}, {"o": "recvmp"}, {"o": "enq", "h": 0, "shape": 0, "f": B},
                                        {"o": "recvmp"}]},
        {"k": "ing", "wf": True, "ops": [{"o": "reg", "p": 1}, {"o": "reg", "p": 2}, {"o": "enq", "h": 0, "shape": 0, "f": A},
                                        {"o": "enq", "h": 1, "shape": 0, "f": B}, {"o": "enq", "h": 0, "shape": 0, "f": B},
                                        {"o": "close"}, {"o": "recvmp"}, {"o": "recvmp"}, {"o": "recvmp"}]},
        # a `Many` that holds no frame: is_empty() is false, recv() unwraps an empty deque
        {"k": "ing", "wf": False, "ops": [{"o": "reg", "p": 1}, {"o": "enq", "h": 0, "shape": 1, "f": []}, {"o": "recv"}]},
        {"k": "ing", "wf": False, "ops": [{"o": "reg", "p": 1}, {"o": "enq", "h": 0, "shape": 1, "f": []}, {"o": "recvmp"}]},
    ]


def gen_sizes(rng, n):
    return [rng.choice([0, 0, 8, 8, 9, 16, 40, 255, 256, 300]) if rng.random() < 0.9 else 8 for _ in range(n)]


def ensure_tag(sizes):
    """at least one frame must carry the (sender, id, idx, count) tag"""
    if all(s == 0 for s in sizes):
        sizes[len(sizes) // 2] = 8
    return sizes


def gen_seq_case(rng):
    pat = rng.choice(["push_pull", "push_pull", "dealer_router", "dealer_router", "router_dealer", "dealer_dealer",
                      "dealer_rep", "rep_req", "pub_sub"])
    tcp = rng.random() < 0.5 or pat in ("dealer_dealer", "dealer_rep")     # inproc refuses these pairings (C05)
    c = {"k": "seq", "transport": "tcp" if tcp else "inproc", "pattern": pat, "sender_manual": False,
         "receiver_manual": False}
    if pat in ("dealer_rep", "rep_req"):
        n = rng.choice([1, 1, 2, 3, 5])
        m = {"id": 1, "sizes": ensure_tag(gen_sizes(rng, n)), "flags": "ok", "via": "mp"}
        if pat == "dealer_rep" and m["sizes"][0] == 0:
            m["sizes"][0] = 8      # an empty first payload frame would be read as a second delimiter by the REP
        c["messages"] = [m]
        c["script"] = rng.choice([["mp"], ["f"], ["f", "f"]])
        c["rcvtimeo"] = 400
        return c
    k = rng.choice([1, 2, 3, 4])
    msgs = []
    for i in range(k):
        n = rng.choice([1, 2, 2, 3, 3, 4, 6])
        sizes = ensure_tag(gen_sizes(rng, n))
        if pat in ("dealer_router", "dealer_dealer", "router_dealer") and sizes[0] == 0:
            sizes[0] = 8           # a leading empty payload frame is taken for the envelope delimiter (C11)
        via = "parts" if (pat in ("push_pull", "dealer_router", "dealer_dealer") and rng.random() < 0.25) else "mp"
        flags = "ok"
        if via == "mp" and rng.random() < 0.4:
            # the application leaves MORE unset and relies on send_multipart / hands over frames that all still carry
            # MORE (relayed from a longer message): one send_multipart call is one message either way
            flags = rng.choice(["none", "all"])
        msgs.append({"id": i + 1, "sizes": sizes, "flags": flags, "via": via})
    c["messages"] = msgs
    total = sum(len(m["sizes"]) for m in msgs) + 2 * k
    style = rng.choice(["f", "mp", "mixed", "mixed"])
    script = []
    budget = total
    while budget > 0 and len(script) < 40:
        if style == "f":
            script.append("f")
        elif style == "mp":
            script.append("mp")
        else:
            script.append(rng.choice(["f", "f", "mp"]))
        budget -= 1
    # never read more calls than there are messages * frames available: the last calls may time out
    c["script"] = script[:max(1, min(len(script), sum(len(m["sizes"]) for m in msgs)))] if style != "mp" else script[:k]
    c["rcvtimeo"] = 1500
    return c


def seq_fixed_cases():
    return [
        {"k": "seq", "transport": "tcp", "pattern": "dealer_router", "sender_manual": False, "receiver_manual": False,
         "messages": [{"id": 1, "sizes": [8, 0, 9], "flags": "ok", "via": "mp"}, {"id": 2, "sizes": [8], "flags": "ok", "via": "mp"}],
         "script": ["f", "mp", "f", "f", "f"], "rcvtimeo": 1500},
        {"k": "seq", "transport": "inproc", "pattern": "router_dealer", "sender_manual": False, "receiver_manual": False,
         "messages": [{"id": 1, "sizes": [8, 8, 9], "flags": "ok", "via": "mp"}, {"id": 2, "sizes": [8, 8], "flags": "ok", "via": "mp"}],
         "script": ["f", "mp", "f", "f"], "rcvtimeo": 1500},
        {"k": "seq", "transport": "tcp", "pattern": "router_dealer", "sender_manual": False, "receiver_manual": False,
         "messages": [{"id": 1, "sizes": [8, 8, 9], "flags": "none", "via": "mp"}], "script": ["mp"], "rcvtimeo": 1500},
        {"k": "seq", "transport": "tcp", "pattern": "rep_req", "sender_manual": False, "receiver_manual": False,
         "messages": [{"id": 1, "sizes": [8, 8, 9], "flags": "ok", "via": "mp"}], "script": ["f", "f"], "rcvtimeo": 400},
        {"k": "seq", "transport": "tcp", "pattern": "dealer_rep", "sender_manual": False, "receiver_manual": False,
         "messages": [{"id": 1, "sizes": [8, 8], "flags": "ok", "via": "mp"}], "script": ["f", "f"], "rcvtimeo": 400},
        {"k": "seq", "transport": "inproc", "pattern": "push_pull", "sender_manual": False, "receiver_manual": False,
         "messages": [{"id": 1, "sizes": [8, 0, 9], "flags": "none", "via": "mp"}, {"id": 2, "sizes": [8], "flags": "ok", "via": "mp"}],
         "script": ["f", "mp", "f"], "rcvtimeo": 1500},
    ] + [
        # ROUTER sends a message part by part while ANOTHER of its peers goes away between two parts: the message still
        # reaches its peer whole, and so does the next one
        {"k": "seq", "transport": tr, "pattern": "router_dealer", "sender_manual": False, "receiver_manual": False, "bystander": True,
         "messages": [{"id": 1, "sizes": [8, 9, 8, 8], "flags": "ok", "via": "parts", "by_close_after": k},
                      {"id": 2, "sizes": [8, 8], "flags": "ok", "via": "mp"}],
         "script": script, "rcvtimeo": 1500}
        for tr in ("tcp",) for k in (1, 2, 3) for script in (["mp", "mp"], ["f"] * 6)
    ] + [
        # frames that ALL still carry MORE (relayed from a longer message): one send_multipart call is one message
        {"k": "seq", "transport": tr, "pattern": pat, "sender_manual": sm, "receiver_manual": False,
         "messages": [{"id": 1, "sizes": [8, 9], "flags": "all", "via": "mp"}, {"id": 2, "sizes": [8], "flags": "all", "via": "mp"},
                      {"id": 3, "sizes": [8, 8, 8], "flags": "ok", "via": "mp"}],
         "script": script, "rcvtimeo": 1500}
        for (pat, tr, sm) in [("dealer_router", "tcp", False), ("dealer_router", "inproc", False), ("dealer_dealer", "tcp", False),
                              ("push_pull", "tcp", False), ("pub_sub", "tcp", False), ("router_dealer", "tcp", False),
                              ("dealer_router", "tcp", True)]
        for script in (["mp", "mp", "mp"], ["f"] * 9)
    ]


def big_message(mid, n, via="mp"):
    sizes = [8] * n
    return {"id": mid, "sizes": sizes, "flags": "ok", "via": via}


def gen_stack_case(rng):
    pat = rng.choice(["push_pull", "push_pull", "dealer_router", "dealer_router", "pub_sub", "dealer_dealer"])
    tcp = rng.random() < 0.5 or pat == "dealer_dealer"
    ns = rng.choice([1, 2, 3])
    senders = []
    for k in range(ns):
        msgs = []
        for i in range(rng.choice([2, 3, 4, 6])):
            n = rng.choice([1, 2, 3, 3, 4, 5, 8])
            if rng.random() < 0.12:
                n = rng.choice([100, 200, 253, 254])
            sizes = ensure_tag(gen_sizes(rng, n)) if n < 50 else [8] * n
            if pat in ("dealer_router", "dealer_dealer") and sizes[0] == 0:
                sizes[0] = 8
            msgs.append({"id": i + 1, "sizes": sizes, "flags": rng.choice(["ok", "ok", "none", "all"]), "via": "mp",
                         "gap_ms": rng.choice([0, 0, 0, 5, 20])})
        senders.append({"manual": False, "messages": msgs})
    style = rng.choice([0, 1, 2, 2])
    churn = []
    if rng.random() < 0.6:
        at = rng.randrange(1, 4)
        churn.append({"at_msg": at, "at_frame": 1, "what": "attach"})
        churn.append({"at_msg": at + rng.randrange(1, 3), "at_frame": 1, "what": "detach"})
    total_frames = sum(len(m["sizes"]) + 2 for s in senders for m in s["messages"])
    return {"k": "stack", "transport": "tcp" if tcp else "inproc", "pattern": pat, "senders": senders, "style": style,
            "churn": churn, "max_calls": total_frames + 6, "rcvtimeo": 450}


def stack_limit_cases(rng, tier):
    """messages across the 255/256 frame limit, sent with send_multipart and part by part"""
    out = []
    for (pat, tcp, n, via, manual) in [
        ("push_pull", True, 255, "mp", False), ("push_pull", False, 255, "mp", False),
        ("push_pull", True, 256, "mp", False), ("push_pull", False, 300, "mp", False),
        ("push_pull", True, 256, "parts", False), ("push_pull", False, 256, "parts", False),
        ("pub_sub", True, 256, "mp", False), ("pub_sub", False, 255, "mp", False),
        ("dealer_router", True, 254, "mp", False), ("dealer_router", True, 255, "mp", False),
        ("dealer_router", False, 256, "mp", False), ("dealer_router", True, 255, "mp", True),
        ("dealer_router", False, 254, "mp", True), ("dealer_router", True, 256, "parts", False),
        ("dealer_dealer", True, 254, "mp", False), ("dealer_dealer", True, 300, "mp", False),
    ]:
        first = {"id": 1, "sizes": [8, 0, 9], "flags": "ok", "via": "mp", "gap_ms": 30}
        bigm = dict(big_message(2, n, via), gap_ms=0)
        out.append({"k": "stack", "transport": "tcp" if tcp else "inproc", "pattern": pat,
                    "senders": [{"manual": manual, "messages": [first, bigm]}], "style": rng.choice([0, 1]),
                    "churn": [], "max_calls": n + 12, "rcvtimeo": 500, "limit": True})
    return out if tier != "quick" else out


def stack_fixed_cases():
    m = lambda i, n: {"id": i, "sizes": [8] * n, "flags": "ok", "via": "mp", "gap_ms": 0}
    return [
        # an idle peer detaches while the first message is half read (PULL / SUB: AnonymousIngressEngine)
        {"k": "stack", "transport": "inproc", "pattern": "push_pull",
         "senders": [{"manual": False, "messages": [m(1, 4), m(2, 2), m(3, 3)]}], "style": 0,
         "churn": [{"at_msg": 1, "at_frame": 1, "what": "attach"}, {"at_msg": 2, "at_frame": 1, "what": "detach"}],
         "max_calls": 20, "rcvtimeo": 450},
        {"k": "stack", "transport": "tcp", "pattern": "pub_sub",
         "senders": [{"manual": False, "messages": [m(1, 3), m(2, 3), m(3, 3)]}], "style": 0,
         "churn": [{"at_msg": 1, "at_frame": 1, "what": "attach"}, {"at_msg": 2, "at_frame": 2, "what": "detach"}],
         "max_calls": 20, "rcvtimeo": 450},
        # mixed style on ROUTER / DEALER
        {"k": "stack", "transport": "tcp", "pattern": "dealer_router",
         "senders": [{"manual": False, "messages": [m(1, 3), m(2, 2)]}, {"manual": False, "messages": [m(1, 2), m(2, 4)]}],
         "style": 2, "churn": [], "max_calls": 30, "rcvtimeo": 450},
    ]


def fanout_cases(rng, tier):
    """one PUSH (or DEALER) bound, two receivers: messages sent part by part / with send_multipart"""
    out = []
    combos = [("push_pull", "tcp", "parts"), ("push_pull", "inproc", "parts"), ("push_pull", "tcp", "mp"),
              ("dealer_dealer", "tcp", "parts")]
    if tier != "quick":
        combos = combos * 6
    for (pat, tr, via) in combos:
        msgs = []
        for i in range(rng.choice([2, 3, 4])):
            n = rng.choice([2, 3, 3, 4])
            msgs.append({"id": i + 1, "sizes": [rng.choice([8, 9, 40]) for _ in range(n)], "flags": "ok", "via": via})
        out.append({"k": "fanout", "transport": tr, "pattern": pat, "messages": msgs})
    return out


def gen_cases(rng, tier):
    n_fb, n_ing, n_seq, n_stack = (60, 90, 26, 16) if tier == "quick" else (1500, 2500, 300, 200)
    cases = []
    cases += C.load_corpus(PROP, "cases")
    cases += fb_boundary_cases()
    cases += [gen_fb_case(rng, big=(i % 4 == 0)) for i in range(n_fb)]
    cases += ing_fixed_cases()
    cases += [gen_ing_case(rng, wf=(i % 4 != 3)) for i in range(n_ing)]
    cases += seq_fixed_cases()
    cases += [gen_seq_case(rng) for _ in range(n_seq)]
    cases += stack_fixed_cases()
    cases += stack_limit_cases(rng, tier)
    cases += [gen_stack_case(rng) for _ in range(n_stack)]
    cases += fanout_cases(rng, tier)
    return cases


# ------------------------------------------------------------------ Coq printers

def c_frame(f):
    return "(%s, %s)" % (C.cbool(f["m"]), C.cNlist(f["d"]))


def c_fbop(o):
    k = o["o"]
    a, x = o.get("a", 0), o.get("x", 0)
    return {"new": "FNew", "cap": "(FCap %d%%nat)" % a, "from": "(FFrom %d%%nat %d)" % (a, x), "push": "(FPush %d)" % x,
            "insert": "(FInsert %d%%nat %d)" % (a, x), "remove": "(FRemove %d%%nat)" % a, "pop": "FPop",
            "extend": "(FExtend %d%%nat %d)" % (a, x), "index": "(FIndex %d%%nat)" % a}[k]


def c_iop(o):
    k = o["o"]
    if k == "reg":
        return "(IReg %d)" % o["p"]
    if k == "enq":
        return "(IEnq %d%%nat %d %s)" % (o["h"], o["shape"], C.clist([c_frame(f) for f in o["f"]]))
    if k == "dereg":
        return "(IDereg %d)" % o["p"]
    return {"recv": "IRecv", "recvmp": "IRecvMp", "close": "IClose"}[k]


def c_mspec(m):
    return "(%d, %s, %s, %s)" % (m["id"], C.cNlist(m["sizes"]), {"none": "0", "ok": "1", "all": "2"}[m.get("flags", "ok")],
                                 C.cbool(m.get("via") == "parts"))


def to_coq(c):
    k = c["k"]
    if k == "fb":
        return "(CFb %s)" % C.clist([c_fbop(o) for o in c["ops"]])
    if k == "ing":
        return "(CIng %s)" % C.clist([c_iop(o) for o in c["ops"]])
    if k == "seq":
        return "(CSeq %d %s %s %s %s %s)" % (PATTERNS[c["pattern"]], C.cbool(c["transport"] == "inproc"),
                                           C.cbool(c.get("sender_manual")),
                                           C.cbool(c.get("receiver_manual")),
                                           C.clist([c_mspec(m) for m in c["messages"]]),
                                           C.clist([C.cbool(s == "mp") for s in c["script"]]))
    if k == "fanout":
        return "(CStack %d %s)" % (PATTERNS[c["pattern"]],
                                   C.clist(["(false, %s)" % C.clist([c_mspec(m) for m in c["messages"]])]))
    return "(CStack %d %s)" % (PATTERNS[c["pattern"]],
                               C.clist(["(%s, %s)" % (C.cbool(s.get("manual")), C.clist([c_mspec(m) for m in s["messages"]]))
                                        for s in c["senders"]]))


def canon(c, rows):
    """what is compared with the model: everything for fb/ing; for socket scenarios the senders' answers without
    the error detail, and (seq only) the receive calls"""
    k = c["k"]
    if k in ("fb", "ing"):
        return rows
    if k == "fanout":
        return [[30, r[1], r[2], r[3]] for r in rows if r[0] == 30]
    out = []
    via = {}
    if k == "stack":
        for si, s in enumerate(c["senders"]):
            for m in s["messages"]:
                via[(si + 1, m["id"])] = m.get("via", "mp")
    for r in rows:
        if r[0] == 30:
            code = r[3]
            if k == "stack" and via.get((r[1], r[2])) == "parts" and c["pattern"] in ("push_pull", "pub_sub") and code != 3:
                code = 0       # errors of later parts after the receiver closed the connection are allowed
            out.append([30, r[1], r[2], code])
        elif k == "seq" and r[0] in (20, 7):
            out.append(r)
    return out


# ------------------------------------------------------------------ implementation-side oracle

def oracle_fb(c, rows):
    """list semantics with the 255 limit; a panic is a finding only where the batch would exceed 255 frames"""
    l = []
    for o, r in zip(c["ops"], rows):
        k, a, x = o["o"], o.get("a", 0), o.get("x", 0)
        panicked = len(r) == 2 and r[1] == 1
        ret = None
        over = False
        bad_index = False
        if k == "new":
            nl = []
        elif k == "cap":
            nl = []
            over = a > 255
        elif k == "from":
            nl = [x + i for i in range(a)]
            over = a > 255
        elif k == "push":
            nl = l + [x]
            over = len(nl) > 255
        elif k == "insert":
            bad_index = a > len(l)
            nl = l[:a] + [x] + l[a:]
            over = len(nl) > 255
        elif k == "remove":
            bad_index = a >= len(l)
            nl = l[:a] + l[a + 1:]
            ret = l[a] if not bad_index else None
        elif k == "pop":
            nl = l[:-1]
            ret = l[-1] if l else None
        elif k == "extend":
            nl = l + [x + i for i in range(a)]
            over = len(nl) > 255
        else:
            bad_index = a >= len(l)
            nl = l
            ret = l[a] if not bad_index else None
        if panicked:
            if bad_index:
                return None            # out-of-range index: a documented panic, the case ends here
            if over:
                return ("FrameBatch %s panics when the batch would hold more than 255 frames (no error path)" % k, SIG_SEND_PANIC)
            return ("FrameBatch %s panicked although the batch stays within 255 frames" % k, None)
        if bad_index or over:
            return ("FrameBatch %s beyond its limits did not fail" % k, None)
        l = nl
        if r[2] != (0 if ret is None else ret + 1):
            return ("FrameBatch %s returned the wrong element" % k, None)
        if r[3] != len(l) or (l and (r[5] != l[0] or r[6] != l[-1])):
            return ("FrameBatch %s: contents differ from the list semantics" % k, None)
        if r[7] != sum((i + 1) * v for i, v in enumerate(l)) % 1000003:
            return ("FrameBatch %s: contents differ from the list semantics (digest)" % k, None)
    return None


def oracle_ing(c, rows):
    """frames of one batch come out adjacent, in order, completely, MORE on all but the last"""
    if not c.get("wf"):
        return None
    # walk ops and rows together
    i = 0
    cur = None            # (bid, next idx, n)
    dropped_at = None
    events = []
    for o in c["ops"]:
        k = o["o"]
        if k in ("reg", "dereg", "close", "enq"):
            if k == "dereg" and cur is not None:
                dropped_at = k
            if k == "close":
                cur = None        # closing the socket abandons the message being read
                dropped_at = None
            i += 1
            continue
        head = rows[i]
        i += 1
        frames = []
        if head[1] == 2:
            return ("%s panicked" % k, None)
        if head[1] == 0:
            n = 1 if k == "recv" else head[2]
            frames = rows[i:i + n]
            i += n
        for f in frames:
            more, d = f[1], f[2:]
            if len(d) != 3:
                return ("a frame that was never enqueued came out", None)
            bid, idx, n = d
            if cur is None:
                if idx != 0:
                    return ("message %d starts at frame %d" % (bid, idx), None)
            else:
                if (bid, idx) != (cur[0], cur[1]):
                    return ("frame %d of message %d followed by frame %d of message %d: message %d was cut short" %
                            (cur[1] - 1, cur[0], idx, bid, cur[0]), None)
            if more != (1 if idx < n - 1 else 0):
                return ("wrong MORE flag", None)
            cur = (bid, idx + 1, n) if idx < n - 1 else None
            if cur is None:
                dropped_at = None
        if k == "recvmp" and head[1] == 0 and cur is not None:
            return ("recv_multipart returned an incomplete message", None)
    return None


def expected_app_frames(c, sender_idx, m):
    """frame descriptors (len, tagged idx or None) the receiving application should see for message m"""
    sizes = m["sizes"]
    return [(l, i) for i, l in enumerate(sizes)]


def wire_frames(c, pattern, manual, m):
    n = len(m["sizes"])
    if SENDER[pattern] == "DEALER" and not manual:
        n += 1
    if SENDER[pattern] == "ROUTER":
        n += 2
    if SENDER[pattern] == "REP":
        n += 1
    return n


class Walk:
    """checks a received frame stream against the sent messages"""

    def __init__(self, c, specs, with_identity, ordered_complete):
        self.c = c
        self.specs = specs                  # {(sender, id): message spec}
        self.with_identity = with_identity
        self.cur = None                     # dict(pos, sender, id, count, ident_done)
        self.last_id = {}
        self.delivered = []
        self.ordered_complete = ordered_complete

    def frame(self, r):
        more, ln = r[1], r[2]
        tagged = len(r) > 3 and r[3] == 1
        if self.cur is None:
            self.cur = {"pos": 0, "key": None, "count": None, "need_ident": self.with_identity, "empties": []}
        cur = self.cur
        if cur["need_ident"]:
            cur["need_ident"] = False
            if tagged or ln == 0 or len(r) < 4:
                return "ROUTER delivered a message that does not start with the peer identity"
            cur["ident"] = r[4:]
            if not more:
                return "identity frame without MORE"
            return None
        pos = cur["pos"]
        if tagged:
            key, idx, count = (r[4], r[5]), r[6], r[7]
            if cur["key"] is None:
                if key not in self.specs:
                    return "a frame of a message that was never sent came out"
                cur["key"], cur["count"] = key, count
                for p in cur["empties"]:
                    if self.specs[key]["sizes"][p] != 0 if p < len(self.specs[key]["sizes"]) else True:
                        return "an empty frame appeared where message %s has none" % (key,)
            if key != cur["key"]:
                return "frame %d of message %s is followed by frame %d of message %s: messages interleaved / cut short" % (
                    pos - 1, cur["key"], idx, key)
            if idx != pos:
                return "message %s: frame %d delivered at position %d" % (key, idx, pos)
            sizes = self.specs[key]["sizes"]
            if count != len(sizes) or ln != sizes[idx]:
                return "message %s: frame %d has the wrong size / count" % (key, idx)
        else:
            if ln != 0:
                return "an unexpected untagged frame inside a message"
            if cur["key"] is None:
                cur["empties"].append(pos)
            else:
                sizes = self.specs[cur["key"]]["sizes"]
                if pos >= len(sizes) or sizes[pos] != 0:
                    return "message %s: unexpected empty frame at position %d" % (cur["key"], pos)
        cur["pos"] = pos + 1
        if cur["count"] is not None:
            last = cur["pos"] == cur["count"]
            if bool(more) != (not last):
                return "message %s: wrong MORE flag on frame %d of %d" % (cur["key"], pos, cur["count"])
            if last:
                s, i = cur["key"]
                if self.last_id.get(s, 0) >= i:
                    return "message %s delivered out of order / twice" % (cur["key"],)
                self.last_id[s] = i
                self.delivered.append(cur["key"])
                self.cur = None
        else:
            if not more:
                return "a message consisting only of empty frames was delivered (no such message was sent)"
        return None


def scenario_panics(rows, o):
    send_p = [r for r in rows if r[0] == 30 and r[3] == 3]
    recv_p = [r for r in rows if r[0] == 20 and r[2] == 3]
    total = next((r[1] for r in rows if r[0] == 98), 0)
    return send_p, recv_p, total


def oracle_seq(c, o):
    rows = o["rows"]
    pat = c["pattern"]
    send_p, recv_p, total = scenario_panics(rows, o)
    if send_p or recv_p or total:
        return ("a call or a background task panicked (%s)" % o.get("panic_sites"), None)
    specs = {(1, m["id"]): m for m in c["messages"]}
    w = Walk(c, specs, with_identity=(RECEIVER[pat] == "ROUTER"), ordered_complete=True)
    calls = []
    cur = None
    for r in rows:
        if r[0] == 20:
            cur = {"mp": r[1], "res": r[2], "frames": []}
            calls.append(cur)
        elif r[0] == 7 and cur is not None:
            cur["frames"].append(r)
    mid_mp = False
    for call in calls:
        if call["mp"] and w.cur is not None:
            mid_mp = True
        for f in call["frames"]:
            msg = w.frame(f)
            if msg:
                return (msg, classify_seq(c, mid_mp, msg))
        if call["mp"] and call["res"] == 0 and w.cur is not None:
            return ("recv_multipart returned an incomplete message", classify_seq(c, mid_mp, ""))
        if call["res"] != 0 and w.cur is not None:
            # the message was sent completely before the first receive call: its remaining frames must be readable
            return ("message %s: frame with MORE followed by %s - the rest of the message is never delivered" %
                    (w.cur["key"], "a time-out" if call["res"] == 1 else "an error"), classify_seq(c, mid_mp, "cut"))
    return None


def classify_seq(c, mid_mp, msg):
    """the only tolerated (known) failure of these scenarios: REQ / REP recv() of a multi-frame payload.
    Interleaving by a mid-message recv_multipart (DEALER/ROUTER) and un-normalised ROUTER flags were repaired."""
    pat = c["pattern"]
    if pat in ("dealer_rep", "rep_req") and "f" in c["script"] and any(len(m["sizes"]) > 1 for m in c["messages"]):
        return SIG_REQREP
    return None


def oracle_stack(c, o):
    rows = o["rows"]
    pat = c["pattern"]
    send_p, recv_p, total = scenario_panics(rows, o)
    specs = {}
    for si, s in enumerate(c["senders"]):
        for m in s["messages"]:
            specs[(si + 1, m["id"])] = dict(m, manual=s.get("manual", False))
    if send_p:
        r = send_p[0]
        m = specs[(r[1], r[2])]
        nwire = wire_frames(c, pat, m["manual"], m)
        if nwire > 255:
            return ("%s.%s of a %d-frame message (%d frames with the envelope) panicked instead of returning an error" % (
                SENDER[pat], "send" if m.get("via") == "parts" else "send_multipart", len(m["sizes"]), nwire), SIG_SEND_PANIC)
        return ("send panicked on a %d-frame message" % len(m["sizes"]), None)
    if recv_p:
        big = [m for m in specs.values() if wire_frames(c, pat, m["manual"], m) >= 255]
        if RECEIVER[pat] == "ROUTER" and big:
            return ("ROUTER recv panicked on a 255-frame message (identity frame does not fit the FrameBatch)", SIG_ROUTER_RECV_PANIC)
        return ("a receive call panicked", None)
    if total:
        parts_big = [m for m in specs.values() if m.get("via") == "parts" and len(m["sizes"]) > 255]
        if c["transport"] == "inproc" and parts_big:
            return ("a background task panicked while a %d-part message was arriving over inproc (%s)" % (
                len(parts_big[0]["sizes"]), o.get("panic_sites")), SIG_INPROC_PANIC)
        return ("a background task panicked (%s)" % o.get("panic_sites"), None)
    w = Walk(c, specs, with_identity=(RECEIVER[pat] == "ROUTER"), ordered_complete=False)
    churn_half = False
    mid_mp = False
    cur_call = None
    timed_out_end = False
    ncalls = 0
    for r in rows:
        if r[0] == 20:
            ncalls += 1
            if cur_call is not None and cur_call["mp"] and cur_call["res"] == 0 and w.cur is not None:
                return ("recv_multipart returned an incomplete message", classify_stack(c, churn_half, mid_mp))
            cur_call = {"mp": r[1], "res": r[2]}
            if r[1] and w.cur is not None:
                mid_mp = True
            timed_out_end = r[2] == 1
        elif r[0] == 7:
            msg = w.frame(r)
            if msg:
                return (msg, classify_stack(c, churn_half, mid_mp))
        elif r[0] == 40 and r[2] == 1:
            churn_half = True
    if w.cur is not None and timed_out_end and ncalls < c["max_calls"]:
        return ("message %s was delivered only in part (receiver went idle)" % (w.cur["key"],), classify_stack(c, churn_half, mid_mp))
    # a message beyond the frame limit must never be delivered in part; complete delivery or none
    return None


def classify_stack(c, churn_half, mid_mp):
    """no delivery failure of these scenarios is tolerated any more (detach while half read and mixed receive
    styles were repaired)"""
    return None


def oracle_fanout(c, o):
    rows = o["rows"]
    send_p, recv_p, total = scenario_panics(rows, o)
    if send_p or recv_p or total:
        return ("a call or a background task panicked (%s)" % o.get("panic_sites"), None)
    specs = {(1, m["id"]): m for m in c["messages"]}
    w = None
    parts = any(m.get("via") == "parts" for m in c["messages"])
    for r in rows:
        if r[0] == 50:
            if w is not None and w.cur is not None:
                return ("a receiver was handed an incomplete message", SIG_PUSH_PARTS if parts and SENDER[c["pattern"]] == "PUSH" else None)
            w = Walk(c, specs, with_identity=False, ordered_complete=False)
        elif r[0] == 7:
            msg = w.frame(r)
            if msg:
                return ("two receivers: " + msg, SIG_PUSH_PARTS if parts and SENDER[c["pattern"]] == "PUSH" else None)
    return None


def oracle_full(c, o):
    rows = o["rows"]
    if rows and rows[0][0] in (99, 95):
        return ("scenario could not run (code %s)" % rows[0][1:], None)
    k = c["k"]
    if k == "fb":
        return oracle_fb(c, rows)
    if k == "ing":
        return oracle_ing(c, rows)
    if k == "seq":
        return oracle_seq(c, o)
    if k == "fanout":
        return oracle_fanout(c, o)
    return oracle_stack(c, o)


def oracle(c, o):
    r = oracle_full(c, o)
    return r[0] if r else None


def signature(c, o, msg):
    r = oracle_full(c, o)
    return r[1] if r else None


def shrink(c):
    k = c["k"]
    if k in ("fb", "ing"):
        ops = c["ops"]
        for i in range(len(ops) - 1, -1, -1):
            if len(ops) > 1 and ops[i]["o"] != "reg":
                yield dict(c, ops=ops[:i] + ops[i + 1:])
    elif k == "seq":
        ms = c["messages"]
        if len(c["script"]) > 1:
            yield dict(c, script=c["script"][:-1])
        for i in range(len(ms) - 1, 0, -1):
            yield dict(c, messages=ms[:i] + ms[i + 1:])
    elif k == "stack":
        ss = c["senders"]
        if len(ss) > 1:
            for i in range(len(ss)):
                yield dict(c, senders=ss[:i] + ss[i + 1:])
        for i, s in enumerate(ss):
            ms = s["messages"]
            if len(ms) > 1:
                yield dict(c, senders=ss[:i] + [dict(s, messages=ms[:-1])] + ss[i + 1:])


def nontrivial(c, o):
    rows = o["rows"]
    if c["k"] == "fb":
        return any(len(r) > 3 and r[3] > 0 for r in rows)
    return any(r[0] == 7 for r in rows)


def main(argv):
    tier, seed = C.tier_and_seed(argv)
    res = C.Result(PROP, tier, seed)
    res.rule = ("cases = op histories on the real FrameBatch (0..300 elements, every op under catch_unwind) and on the real "
                "AnonymousIngressEngine (register/enqueue/recv/recv_multipart/deregister/close, well-formed and malformed "
                "batches); single-connection socket scenarios with scripted recv/recv_multipart calls (PUSH>PULL, "
                "DEALER<>ROUTER, DEALER>DEALER, DEALER>REP, REP>REQ, PUB>SUB; tcp and inproc; send_multipart with and "
                "without application flags, and part by part); 1..3 concurrent senders with idle peers attached / detached "
                "while a message is half read, receive styles frames / multipart / mixed, messages of 254..300 frames; "
                "frames carry (sender, msg id, index, count); generated from random.Random(seed); non-trivial = at least "
                "one frame delivered / non-empty batch; distinct by case JSON")
    C.proof_stage(res, PROP, ["theories/Corr/C02Corr.vo"])
    rng = random.Random(seed)
    cases = gen_cases(rng, tier)
    for c in cases:
        res.count("kind:" + c["k"])
        if c["k"] in ("seq", "stack", "fanout"):
            res.count("pattern:" + c["pattern"])
            res.count("transport:" + c["transport"])
        if c["k"] == "stack":
            res.count("style:%d" % c["style"])
            res.count("senders:%d" % len(c["senders"]))
            for s in c["senders"]:
                for m in s["messages"]:
                    n = len(m["sizes"])
                    res.count("frames:%s" % ("1" if n == 1 else "2-9" if n < 10 else "10-253" if n < 254 else str(min(n, 257))))
    # failures that carry a signature are genuine, classified defects: each signature is reported once (smallest
    # witness of the run) through the known-findings mechanism - KNOWN-FINDING if listed in known_findings.json,
    # VIOLATION otherwise.  Unclassified failures go through the generic path (shrinking, VIOLATION).
    classified = {}

    def oracle_np(c, o):
        r = oracle_full(c, o)
        if r and r[1]:
            size = len(json.dumps(c))
            if r[1] not in classified or size < classified[r[1]][0]:
                classified[r[1]] = (size, c, o, r[0])
            return None
        return r[0] if r else None

    obs = C.differential(res, PROP, "c02", cases, to_coq, REQ, "c02_mismatches", "c02_model", oracle_np,
                         shrink=shrink, nontrivial=nontrivial, signature=signature, theorems_note=THEOREMS,
                         shards=16, canon=canon)
    sigs = {}
    if obs:
        for c, o in zip(cases, obs):
            r = oracle_full(c, o)
            if r:
                sigs[r[1] or "unclassified"] = sigs.get(r[1] or "unclassified", 0) + 1
    for sig, (_, c, o, msg) in sorted(classified.items()):
        res.violation({"property": PROP, "kind": "implementation violates property oracle", "what": msg, "case": c,
                       "impl_obs": o, "harness": "c02", "signature": sig}, found_input=True, signature=sig)
    res.extra["oracle_failures_by_signature"] = sigs
    # directed probe (no model row; the envelope algebra is C11's Model/Envelope.v, the flag rule Model/SendFlags.v): a REP
    # answers a request that reached it with a routing envelope - body frames behind the delimiter, or NO body at all (the
    # delimiter is the request's last frame) - with a multipart reply; the peer (DEALER, AUTO_DELIMITER off) must receive
    # ONE message: the envelope, then the reply, MORE on every frame but the last
    # (added after the seeded change C02-rep-reply-prefix-keeps-arrival-flags)
    pcs = []
    for tr in ("tcp", "inproc"):
        for req in ([[104, 111, 112], []], [[]], [[104], [], [98, 111, 100, 121]], [[104], [105], []]):
            for rep in ([[114, 49], [], [114, 51]], [[114]], [[114, 49], [114, 50]]):
                pcs.append({"k": "repenv", "transport": tr, "request": req, "reply": rep})
    pobs, plog = C.run_harness("c02", pcs, PROP, tag="repenv")
    if not res.obligation(pobs is not None and len(pobs) == len(pcs), "REP envelope probe ran: " + str(plog)[-300:]):
        pobs = []
    res.evaluations += len(pobs)
    for c, o in zip(pcs, pobs):
        res.count("repenv:" + c["transport"])
        rows = o["rows"]
        if any(r[0] == 99 for r in rows) or [r[1] for r in rows if r[0] == 41] != [0, 0, 0]:
            continue                                   # set-up or request refused: nothing to judge
        k = c["request"].index([])                     # the envelope: everything up to and including the first empty frame
        want = [len(f) for f in c["request"][:k + 1]] + [len(f) for f in c["reply"]]
        got = [r for r in rows if r[0] == 40]
        msg = None
        if len(got) != 1:
            msg = "the REP's multipart reply reached the peer as %d messages instead of one: %s" % (len(got), got)
        else:
            lens, more = got[0][2::2], got[0][3::2]
            if lens != want:
                msg = "the peer received frames of lengths %s, expected envelope + reply %s" % (lens, want)
            elif more != [1] * (len(want) - 1) + [0]:
                msg = "MORE flags of the reply as received: %s (must be set on every frame but the last)" % more
        res.nontrivial.add(json.dumps(c, sort_keys=True))
        if msg:
            res.violation({"property": PROP, "kind": "implementation violates property oracle", "what": msg, "case": c,
                           "impl_obs": o, "harness": "c02 (repenv probe)"}, found_input=True)
            break
    return res.finish(assumptions=[
        "ReadyPipeQueue is modelled sequentially (one caller at a time, capacities not reached); its interleavings are C08",
        "multi-peer delivery order is not predicted by the model: those scenarios are judged by the implementation-side oracle",
        "payload bytes beyond the 8-byte tag are not compared here (C01/C03 cover payload integrity)"])
