#!/usr/bin/env python3
"""usage: seeded_meta.py <seeded dir> key=value ...  - adds / overwrites fields of meta.json (strings; round -> int)"""
import json, sys
d = sys.argv[1].rstrip("/")
m = json.load(open(d + "/meta.json"))
for kv in sys.argv[2:]:
    k, v = kv.split("=", 1)
    m[k] = int(v) if k == "round" else v
json.dump(m, open(d + "/meta.json", "w"), indent=1)
