"""C17 - a connection's failure stays local; lost outbound connections come back with a bounded,
at most geometric back-off. See DESIGN.md section 6 (C17)."""
import json
import random
from . import common as C

PROP = "C17"
REQ = "From RZ Require Import Base.Prelude Model.Backoff Model.Isolation Corr.C17Corr."
THEOREMS = ("C17_delay0, C17_delay_next_le_double(_sat), C17_delay_monotone, C17_delay_le_max, C17_delay_ge_base_or_max, "
            "C17_attempts_saturate, C17_success_resets, C17_history_*, C17_fault_is_local, C17_stays_running_iff, "
            "C17_reconnect_scheduled, C17_handshake_resets_backoff")

NS = 10 ** 9
U32MAX = 2 ** 32 - 1
U64MAX = 2 ** 64 - 1
DUR_MAX = U64MAX * NS + 999999999
OPT_MAX_NS = (2 ** 31 - 1) * 10 ** 6          # largest interval the option parser accepts (i32 milliseconds)
I64MAX = 2 ** 63 - 1
BAND = 2 ** 41                                 # keep delays this many seconds away from the Instant overflow edge

# scenario ids whose failure is a REPORTED FINDING (suspected genuine defect in rzmq), not a check failure
FINDING_SCENARIOS = {
    21: "outbound reconnect stops for good when the peer closes right after accepting: the session's ActorStopping event is "
        "handled before its NewConnectionEstablished command (biased select in command_loop.rs), cleanup_stopped_child_resources finds "
        "no endpoint, no retry is scheduled and the dead session is registered afterwards",
    30: "event-bus lag on a 4-worker runtime: 8 tasks of OTHER sockets doing 1600 inproc connect/close cycles make the victim's "
        "broadcast receiver lag -> command_loop.rs Lagged branch shuts the victim down (row [30,0,0]); or the healthy connection's "
        "session actor lags (sessionx/actor.rs Lagged -> fatal error) and the healthy connection is dropped, losing messages (row [30,0,1])",
    31: "creating >256 sockets back to back in one context (current-thread runtime) makes the event-bus receiver of an "
        "unrelated socket lag -> command_loop.rs Lagged branch shuts that socket down",
}

DUR_POOL = [0, 1, 2, 999, 10 ** 6, 10 ** 8, 10 ** 9 - 1, 10 ** 9, 10 ** 9 + 1, 60 * NS, OPT_MAX_NS, OPT_MAX_NS + 1,
            2 ** 32 * NS, (2 ** 32 - 1) * NS + 999999999, 2 ** 33 * NS, 2 ** 62 * NS, 2 ** 63 * NS + 5,
            U64MAX * NS, DUR_MAX - 1, DUR_MAX, DUR_MAX // 2, DUR_MAX // 2 + 1, DUR_MAX // 3,
            (U64MAX // 2 ** 31) * NS, (U64MAX // 2 ** 31 + 1) * NS]
ATT_POOL = list(range(0, 41)) + [63, 64, 2 ** 16, 2 ** 31 - 1, 2 ** 31, 2 ** 31 + 1, U32MAX - 2, U32MAX - 1, U32MAX]


def gen_dur(rng):
    r = rng.random()
    if r < 0.45:
        return rng.choice(DUR_POOL)
    if r < 0.7:
        return rng.randrange(1, 5000) * 10 ** 6            # ordinary millisecond intervals
    if r < 0.8:
        return rng.randrange(0, OPT_MAX_NS + 1)
    if r < 0.9:
        return rng.randrange(0, 2 ** rng.randrange(1, 94))
    return rng.randrange(0, DUR_MAX + 1)


def near_panic_edge(base, mx):
    """True when some delay this triple can produce lies within BAND seconds of the i64 overflow of
    `Instant::now() + delay` (the harness cannot pin Instant::now(), so these are not compared)."""
    cands = {min(base * 2 ** k, DUR_MAX) for k in range(32)}
    if mx > 0:
        cands = {min(c, mx) for c in cands}
    return any(I64MAX - BAND <= c // NS <= I64MAX + 2 for c in cands)


def gen_bo(rng, n):
    cases = []
    # fixed corpus: the documented example, the default options, boundary triples
    fixed = [
        (10 ** 8, 4 * 10 ** 8, 0, [1, 1, 1, 1, 0, 1]),
        (10 ** 8, 0, 0, [1] * 40),
        (10 ** 9, 0, 0, [1] * 34),                            # rzmq defaults: 1 s, max 0 (no cap)
        (10 ** 8, 60 * NS, 0, [1] * 36),
        (OPT_MAX_NS, 0, 0, [1] * 34),
        (OPT_MAX_NS, OPT_MAX_NS, 30, [1, 1, 1, 0, 1]),
        (1, 0, U32MAX - 2, [1, 1, 1, 1, 0, 1]),
        (10 ** 8, 25 * 10 ** 7, U32MAX, [1, 1, 0, 1, 1]),
        (0, 0, 0, [1, 1, 0, 1]),
        (0, 5, 7, [1, 1]),
        (7, 3, 0, [1, 1, 0, 1]),                              # max below base
        (DUR_MAX, DUR_MAX, 0, [1]),                           # Instant overflow: panics
        (U64MAX * NS, 0, 5, [1, 1]),
        (2 ** 31 * NS, 0, 31, [1, 1]),
    ]
    for (b, m, a, ops) in fixed:
        cases.append({"k": "bo", "base": str(b), "max": str(m), "attempts": a, "ops": ops})
    while len(cases) < n:
        b, m = gen_dur(rng), (0 if rng.random() < 0.3 else gen_dur(rng))
        if near_panic_edge(b, m):
            continue
        a = rng.choice(ATT_POOL) if rng.random() < 0.8 else rng.randrange(0, U32MAX + 1)
        r = rng.random()
        if r < 0.3:
            ops = [1] * rng.randrange(1, 40)
        else:
            ops = [1 if rng.random() < 0.8 else 0 for _ in range(rng.randrange(1, 14))]
        cases.append({"k": "bo", "base": str(b), "max": str(m), "attempts": a, "ops": ops})
    return cases


def gen_iso(tier):
    n = 30
    cases = [{"k": "iso", "scn": s, "n": n} for s in (1, 2, 3, 4, 5, 6, 7, 8, 9, 10, 11, 12, 13, 14)]
    # scenario 15: the peer closes ORDERLY (FIN) before the handshake completes, after 0 / 3 / 11 greeting bytes
    cases += [{"k": "iso", "scn": 15, "n": n, "pre": pre} for pre in (0, 3, 11)]
    # scenario 16: connect() called twice for the same endpoint, both connections closed by the peer: must be retried
    # (added after the seeded change C17-outbound-test-by-uri-only)
    cases += [{"k": "iso", "scn": 16, "n": n, "pre": pre, "connects": 2} for pre in (0, 11)]
    cases.append({"k": "iso", "scn": 31, "n": 10, "sockets": 100, "workers": 0})
    cases.append({"k": "iso", "scn": 31, "n": 10, "sockets": 300, "workers": 0})
    hi = 600 if tier == "quick" else 400
    cases.append({"k": "iso", "scn": 20, "ivl_ms": 100, "max_ms": 400, "accepts": 6, "tries": 8, "stall_ms": 1600, "hold_ms": 60,
                  "need": 5, "slack_lo": 20, "slack_hi": hi})
    # scenario 22: the delays the connecter itself reports (ConnectRetried) after k lost connections + listener gone
    for (ivl, mx, hangs) in ([(50, 200, 4), (100, 150, 1), (50, 0, 2)] if tier == "quick" else
                             [(50, 200, 4), (100, 150, 1), (50, 0, 2), (50, 200, 0), (20, 1000, 7), (60, 60, 3), (30, 100, 5), (100, 150, 3)]):
        cases.append({"k": "iso", "scn": 22, "ivl_ms": ivl, "max_ms": mx, "hangs": hangs, "down_ms": 1300})
    cases.append({"k": "iso", "scn": 21, "runs": 4 if tier == "quick" else 12, "accepts": 4, "stall_ms": 1500})
    if tier != "quick":
        for rep in range(3):
            cases += [{"k": "iso", "scn": s, "n": 60, "rep": rep} for s in (1, 2, 3, 5, 6, 7, 8, 9, 10, 11, 12, 13)]
        cases.append({"k": "iso", "scn": 30, "n": 30, "burst": 1600})
        cases.append({"k": "iso", "scn": 20, "ivl_ms": 50, "max_ms": 0, "accepts": 6, "tries": 8, "stall_ms": 2200, "hold_ms": 60,
                      "need": 5, "slack_lo": 20, "slack_hi": hi})
        cases.append({"k": "iso", "scn": 20, "ivl_ms": 150, "max_ms": 250, "accepts": 6, "tries": 8, "stall_ms": 1600, "hold_ms": 60,
                      "need": 5, "slack_lo": 20, "slack_hi": hi})
    return cases


def to_coq(c):
    if c["k"] == "bo":
        return "(CBo %s %s %d %s)" % (c["base"], c["max"], c["attempts"], C.cNlist(c["ops"]))
    if c["scn"] == 31:
        return "(CLag %d %d)" % (c["sockets"], c["workers"])
    if c["scn"] == 22:
        return "(CRetry %d %d %d)" % (c["ivl_ms"], c["max_ms"], c["hangs"])
    if c["scn"] == 20:
        return "(CTiming %d %d %d %d %d)" % (c["ivl_ms"], c["max_ms"], c["need"], c["slack_lo"], c["slack_hi"])
    return "(CIso %d)" % c["scn"]


# ---------------------------------------------------------------- implementation-side oracle (property text)

def oracle_bo(c, o):
    base, mx, att = int(c["base"]), int(c["max"]), c["attempts"]
    first = min(base, mx) if mx > 0 else base
    fresh = att == 0          # no failure since the last success / since creation
    prev = None
    rows = o["rows"]
    ops = c["ops"]
    for i, r in enumerate(rows):
        if r[0] == 2:
            if base <= OPT_MAX_NS:
                return "on_connection_failure panicked for an interval the option parser accepts (op %d)" % i
            return None       # Instant overflow for a multi-century interval: outside the property
        if ops[i] == 1:
            if r[0] != 1 or len(r) != 5:
                return "malformed failure row"
            d = r[1] * NS + r[2]
            if mx > 0 and d > mx:
                return "retry delay %d ns exceeds RECONNECT_IVL_MAX %d ns" % (d, mx)
            if fresh:
                if d != first:
                    return "first retry delay is %d ns, expected RECONNECT_IVL (cut by max) = %d ns" % (d, first)
            else:
                if d < min(first, DUR_MAX):
                    return "retry delay %d ns is below the first delay %d ns" % (d, first)
                if prev is not None:
                    if d > 2 * prev:
                        return "retry delay grew more than geometrically: %d ns after %d ns" % (d, prev)
                    if d < prev:
                        return "retry delay shrank without a success: %d ns after %d ns" % (d, prev)
                elif d > base * 2 ** min(att, 64):
                    return "retry delay %d ns exceeds RECONNECT_IVL * 2^attempts" % d
            want_att = min(att + 1, U32MAX)
            if r[3] != want_att:
                return "attempt counter went from %d to %d" % (att, r[3])
            if r[4] != 1:
                return "next attempt is not scheduled at now + delay"
            att, prev, fresh = want_att, d, False
        else:
            if r != [0, 0, 0]:
                return "on_connection_success did not reset the back-off state: %s" % r
            att, prev, fresh = 0, None, True
    if len(rows) != len(ops) and not (rows and rows[-1][0] == 2):
        return "missing rows"
    return None


def expected_delays_ms(ivl, mx, k):
    out, d = [], ivl
    for _ in range(k):
        out.append(min(d, mx) if mx > 0 else d)
        d *= 2
    return out


def make_oracle(res):
    def oracle(c, o):
        if o.get("panic"):
            return "harness case panicked"
        if c["k"] == "bo":
            return oracle_bo(c, o)
        rows = o["rows"]
        scn = c["scn"]
        if scn == 20:
            row = rows[0]
            gaps = row[1:]
            if o.get("stalled_runs", 0) > 0:
                res.notes.append("pacing scenario: %s" % o.get("detail"))
            if len(gaps) < c["need"]:
                return "reconnecting never got to %d attempts in %d runs (%s)" % (c["need"] + 1, c["tries"], o.get("detail"))
            lo, hi, ivl, mx = c["slack_lo"], c["slack_hi"], c["ivl_ms"], c["max_ms"]
            for i, g in enumerate(gaps):
                if g + lo < ivl:
                    return "reconnect attempt after %d ms, earlier than RECONNECT_IVL %d ms (gaps %s)" % (g, ivl, gaps)
                if mx > 0 and g > mx + hi:
                    return "reconnect gap %d ms exceeds RECONNECT_IVL_MAX %d ms (+%d slack) (gaps %s)" % (g, mx, hi, gaps)
                if i == 0 and g > ivl + hi:
                    return "first reconnect gap %d ms, expected about RECONNECT_IVL %d ms (gaps %s)" % (g, ivl, gaps)
                if i > 0 and g > 2 * gaps[i - 1] + hi:
                    return "reconnect gaps grow more than geometrically: %s" % gaps
            return None
        if scn == 22:
            row = rows[0]
            ivs = row[3:]
            ivl, mx = c["ivl_ms"], c["max_ms"]
            if row[1] != 1:
                return "scenario 22: traffic did not resume after the peer came back (row %s; %s)" % (row, o.get("detail"))
            if row[2] != 1:
                return "scenario 22: socket unusable after reconnecting (row %s)" % row
            if not ivs:
                return "scenario 22: the connecter reported no retry while the listener was gone (%s)" % o.get("detail")
            for i, d in enumerate(ivs):
                if d < ivl:
                    return "retry delay %d ms is below RECONNECT_IVL %d ms (reported delays %s)" % (d, ivl, ivs)
                if mx >= ivl and mx > 0 and d > mx:
                    return "retry delay %d ms exceeds RECONNECT_IVL_MAX %d ms (reported delays %s, %d lost connections before)" % (d, mx, ivs, c["hangs"])
                if i > 0 and d > 2 * ivs[i - 1]:
                    return "retry delays grow more than geometrically: %s" % ivs
            return None
        row = rows[0]
        ok = row[1:] == [1, 1]
        if ok:
            return None
        if scn == 21 and row[2] != 1:
            return "scenario 21: socket unusable after its peer kept dropping connections (row %s; %s)" % (row, o.get("detail"))
        if scn in FINDING_SCENARIOS and (scn != 31 or c["sockets"] > 256):
            note = "REPORTED FINDING scenario %d: %s; observed row %s (%s)" % (scn, FINDING_SCENARIOS[scn], row, o.get("detail"))
            if note not in res.notes:
                res.notes.append(note)
            res.extra.setdefault("reported_findings", [])
            if scn not in res.extra["reported_findings"]:
                res.extra["reported_findings"].append(scn)
                sig = "C17:scenario-%d" % scn
                res.violation({"property": PROP, "kind": "implementation violates property oracle (stack level)",
                               "what": "scenario %d: %s; observed row %s" % (scn, FINDING_SCENARIOS[scn], row),
                               "case": c, "impl_obs": o, "harness": "c17", "signature": sig},
                              found_input=True, signature=sig)
            return None
        what = "healthy traffic interrupted" if row[1] != 1 else "owning socket no longer usable"
        if scn == 15:
            what = ("the connection closed orderly by the peer during the handshake (after %d greeting bytes) was never retried / traffic "
                    "did not resume" % c["pre"]) if row[1] != 1 else "socket unusable after reconnect"
        if scn == 16:
            what = ("connect() was called twice for one endpoint and the peer closed both connections: the lost outbound connection "
                    "was never retried / traffic did not resume") if row[1] != 1 else "socket unusable after reconnect"
        if scn == 12:
            what = "traffic did not resume after the peer came back" if row[1] != 1 else "socket unusable after reconnect"
        return "scenario %d: %s (row %s; %s)" % (scn, what, row, o.get("detail"))
    return oracle


def shrink(c):
    if c["k"] != "bo":
        return
    ops = c["ops"]
    for i in range(len(ops)):
        if len(ops) > 1:
            yield dict(c, ops=ops[:i] + ops[i + 1:])
    if c["attempts"] > 0:
        yield dict(c, attempts=0)
        yield dict(c, attempts=c["attempts"] - 1)


def nontrivial(c, o):
    if c["k"] == "bo":
        return any(r[0] == 1 for r in o["rows"])
    return True


def main(argv):
    tier, seed = C.tier_and_seed(argv)
    res = C.Result(PROP, tier, seed)
    res.rule = ("cases = (a) ReconnectState histories: (RECONNECT_IVL, RECONNECT_IVL_MAX, starting attempts, failure/success ops) "
                "with ordinary, boundary and near-overflow durations (ns as decimal strings) and attempts 0..40 / near 2^32, "
                "from random.Random(seed) plus a fixed boundary list; (b) stack scenarios on real Context/sockets: a PULL socket "
                "with one healthy PUSH peer carrying numbered traffic while a fault is injected on another connection "
                "(1 garbage greeting, 2 garbage after greeting, 3 wrong type tcp, 4 wrong type inproc, 5 RST, 6 RST after handshake, "
                "7 PLAIN wrong credentials, 8 refused inproc connect, 9 outbound to garbage listener, 10 wrong-type inproc connect, "
                "11 burst of 40 bad peers, 12 peer away and back, 13 ZMTP/2.0 peer of incompatible type, 20 reconnect pacing (accept, hold 60 ms, drop), 21 accept-and-drop-at-once listener, 30 event burst, 31 socket-creation burst); "
                "non-trivial = at least one computed delay / every stack scenario; distinct by case JSON")
    C.proof_stage(res, PROP, ["theories/Corr/C17Corr.vo"])
    from . import optlib
    optlib.options_stage(res, PROP, [18, 21], n_quick=100, theorems_note='C17_reconnect_option_semantics, C17_reconnect_max_option_caps')
    rng = random.Random(seed)
    n = 400 if tier == "quick" else 6000
    cases = gen_bo(rng, n) + gen_iso(tier)
    for c in cases:
        res.count("kind:" + c["k"])
        if c["k"] == "iso":
            res.count("scenario:%d" % c["scn"])
        else:
            res.count("ops_len:%d" % min(len(c["ops"]), 40))
            res.count("attempts:%s" % ("0" if c["attempts"] == 0 else "1-31" if c["attempts"] < 32 else "32-40" if c["attempts"] <= 40 else "huge"))
    obs = C.differential(res, PROP, "c17", cases, to_coq, REQ, "c17_mismatches", "c17_model", make_oracle(res),
                         shrink=shrink, nontrivial=nontrivial, theorems_note=THEOREMS, shards=(8 if tier == "quick" else 16))
    if obs:
        for c, o in zip(cases, obs):
            if c["k"] == "iso":
                res.extra.setdefault("scenario_rows", []).append({"scn": c["scn"], "row": o["rows"][0], "detail": o.get("detail")})
            elif o["rows"] and o["rows"][-1][0] == 2:
                res.count("bo:panic(extreme)")
    return res.finish(assumptions=[
        "Instant::now() is not injectable: the model evaluates on_connection_failure at a fixed small `now`; triples whose delay lies within 2^41 s of the i64 overflow of Instant + Duration are not generated",
        "stack scenarios: the model predicts the observable class (socket up, healthy connection and listener present); which ZmqError class a given raw fault produces is not compared",
        "scenario 31 (event-bus lag) is deterministic only on a current-thread runtime; multi-thread runtimes need larger bursts and are not part of the check",
        "TcpConnecter's own retry loop (connect refused) is modelled and proved (C17_connecter_*) and tied through scenario 22: the delays it reports on the monitor (ConnectRetried) must be conn_initial / conn_next of the model for one of the possible inherited attempt counts",
    ])
