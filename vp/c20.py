"""C20 - the io_uring backend is observably equivalent to the Tokio backend; borrowed buffers always
come back; every connection fd is closed exactly once.  See DESIGN.md section 6 (C20).

 proof stage      : Props/C20.v (spill-over transducer, send-buffer pool, provided-buffer ring, fd/close-path
                    automaton, equivalence of the two connection shells) + audit
 kind A           : real SendBufferPool / ProvidedBufferRing (on a real io_uring, kernel-consumed buffers) /
                    ZmtpUringHandler driven through rzmq::verif::uring, compared with the models in Coq
 kind D           : the same peer behaviour and API calls on {tokio, io_uring} x zerocopy x multishot x cork;
                    the tokio run is the reference; fd and buffer accounting after quiescence
"""
import json
import os
import random
from . import common as C
from . import englib as E
from . import c04, c07

PROP = "C20"
REQ = ("From RZ Require Import Base.Prelude Model.Codec Model.Engine Model.Spill Model.UringPool Model.UringShell "
       "Corr.C03Corr Corr.EngCorr Corr.C20Corr.")
THEOREMS = ("C20_spill_fifo, C20_spill_flush, C20_spill_complete, C20_pool_free_nodup, C20_pool_conservation, C20_pool_refills, "
            "C20_ring_conservation, C20_ring_refills, C20_fd_closed_once, C20_backend_equiv (+ the _refuted witnesses)")

SIG_HB = "C20:uring-never-sends-heartbeats"
SIG_HS = "C20:uring-no-handshake-timeout"
SIG_PEERERR = "C20:uring-peer-error-connection-not-closed"
SIG_LOCALCLOSE = "C20:uring-fd-not-closed-on-local-close"
SIG_NINTH = "C20:uring-connection-notification-dropped-mailbox-full"
SIG_CORKIPC = "C20:uring-cork-on-ipc-breaks-connection"
SIG_TOKIO_EOF = "C20:tokio-drops-bytes-read-together-with-eof"


# ================================================================ kind A: generators

def gen_pool(rng):
    count = rng.choice([0, 1, 1, 2, 2, 3, 4, 8, 16])
    cap = rng.choice([0, 8, 16, 64]) if rng.random() < 0.15 else rng.choice([8, 16, 64])
    disciplined = rng.random() < 0.5
    ops = []
    nleases = 0
    held = []          # (ticket, id) - python-side ghost for disciplined histories (ids unknown until run: use handles)
    for _ in range(rng.randrange(4, 34)):
        r = rng.random()
        if r < 0.3:
            ops.append(["acq", rng.choice([0, 1, max(cap - 1, 1), max(cap, 1), cap + 1])])
        elif r < 0.5:
            ops.append(["lease"])
            nleases += 1
        elif r < 0.6 and nleases:
            ops.append(["hand", rng.randrange(nleases + (0 if disciplined else 1))])
        elif r < 0.75 and nleases:
            ops.append(["drop", rng.randrange(nleases + (0 if disciplined else 1))])
        else:
            ops.append(["rel", rng.randrange(0, max(count, 1) + (0 if disciplined else 2))])
    return {"k": "pool", "count": count, "cap": cap, "ops": ops}


def gen_ring(rng):
    entries = rng.choice([1, 2, 2, 3, 4, 5, 8])
    cap = rng.choice([16, 64, 256])
    ops = []
    live = []
    ntake = 0
    for _ in range(rng.randrange(6, 40)):
        r = rng.random()
        if r < 0.35:
            ops.append(["kernel", rng.choice([1, 3, cap // 2, cap, cap + 9])])
            r2 = rng.random()
            if r2 < 0.75:
                ops.append(["take_last"])
                live.append(ntake)
                ntake += 1
            elif r2 < 0.9:
                ops.append(["reprov"])
        elif r < 0.75 and live:
            h = live.pop(rng.randrange(len(live)))
            ops.append(["dropc", h])
        elif r < 0.8:
            ops.append(["dropc", ntake + 3])                     # no such chunk
        elif r < 0.87:
            ops.append(["take", 60 + rng.randrange(4), 1])       # buffer id out of range
        elif r < 0.93:
            ops.append(["take", 0, cap + 1])                     # CQE length larger than a buffer
        elif r < 0.97:
            ops.append(["reprov", 61])
        else:
            ops.append(["kernel", 5])                            # a completion that is never processed
    return {"k": "ring", "entries": entries, "cap": cap, "ops": ops}


def split_chunks(rng, data, hs_len):
    total = len(data)
    pat = rng.choice(["one", "hs", "hs-1", "hs+1", "rand", "bytes", "multi"])
    if pat == "one" or total < 3:
        cuts = []
    elif pat == "hs":
        cuts = [hs_len]
    elif pat == "hs-1":
        cuts = [max(1, hs_len - 1)]
    elif pat == "hs+1":
        cuts = [min(total - 1, hs_len + 1)]
    elif pat == "rand":
        cuts = [rng.randrange(1, total)]
    elif pat == "bytes" and total <= 200:
        cuts = [1] * (total - 1)
    else:
        cuts = []
        left = total
        for _ in range(rng.randrange(2, 7)):
            k = rng.randrange(1, max(2, min(left, 90)))
            cuts.append(k)
            left -= k
            if left <= 1:
                break
    chunks = []
    pos = 0
    for k in cuts:
        if pos + k >= total:
            break
        chunks.append(data[pos:pos + k])
        pos += k
    chunks.append(data[pos:])
    return [c for c in chunks if c]


def honest(rng):
    kind = rng.choice(["null", "null", "plain_s", "v2"])
    peer_rid = [rng.randrange(1, 256) for _ in range(rng.choice([0, 0, 3, 9]))] or None
    if kind == "null":
        cfg = E.mk_cfg(server=True, stype="PULL")
        hs = E.greeting("NULL", 0) + E.ready("PUSH", peer_rid)
    elif kind == "plain_s":
        cfg = E.mk_cfg(server=True, stype="PULL", plain=True, user="admin", pw="secret")
        hs = E.greeting("PLAIN", 0) + E.hello(E.asc("admin"), E.asc("secret")) + E.ready("PUSH", peer_rid)
    else:
        cfg = E.mk_cfg(server=True, stype="PULL")
        hs = E.greeting_v2(E.V2CODE["PUSH"]) + E.frame(peer_rid or [])
    msgs = c04.gen_msgs(rng)
    while len(msgs) < 2:
        msgs = msgs + c04.gen_msgs(rng)
    return cfg, hs, msgs, kind


def gen_handler(rng, hostile=None):
    cap = rng.choice([1, 1, 2, 3, 4])
    if hostile is not None:
        name, cfg, data = hostile
        cfg = dict(cfg)
        msgs = None
        hs_len = min(64, len(data))
        kind = "hostile:" + name
    else:
        cfg, hs, msgs, kind = honest(rng)
        data = hs + c04.msgs_bytes(msgs)
        hs_len = len(hs)
    chunks = split_chunks(rng, data, hs_len)
    ops = [["start"]]
    attach_at = rng.choice([0, 0, 1, len(chunks), len(chunks) + 1])
    mode = rng.choice(["plain"] * 6 + ["eof", "close", "ioerr", "droprx"]) if hostile is None else rng.choice(["plain", "plain", "close"])
    disturb_at = rng.randrange(0, len(chunks) + 1)
    for i, ch in enumerate(chunks):
        if i == attach_at:
            ops.append(["attach"])
        if mode != "plain" and i == disturb_at:
            ops.append([mode])
        ops.append(["read", [E.raw(ch)]])
        for _ in range(rng.choice([0, 0, 1, 2])):
            ops.append(rng.choice([["prepare"], ["poll"], ["pop", rng.choice([1, 1, 2, 5])], ["resume"], ["poll"]]))
    if mode != "plain" and disturb_at >= len(chunks):
        ops.append([mode])
    if hostile is not None:
        # what the worker does after `initiate_close_due_to_error`
        ops.append(["close"])
    ops.append(["attach"])
    n = 3 if msgs is None else len(msgs) + 1
    for _ in range(n):
        ops.append(["prepare"])
        ops.append(["pop", cap])
    ops.append(["poll"])
    return {"k": "handler", "cfg": cfg, "cap": cap, "multishot": False, "ops": ops, "msgs": msgs, "mode": mode, "kind": kind,
            "hostile": hostile is not None}


# ---------------------------------------------------------------- kind A: Coq printers

def nat(x):
    return "%d%%nat" % x


def pool_op_coq(o):
    n = o[0]
    if n == "acq":
        return "(CAcq %s)" % nat(o[1])
    if n == "lease":
        return "CLease"
    if n == "hand":
        return "(CHand %s)" % nat(o[1])
    if n == "drop":
        return "(CDrop %s)" % nat(o[1])
    return "(CRel %s)" % nat(o[1])


def ring_op_coq(o):
    n = o[0]
    if n == "kernel":
        return "(CKernel %s)" % nat(o[1])
    if n == "take_last":
        return "CTakeLast"
    if n == "take":
        return "(CTake %s %s)" % (nat(o[1]), nat(o[2]))
    if n == "reprov":
        return "CReprovLast" if len(o) == 1 else "(CReprov %s)" % nat(o[1])
    return "(CDropChunk %s)" % nat(o[1])


def handler_op_coq(o):
    n = o[0]
    if n == "read":
        return "(HRead [%s])" % "; ".join(E.piece_coq(p) for p in o[1])
    if n == "pop":
        return "(HPop %s)" % nat(o[1])
    return {"start": "HStart", "eof": "HEof", "attach": "HAttach", "prepare": "HPrepare", "resume": "HResume", "poll": "HPoll",
            "close": "HClose", "ioerr": "HIoErr", "droprx": "HDropRx"}[n]


def to_coq(c):
    if c["k"] == "pool":
        return "(KPool %s %s [%s])" % (nat(c["count"]), nat(c["cap"]), "; ".join(pool_op_coq(o) for o in c["ops"]))
    if c["k"] == "ring":
        return "(KRing %s %s [%s])" % (nat(c["entries"]), nat(c["cap"]), "; ".join(ring_op_coq(o) for o in c["ops"]))
    return "(KHandler %s %s [%s])" % (E.cfg_coq(c["cfg"]), nat(c["cap"]), "; ".join(handler_op_coq(o) for o in c["ops"]))


def strip_a(c):
    return {k: c[k] for k in ("k", "count", "cap", "ops", "entries", "cfg", "multishot") if k in c}


# ---------------------------------------------------------------- kind A: property oracles on the real code's output

def split_row(r, marks):
    """split a row at the marker values (in order)"""
    parts = []
    cur = []
    mi = 0
    for x in r:
        if mi < len(marks) and x == marks[mi] and len(cur) >= (2 if mi == 0 else 0):
            parts.append(cur)
            cur = []
            mi += 1
        else:
            cur.append(x)
    parts.append(cur)
    return parts


def oracle_pool(c, o):
    count = c["count"] if c["cap"] > 0 else 0
    held = {}           # lease handle -> (id, handed_over)
    kernel = []         # ids given to the kernel by acq / handed-over leases
    handles = 0
    disciplined = True
    for i, r in enumerate(o["rows"]):
        head = r[:r.index(77)]
        free = r[r.index(77) + 1:r.index(88, r.index(77))]
        inuse = r[r.index(88, r.index(77)) + 1:]
        if len(set(free)) != len(free):
            return "an id is twice in free_ids after op %d: %s" % (i, free)
        if any(x >= max(count, 0) for x in free) and free:
            return "free_ids holds an id outside the pool after op %d: %s" % (i, free)
        if len(inuse) != count:
            return "pool size changed"
        if i == 0:
            continue
        op = c["ops"][i - 1]
        # python-side ghost: who holds what
        if op[0] == "acq" and head[1]:
            kernel.append(head[1] - 1)
        elif op[0] == "lease" and head[1]:
            held[handles] = [head[1] - 1, False]
            handles += 1
        elif op[0] == "hand" and head[1]:
            if op[1] in held and not held[op[1]][1]:
                held[op[1]][1] = True
                kernel.append(held[op[1]][0])
        elif op[0] == "drop" and head[1]:
            h = held.pop(op[1], None)
            if h is not None and not h[1]:
                pass                      # unreleased lease dropped: buffer goes back
        elif op[0] == "rel":
            if op[1] in kernel:
                kernel.remove(op[1])
            else:
                disciplined = False       # double / stale / unknown release: conservation is not claimed beyond this point
        if disciplined:
            holders = kernel + [v[0] for v in held.values() if not v[1]]
            if sorted(free + holders) != list(range(count)):
                return ("free (+) held != all ids after op %d (%s): free=%s held=%s of %d"
                        % (i, op, free, holders, count))
    return None


def oracle_ring(c, o):
    if o["rows"] and o["rows"][0][0] == 94:
        return None
    if not o.get("content_ok", True):
        return "a buffer handed to the application does not hold the bytes the kernel wrote into that buffer id"
    out = set()
    for i, r in enumerate(o["rows"]):
        i77 = r.index(77, 3)
        i88 = r.index(88, i77)
        i99 = len(r) - 2
        slots = r[i77 + 1:i88]
        free = r[i88 + 1:i99]
        if any(s == 0 for s in slots):
            return "a ring slot is empty after op %d (the ring would run dry)" % i
        allb = slots + free
        if len(set(allb)) != len(allb):
            return "a buffer is in two places (ring slot / free pool) after op %d: %s" % (i, allb)
        if r[0] == 2 and r[1]:
            out.add(r[1])
        if out & set(allb):
            # a buffer handed out and not yet dropped must not be lent to the kernel or pooled
            live = set()
        if i > 0 and c["ops"][i - 1][0] == "dropc" and r[1] == 1:
            pass
    return None


def flatten_pops(rows):
    """messages popped by the application, as lists of frame rows"""
    msgs, _ = E.deliveries(rows)
    return msgs


def oracle_handler(c, o):
    rows = o["rows"]
    if rows and rows[0][0] in (95, 96):
        return "handler case crashed"
    got = flatten_pops(rows)
    heads = [r for r in rows if r[0] == 90]
    total_close = sum(r[2] for r in heads)
    err_close = any(r[3] for r in heads)
    if c["msgs"] is not None:
        exp = c04.expected_rows(c["msgs"])
        if c["mode"] == "plain":
            if got != exp:
                return ("application did not receive exactly the engine's deliveries in order: got %d of %d (pipe capacity %d, mode %s)"
                        % (len(got), len(exp), c["cap"], c["mode"]))
        else:
            # order and no duplication must hold in every case
            it = iter(exp)
            for g in got:
                for e in it:
                    if e == g:
                        break
                else:
                    return "messages reordered or duplicated on the way to the socket (mode %s)" % c["mode"]
    if c["hostile"] and err_close and total_close == 0 and any(r[1] == 8 for r in heads):
        return ("protocol error: the handler asked for close (initiate_close_due_to_error) but close_initiated emitted no "
                "RequestClose because is_closing was already set: the fd is never closed")
    return None


def sig_handler(c, o, msg):
    if "fd is never closed" in msg:
        return SIG_PEERERR
    return None


def oracle_a(c, o):
    if c["k"] == "pool":
        return oracle_pool(c, o)
    if c["k"] == "ring":
        return oracle_ring(c, o)
    return oracle_handler(c, o)


def sig_a(c, o, msg):
    if c["k"] == "handler":
        return sig_handler(c, o, msg)
    return None


# ================================================================ kind D: scenarios

def uring(o, cork=0):
    d = dict(o)
    d["IO_URING_SESSION_ENABLED"] = 1
    if cork:
        d["TCP_CORK"] = 1
    return d


BACKENDS = [("tokio", 0), ("uring", 0), ("uring", 1)]


def opts_for(base, be, cork):
    return uring(base, cork) if be == "uring" else dict(base)


def d_rawpeer(rng, n):
    """honest transcripts with all kinds of write boundaries; groups of (tokio, uring, uring+cork)"""
    cases = []
    for g in range(n):
        kind = rng.choice(["null", "null", "v2", "plain_s"])
        peer_rid = [rng.randrange(1, 256) for _ in range(rng.choice([0, 0, 3]))] or None
        base = {}
        if kind == "null":
            hs = E.greeting("NULL", 0) + E.ready("PUSH", peer_rid)
        elif kind == "plain_s":
            base = {"PLAIN_SERVER": 1, "PLAIN_USERNAME": "admin", "PLAIN_PASSWORD": "secret"}
            hs = E.greeting("PLAIN", 0) + E.hello(E.asc("admin"), E.asc("secret")) + E.ready("PUSH", peer_rid)
        else:
            hs = E.greeting_v2(E.V2CODE["PUSH"]) + E.frame(peer_rid or [])
        msgs = c04.gen_msgs(rng)
        while not msgs:
            msgs = c04.gen_msgs(rng)
        data = hs + c04.msgs_bytes(msgs)
        chunks = split_chunks(rng, data, len(hs))
        if len(chunks) > 12:
            chunks = chunks[:11] + [sum(chunks[11:], [])]
        slow = rng.random() < 0.3
        if slow:
            base["RCVHWM"] = 1
        for (be, cork) in BACKENDS:
            cases.append({"k": "rawpeer", "stype": "PULL", "opts": opts_for(base, be, cork), "writes": [[E.raw(c)] for c in chunks],
                          "gap_ms": rng.choice([0, 0, 10]), "expect_msgs": len(msgs), "recv_timeout_ms": 1200,
                          "app_delay_ms": 150 if slow else 0,
                          "grp": "raw%d" % g, "be": be, "cork": cork, "msgs": msgs, "cls": "rawpeer", "kind": kind})
    return cases


def d_hostile(rng, names=None):
    cases = []
    for (name, cfg, data) in c07.special_transcripts(rng):
        if names is not None and name not in names:
            continue
        if cfg.get("plain"):
            base = {"PLAIN_SERVER": 1, "PLAIN_USERNAME": "u", "PLAIN_PASSWORD": "p"}
            st = "REP"
        else:
            base = {}
            st = "PULL"
        for (be, cork) in BACKENDS[:2]:
            cases.append({"k": "rawpeer", "stype": st, "opts": opts_for(base, be, cork), "writes": [[E.raw(data)]],
                          "expect_msgs": 2, "hold_ms": 1400, "recv_timeout_ms": 300,   # tokio keeps a failed session (and its stream) for its 1 s minimum lifespan (SessionRegulator)
                         
                          "grp": "hostile:" + name, "be": be, "cork": cork, "cls": "hostile"})
    return cases


SIZES = [0, 1, 255, 256, 1023, 1024, 1025, 4095, 4096, 4097, 16383, 16384, 16385, 65535, 65536, 65537, 200000]


def d_pairs(rng, n, zc_threshold=4096):
    cases = []
    for g in range(n):
        sizes = [rng.choice(SIZES) for _ in range(rng.randrange(4, 14))]
        msgs = [[{"len": s, "seed": rng.randrange(256)}] for s in sizes]
        if rng.random() < 0.6:
            msgs.insert(rng.randrange(len(msgs) + 1),
                        [{"len": rng.choice([0, 3, 300]), "seed": 1}, {"len": rng.choice(SIZES[:14]), "seed": 2}, {"len": rng.choice([0, 5]), "seed": 3}])
        pat = rng.choice([("PUSH", "PULL"), ("PUSH", "PULL"), ("DEALER", "ROUTER")])
        slow = rng.random() < 0.4
        base_s = {"IO_URING_SNDZEROCOPY": 1, "IO_URING_ZC_SEND_THRESHOLD": zc_threshold}
        base_r = {"RCVHWM": 2} if slow else {}
        for (sb, rb, cork) in [("tokio", "tokio", 0), ("uring", "uring", 0), ("uring", "tokio", 1), ("tokio", "uring", 1)]:
            so = opts_for(base_s, sb, cork)
            ro = opts_for(base_r, rb, cork)
            cases.append({"k": "pair", "tr": "tcp", "send_type": pat[0], "recv_type": pat[1], "send_opts": so, "recv_opts": ro,
                          "msgs": msgs, "idle_ms": 4000, "recv_delay_ms": 200 if slow else 0, "recv_sleep_us": 500 if slow else 0,
                          "grp": "pair%d" % g, "be": "%s->%s" % (sb, rb), "cork": cork, "cls": "pair", "limit_s": 90})
    return cases


def d_manyframes():
    """bursts of many-frame multipart messages: one coalesced egress batch of more than 512 frames (more than 1024 iovecs,
    the UIO_MAXIOV limit of one writev) and more than the 16 KiB flattening threshold - the io_uring worker has to cut the
    scatter-gather list and continue with the rest (added after the seeded change C20-uring-iovec-window-drops-tail)"""
    msgs = [[{"len": 40, "seed": (7 * m + f) % 251} for f in range(250)] for m in range(24)]
    cases = []
    for (sb, rb) in [("tokio", "tokio"), ("uring", "uring"), ("uring", "tokio")]:
        so = opts_for({"SNDHWM": 1000}, sb, 0)
        ro = opts_for({"RCVHWM": 1000}, rb, 0)
        cases.append({"k": "pair", "tr": "tcp", "send_type": "PUSH", "recv_type": "PULL", "send_opts": so, "recv_opts": ro, "msgs": msgs,
                      "idle_ms": 3000, "recv_delay_ms": 0, "recv_sleep_us": 0, "grp": "manyframes", "be": "%s->%s" % (sb, rb),
                      "cork": 0, "cls": "pair", "limit_s": 90})
    return cases


def d_cork_ipc():
    msgs = [[{"len": 100, "seed": i}] for i in range(3)]
    cases = []
    for (sb, rb) in [("tokio", "tokio"), ("tokio", "uring")]:
        so = opts_for({"TCP_CORK": 1, "SNDTIMEO": 500}, sb, 1)
        ro = opts_for({"TCP_CORK": 1}, rb, 1)
        cases.append({"k": "pair", "tr": "ipc", "send_type": "PUSH", "recv_type": "PULL", "send_opts": so, "recv_opts": ro, "msgs": msgs,
                      "idle_ms": 1200, "grp": "corkipc", "be": "%s->%s" % (sb, rb), "cork": 1, "cls": "corkipc", "limit_s": 40})
    return cases


def d_peerclose():
    """the peer writes its handshake and 40 small messages in ONE write and closes its sending side at once"""
    hs = E.greeting("NULL", 0) + E.ready("PUSH")
    n = 40
    body = []
    for i in range(n):
        body += E.frame([i % 256, i // 256] + [7] * 8)
    cases = []
    for rep in range(2):
        for (be, cork) in BACKENDS[:2]:
            cases.append({"k": "rawpeer", "stype": "PULL", "opts": opts_for({}, be, cork), "writes": [[E.raw(hs + body)]],
                          "close_after_write": True, "expect_msgs": n, "recv_timeout_ms": 800, "app_delay_ms": 100 * rep,
                          "grp": "peerclose%d" % rep, "be": be, "cork": cork, "cls": "peerclose", "nmsgs": n})
    return cases


def d_timers():
    hs = E.greeting("NULL", 0) + E.ready("PUSH")
    cases = []
    for (be, cork) in BACKENDS[:2]:
        cases.append({"k": "silentpeer", "stype": "PULL", "opts": opts_for({"HEARTBEAT_IVL": 100, "HEARTBEAT_TIMEOUT": 300}, be, cork),
                      "writes": [[E.raw(hs)]], "listen_ms": 2500, "grp": "heartbeat", "be": be, "cls": "heartbeat"})
        cases.append({"k": "silentpeer", "stype": "PULL", "opts": opts_for({"HANDSHAKE_IVL": 300}, be, cork),
                      "writes": [], "listen_ms": 2500, "grp": "hsdeadline", "be": be, "cls": "hsdeadline"})
    return cases


def d_fanin():
    cases = []
    for be in ("tokio", "uring"):
        cases.append({"k": "fanin", "n": 12, "per": 2, "size": 64, "send_opts": {"LINGER": 100}, "recv_opts": opts_for({}, be, 0),
                      "recv_ms": 600, "grp": "fanin", "be": be, "cls": "fanin", "limit_s": 60})
    return cases


def d_churn(cycles):
    cases = []
    for (sb, rb, closer) in [("tokio", "tokio", "connector"), ("tokio", "uring", "connector"), ("uring", "tokio", "connector")]:
        cases.append({"k": "churn", "cycles": cycles, "per": 2, "size": 200, "send_opts": opts_for({"LINGER": 100}, sb, 0),
                      "recv_opts": opts_for({}, rb, 0), "recv_ms": 1500, "grp": "churn", "be": "%s->%s" % (sb, rb), "cls": "churn",
                      "seq": True, "limit_s": 40 + cycles, "sender_be": sb})
    return cases


def d_stall():
    hs2 = E.greeting("NULL", 1) + E.ready("PULL")
    cases = []
    for be in ("tokio", "uring"):
        cases.append({"k": "stall", "opts": opts_for({"SNDHWM": 8, "SNDTIMEO": 200, "LINGER": 100}, be, 0), "writes": [[E.raw(hs2)]],
                      "size": 60000, "send_ms": 2000, "max_msgs": 500, "grp": "stall", "be": be, "cls": "stall", "seq": True})
    return cases


def strip_d(c):
    drop = ("grp", "be", "cork", "cls", "msgs_expected", "kind", "nmsgs", "sender_be")
    d = {k: v for k, v in c.items() if k not in drop}
    if c["k"] == "rawpeer":
        d.pop("msgs", None)
    return d


# ---------------------------------------------------------------- kind D: judging

def outcome_class(o):
    """handshake outcome as the application sees it on the monitor"""
    ev = o.get("events", [])
    if "HandshakeSucceeded" in ev:
        return "succeeded"
    if "HandshakeFailed" in ev or "Disconnected" in ev:
        return "failed"
    return "none"


def judge_groups(res, cases, obs, cfgname):
    groups = {}
    for c, o in zip(cases, obs):
        groups.setdefault(c["grp"], []).append((c, o))
    for grp, members in groups.items():
        ref = [m for m in members if m[0]["be"] in ("tokio", "tokio->tokio")]
        if not ref:
            continue
        rc, ro = ref[0]
        cls = rc["cls"]
        broken = False
        for (c, o) in members:
            if o["rows"] and o["rows"][0][0] in (95, 96, 97) and cls != "corkipc":
                report(res, c, o, cfgname, "scenario crashed or hung (code %d) on %s" % (o["rows"][0][0], c["be"]), None)
                broken = True
        if broken:
            continue
        if cls == "rawpeer":
            exp = c04.expected_rows(rc["msgs"])
            for (c, o) in members:
                got, _ = E.deliveries(o["rows"])
                if got != exp:
                    report(res, c, o, cfgname, "backend %s (cork=%s) delivered %d of %d messages of an honest transcript "
                           "(tokio reference delivered %d)" % (c["be"], c.get("cork"), len(got), len(exp), len(E.deliveries(ro["rows"])[0])), None)
                elif outcome_class(o) != "succeeded":
                    report(res, c, o, cfgname, "handshake of an honest transcript not reported as succeeded on %s: %s" % (c["be"], o.get("events")), None)
        elif cls == "hostile":
            for (c, o) in members[1:]:
                if o["rows"] != ro["rows"]:
                    report(res, c, o, cfgname, "hostile transcript %s: delivered messages differ between backends" % grp, None)
                elif ro["closed_by_socket"] and not o["closed_by_socket"]:
                    report(res, c, o, cfgname, "hostile transcript %s: the tokio backend closes the connection, the io_uring backend keeps "
                           "it open (and reports %s on the monitor, tokio: %s)" % (grp, o["events"][2:], ro["events"][2:]), SIG_PEERERR)
                elif (not ro["closed_by_socket"]) and o["closed_by_socket"]:
                    report(res, c, o, cfgname, "hostile transcript %s: only the io_uring backend closes the connection" % grp, None)
        elif cls == "pair":
            for (c, o) in members:
                n = len(rc["msgs"])
                if o["rows"][-1] != [98, n] or o["rows"] != ro["rows"]:
                    report(res, c, o, cfgname, "socket pair %s (cork=%s): delivered sequence differs from the tokio->tokio reference "
                           "(%s vs %s messages)" % (c["be"], c["cork"], o["rows"][-1], ro["rows"][-1]), None)
        elif cls == "corkipc":
            for (c, o) in members[1:]:
                if ro["rows"][-1] == [98, 3] and o["rows"] != ro["rows"]:
                    report(res, c, o, cfgname, "TCP_CORK on an ipc endpoint: tokio delivers all messages, the io_uring backend %s"
                           % ("hangs" if o["rows"][0][0] == 97 else "delivers %s and drops the connection %s" % (o["rows"][-1], o.get("receiver_events"))),
                           SIG_CORKIPC)
        elif cls == "peerclose":
            for (c, o) in members:
                got = o["rows"][-1][1]
                if got != c["nmsgs"]:
                    report(res, c, o, cfgname, "peer wrote %d messages and closed: backend %s delivered %d" % (c["nmsgs"], c["be"], got),
                           SIG_TOKIO_EOF if c["be"] == "tokio" else None)
        elif cls == "heartbeat":
            if ro["pings"] < 1 or not ro["closed_by_socket"]:
                res.notes.append("heartbeat reference (tokio) did not ping/close in time: pings=%s closed=%s (machine load?)" % (ro["pings"], ro["closed_by_socket"]))
            else:
                for (c, o) in members[1:]:
                    if o["pings"] == 0 or not o["closed_by_socket"]:
                        report(res, c, o, cfgname, "HEARTBEAT_IVL=100 HEARTBEAT_TIMEOUT=300, peer never answers: tokio sent %d PING(s) and closed after %d ms; "
                               "io_uring sent %d PINGs and %s" % (ro["pings"], ro["eof_ms"], o["pings"], "closed" if o["closed_by_socket"] else "never closed"), SIG_HB)
        elif cls == "hsdeadline":
            if not ro["closed_by_socket"]:
                res.notes.append("handshake-deadline reference (tokio) did not close in time")
            else:
                for (c, o) in members[1:]:
                    if not o["closed_by_socket"]:
                        report(res, c, o, cfgname, "HANDSHAKE_IVL=300, peer silent: tokio disconnects after %d ms, io_uring keeps the connection for the "
                               "whole observation (2.5 s)" % ro["eof_ms"], SIG_HS)
        elif cls == "fanin":
            for (c, o) in members[1:]:
                if ro["rows"][-1][1] == 24 and o["rows"] != ro["rows"]:
                    report(res, c, o, cfgname, "12 concurrent connections to one PULL socket: tokio delivers from all, io_uring delivers per "
                           "connection %s (handshakes seen by the socket: %s of 12)" % (o.get("per_sender"), o.get("handshakes")), SIG_NINTH)
        elif cls == "churn":
            for (c, o) in members:
                exp = c["cycles"] * c["per"]
                leaked = o["end_sock"] - o["base_sock"]
                if o["rows"][-1][1] != exp:
                    # with the local-close leak every cycle adds a zombie connection: a shortfall there is the same finding
                    report(res, c, o, cfgname, "connect/transfer/disconnect cycles (%s): delivered %d of %d" % (c["be"], o["rows"][-1][1], exp),
                           SIG_LOCALCLOSE if (c["sender_be"] == "uring" and leaked > 2) else None)
                if leaked > 2:
                    report(res, c, o, cfgname, "%d connect/disconnect cycles (%s): %d socket fds still open after quiescence (baseline %d, now %d); "
                           "Close SQEs submitted by the worker: %d for %d registered fds"
                           % (c["cycles"], c["be"], leaked, o["base_sock"], o["end_sock"],
                              sum(1 for t in o["trace"] if t[0] == 1), sum(1 for t in o["trace"] if t[0] == 0)),
                           SIG_LOCALCLOSE if c["sender_be"] == "uring" else None)
                msg = trace_check(o["trace"])
                if msg:
                    report(res, c, o, cfgname, msg, None)
                msg = buffers_check(o.get("buffers_closed"))
                if msg:
                    report(res, c, o, cfgname, msg, None)
        elif cls == "stall":
            for (c, o) in members:
                if not o.get("closed_in_time") or not o.get("term_in_time"):
                    report(res, c, o, cfgname, "close()/term() did not finish with a peer that stopped reading (%s)" % c["be"], None)
                if o["end_sock"] - o["base_sock"] > 0:
                    report(res, c, o, cfgname, "fd left open after closing a socket whose peer stopped reading (%s)" % c["be"], None)
                msg = trace_check(o["trace"]) or buffers_check(o.get("buffers_end"))
                if msg:
                    report(res, c, o, cfgname, msg, None)


def trace_check(trace):
    """per fd number: Register, at most one Close SQE before the next Register; no failed close"""
    state = {}
    for (k, a, b) in trace:
        if k == 0:
            state[a] = 0
        elif k == 1:
            state[a] = state.get(a, 0) + 1
            if state[a] > 1:
                return "two Close SQEs were submitted for fd %d within one registration (double close)" % a
        elif k == 2 and b < 0:
            return "a Close SQE failed with errno %d for fd %d (closing an fd that is not open any more)" % (-b, a)
    return None


def buffers_check(b):
    if not b:
        return None
    for (free, mx, live) in b.get("recv", []):
        if live != 0:
            return "%d receive buffers are still referenced after quiescence" % live
        if free > mx:
            return "receive buffer pool holds %d buffers, more than its bound %d" % (free, mx)
    s = b.get("send")
    if s:
        n = len(s["inuse"])
        if sorted(s["free"]) != list(range(n)) or any(s["inuse"]):
            return "send-buffer pool not back to its initial occupancy after quiescence: free=%s in_kernel_use=%s" % (s["free"], s["inuse"])
    return None


RETRY = {"on": False, "groups": set()}


def report(res, c, o, cfgname, msg, sig):
    if sig is None and RETRY["on"]:
        # possibly a timing artefact of a loaded machine: the whole group is run once more, alone
        RETRY["groups"].add(c["grp"])
        return
    o2 = {k: v for k, v in o.items() if k not in ("trace",)}
    if "rows" in o2 and len(o2["rows"]) > 12:
        o2["rows"] = o2["rows"][:6] + [["..."]] + o2["rows"][-3:]
    res.violation({"property": PROP, "kind": "backends differ / resource not given back", "what": msg, "uring_config": cfgname,
                   "case": strip_d(c), "impl_obs": o2, "harness": "c20 (VH_URING=%s)" % cfgname, "signature": sig},
                  found_input=True, signature=sig)


def run_stack(res, cases, cfgname, tag):
    ok, log = C.build_harness()
    if not res.obligation(ok, "harness build: " + log[-1500:]):
        res.violation({"property": PROP, "broken": "harness build", "log": log[-3000:]}, found_input=False)
        return
    obs, hlog = C.run_harness("c20", [strip_d(c) for c in cases], PROP, tag=tag, timeout=3000, extra_env={"VH_URING": cfgname})
    if obs is None or len(obs) != len(cases):
        res.obligation(False, "stack scenarios (%s): %s" % (cfgname, str(hlog)[-1500:]))
        res.violation({"property": PROP, "broken": "harness run crashed (stack scenarios, %s)" % cfgname, "log": str(hlog)[-3000:]}, found_input=False)
        return
    res.evaluations += len(cases)
    for c, o in zip(cases, obs):
        res.count("D:%s:%s" % (c["cls"], c["be"]))
        res.nontrivial.add(json.dumps([cfgname, strip_d(c)], sort_keys=True)[:4000])
    RETRY["on"] = True
    RETRY["groups"] = set()
    judge_groups(res, cases, obs, cfgname)
    RETRY["on"] = False
    again = [dict(c, seq=True) for c in cases if c["grp"] in RETRY["groups"]]
    if again:
        res.notes.append("re-running %d scenario(s) of group(s) %s alone (first run differed; machine load?)" % (len(again), sorted(RETRY["groups"])))
        obs2, hlog = C.run_harness("c20", [strip_d(c) for c in again], PROP, tag=tag + "r", timeout=3000, extra_env={"VH_URING": cfgname})
        if obs2 is None or len(obs2) != len(again):
            res.violation({"property": PROP, "broken": "harness re-run crashed (%s)" % cfgname, "log": str(hlog)[-3000:]}, found_input=False)
        else:
            res.evaluations += len(again)
            judge_groups(res, again, obs2, cfgname)
    res.obligation(True, "stack scenarios for uring config %s judged" % cfgname)
    return obs


# ================================================================ main

def main(argv):
    tier, seed = C.tier_and_seed(argv)
    quick = tier == "quick"
    res = C.Result(PROP, tier, seed)
    res.rule = ("A: random op histories on the real SendBufferPool (count 0..16, double/stale/unknown releases, lease drop with and without "
                "hand-over), on the real ProvidedBufferRing with kernel-consumed buffers (1..8 entries) and on the real ZmtpUringHandler "
                "(honest NULL/PLAIN/v2 and hostile transcripts, all kinds of read boundaries, pipe capacities 1..4, attach before/within/"
                "after the handshake, drains, polls, EOF/close/io-error/receiver-drop disturbances), each compared row by row with the "
                "Coq models and judged by a property oracle. D: the same raw-peer transcripts, socket pairs (sizes around 255/256, the "
                "zero-copy threshold, the send-buffer size; multipart; slow receivers), peer-close, heartbeat, handshake-deadline, fan-in, "
                "connection churn and stalled-peer scenarios on tokio and io_uring (cork on/off) for the global worker configurations "
                "zerocopy x multishot; non-trivial = distinct scenario inputs")
    C.proof_stage(res, PROP, ["theories/Corr/C20Corr.vo"])
    rng = random.Random(seed)
    # ---- kind A
    na = (60, 40, 70) if quick else (600, 400, 700)
    cases = [gen_pool(rng) for _ in range(na[0])] + [gen_ring(rng) for _ in range(na[1])]
    cases += [gen_handler(rng) for _ in range(na[2])]
    hostile = c07.special_transcripts(rng)
    pick = hostile if not quick else [h for h in hostile if h[0] in ("more256", "ready_trunc_name", "plain_bad_cmdlen", "v2_identity_256",
                                                                      "error_cmd", "ping_ctx", "dirty_pad", "rev9")]
    for h in pick:
        cases.append(gen_handler(rng, hostile=h))
    for c in cases:
        res.count("A:" + c["k"] + (":" + c.get("mode", "") if c["k"] == "handler" else ""))
    only = os.environ.get("C20_ONLY", "AD")
    if "A" in only:
        C.differential(res, PROP, "c20", cases, to_coq, REQ, "c20_mismatches", "c20_model", oracle_a,
                       nontrivial=lambda c, o: len(o["rows"]) > 2, signature=sig_a, theorems_note=THEOREMS, strip=strip_a, tag="A")
    # ---- kind D
    configs = ["zc=0,ms=1", "zc=1,ms=0,sb=4,ss=8192"] if quick else ["zc=0,ms=1", "zc=1,ms=0,sb=4,ss=8192", "zc=1,ms=1,sb=2,ss=4096,rb=4,rs=4096", "zc=0,ms=0,rb=2,rs=2048"]
    for ci, cfgname in enumerate(configs if "D" in only else []):
        r2 = random.Random(seed * 1000 + ci)
        sc = d_rawpeer(r2, 4 if quick else 30)
        sc += d_hostile(r2, names=None if not quick else (["ready_trunc_name", "plain_bad_cmdlen", "more256", "ping_ctx"] if ci == 0 else ["rev9", "error_cmd"]))
        sc += d_pairs(r2, 2 if quick else 12, zc_threshold=4096)
        if ci == 0 or not quick:
            sc += d_manyframes()
        if ci == 0 or not quick:
            sc += d_timers() + d_fanin() + d_cork_ipc() + d_peerclose()
        sc += d_churn(30 if quick else (1000 if ci == 0 else 100))
        if ci == 1 or not quick:
            sc += d_stall()
        run_stack(res, sc, cfgname, "D%d" % ci)
    return res.finish(assumptions=[
        "cqe_processor.rs, main_loop.rs and multishot_reader.rs (completion handling) are NOT modelled: covered by the differential scenarios only",
        "kernel behaviour of io_uring (buffer selection order, SEND_ZC notifications) is trusted",
        "the socket's ingress pipe enters the spill-over theorems as an oracle (any full / not full / closed pattern)"])
