"""Helpers shared by the engine-level checks (C04, C05, C06, C07, C19): configuration and
transcript builders, Coq printers for Model/Engine.v + Corr/EngCorr.v."""
from . import common as C

REQ = "From RZ Require Import Base.Prelude Model.Codec Model.Engine Corr.C03Corr Corr.EngCorr."
STYPES = ["PAIR", "PUB", "SUB", "REQ", "REP", "DEALER", "ROUTER", "PULL", "PUSH", "XPUB", "XSUB"]
V2CODE = {n: i for i, n in enumerate(STYPES)}


def asc(s):
    return [ord(c) for c in s]


# ---------------------------------------------------------------- wire builders (python side)

def signature():
    return [0xFF] + [0] * 8 + [0x7F]


def greeting(mech="NULL", as_server=0, major=3, minor=0, pad=None, first=0xFF, last_sig=0x7F, mech_raw=None):
    m = mech_raw if mech_raw is not None else asc(mech) + [0] * (20 - len(mech))
    g = [first] + [0] * 8 + [last_sig] + [major, minor] + m[:20] + [as_server] + (pad if pad is not None else [0] * 31)
    return g


def greeting_v2(stype_code):
    return signature() + [1, stype_code]


def frame(body, more=False, cmd=False, long=None):
    fl = (1 if more else 0) | (4 if cmd else 0)
    n = len(body)
    if (n > 255) if long is None else long:
        return [fl | 2] + list(n.to_bytes(8, "big")) + list(body)
    return [fl, n] + list(body)


def prop(name, value):
    return [len(name)] + list(name) + list(len(value).to_bytes(4, "big")) + list(value)


def ready_body(stype, rid=None, extra=None):
    b = [5] + asc("READY") + prop(asc("Socket-Type"), asc(stype) if isinstance(stype, str) else stype)
    if rid:
        b += prop(asc("Identity"), rid)
    for (n, v) in (extra or []):
        b += prop(n, v)
    return b


def ready(stype, rid=None, extra=None):
    return frame(ready_body(stype, rid, extra), cmd=True)


def hello(user, pw):
    return frame([5] + asc("HELLO") + [len(user)] + list(user) + [len(pw)] + list(pw), cmd=True)


def welcome():
    return frame([7] + asc("WELCOME"), cmd=True)


def ping(ttl=0, ctx=()):
    return frame([4] + asc("PING") + list(ttl.to_bytes(2, "big")) + list(ctx), cmd=True)


def pong(ctx=()):
    return frame([4] + asc("PONG") + list(ctx), cmd=True)


def error_cmd(reason=()):
    return frame([5] + asc("ERROR") + list(reason), cmd=True)


# ---------------------------------------------------------------- configuration

def mk_cfg(server=False, stype="DEALER", rid=None, allow_v2=True, plain=False, curve=False, noise=False,
           user=None, pw=None, hb_ivl_ms=None, hb_timeout_ms=None, cork=False, zc=False, maxsz=-1):
    c = {"server": server, "stype": stype, "allow_v2": allow_v2, "plain": plain, "curve": curve, "noise": noise,
         "cork": cork, "zc": zc, "maxsz": maxsz}
    if rid is not None:
        c["rid"] = list(rid)
    if user is not None:
        c["user"] = user
    if pw is not None:
        c["pass"] = pw
    if hb_ivl_ms is not None:
        c["hb_ivl_ms"] = hb_ivl_ms
    if hb_timeout_ms is not None:
        c["hb_timeout_ms"] = hb_timeout_ms
    return c


def copt(v, f):
    return "None" if v is None else "(Some %s)" % f(v)


def cfg_coq(c):
    sec = c.get("sec_enabled", c.get("plain", False) or c.get("curve", False) or c.get("noise", False))
    opaque_ok = ("curve_sk" in c) or ("noise_sk" in c)
    return ("{| c_server := %s; c_stype := %s; c_rid := %s; c_sec_enabled := %s; c_allow_v2 := %s; "
            "c_use_plain := %s; c_use_curve := %s; c_use_noise := %s; c_plain_user := %s; c_plain_pass := %s; "
            "c_opaque_ok := %s; c_hb_ivl := %s; c_hb_timeout := %s; c_cork := %s; c_zc := %s; c_maxsz := %s |}") % (
        C.cbool(c.get("server", False)), C.cNlist(asc(c.get("stype", "DEALER"))),
        copt(c.get("rid"), C.cNlist), C.cbool(sec), C.cbool(c.get("allow_v2", True)),
        C.cbool(c.get("plain", False)), C.cbool(c.get("curve", False)), C.cbool(c.get("noise", False)),
        copt(c.get("user"), lambda s: C.cNlist(asc(s))), copt(c.get("pass"), lambda s: C.cNlist(asc(s))),
        C.cbool(opaque_ok),
        copt(c.get("hb_ivl_ms"), lambda v: str(v * 1000000)), copt(c.get("hb_timeout_ms"), lambda v: str(v * 1000000)),
        C.cbool(c.get("cork", False)), C.cbool(c.get("zc", False)), C.cZ(c.get("maxsz", -1)))


def c_pl(f):
    if "bytes" in f:
        return "(PLit %s)" % C.cNlist(f["bytes"])
    return "(PFill %d %d)" % (f["len"], f["seed"])


def c_fr(f):
    return "(%s, %s, %s)" % (C.cbool(f.get("more", False)), C.cbool(f.get("cmd", False)), c_pl(f))


def piece_coq(p):
    if "frame" in p:
        return "(PcFrame %s)" % c_fr(p["frame"])
    return "(PcRaw %s)" % c_pl(p)


def input_coq(i):
    if "net" in i:
        return "(CNet [%s] %d)" % ("; ".join(piece_coq(p) for p in i["net"]), i.get("at", i.get("t", 0)))
    if "wrote" in i:
        return "(CWrote %d)" % i["at"]
    if "deadline" in i:
        return "CDeadline"
    if "app" in i:
        return "(CApp [%s])" % "; ".join(c_fr(f) for f in i["app"])
    if "tick" in i:
        return "(CTick %d)" % i["tick"]
    if "close" in i:
        return "CClose"
    if "start" in i:
        return "CStart"
    raise ValueError(i)


def case_coq(c):
    return "(%s, %s, [%s])" % (cfg_coq(c["cfg"]), C.cbool(c.get("opaque", False)),
                               "; ".join(input_coq(i) for i in c["inputs"]))


def raw(bs):
    return {"bytes": list(bs)}


def piece_len(p):
    if "frame" in p:
        f = p["frame"]
        n = f["len"] if "len" in f else len(f["bytes"])
        return n + (2 if n <= 255 else 9)
    return p["len"] if "len" in p else len(p["bytes"])


def expand_piece(p):
    """python-side expansion of small pieces to bytes (used for re-chunking); big fills stay symbolic."""
    if "bytes" in p:
        return list(p["bytes"])
    return None


def chunk_pieces(pieces, cuts):
    """Split a list of pieces (all with literal bytes) into net inputs at the given chunk lengths."""
    data = []
    for p in pieces:
        data += p["bytes"]
    out = []
    pos = 0
    for k in cuts:
        out.append(data[pos:pos + k])
        pos += k
    out.append(data[pos:])
    return out


def deliveries(rows):
    """extract delivered messages (list of list of frame rows) and handshake/err rows from observation rows"""
    msgs = []
    cur = None
    left = 0
    other = []
    for r in rows:
        if r[0] == 6:
            cur = []
            left = r[1]
            if left == 0:
                msgs.append(cur)
        elif r[0] == 7 and cur is not None:
            cur.append(r[1:])
            left -= 1
            if left == 0:
                msgs.append(cur)
                cur = None
        elif r[0] in (5, 8, 9):
            other.append(r)
    return msgs, other


def opaque_summary(rows):
    """same summary as eng_model computes for opaque (CURVE/NOISE) configurations"""
    return [[sum(1 for r in rows if r and r[0] == 5), sum(1 for r in rows if r and r[0] == 6),
             sum(1 for r in rows if r and r[0] == 9), 1 if rows[-1][1] == 4 else 0]]
