#!/usr/bin/env python3
"""Regenerates MANIFEST.json from the table below (kept in one place so it stays valid)."""
import json

CHECKS = {
 "C03": dict(
   text="Machine-checked proof (Coq) over a branch-for-branch Gallina model of every encoder and decoder entry point: all encoders equal the RFC 23/37 frame rule, decode(encode) round-trips for every frame list and every segmentation, decoding of arbitrary bytes is independent of the cuts, slice/peek decoders agree with the live one under the stated overflow guard. The model is tied to /repo by running the real codec/parser/framer and the model on the same generated cases each run.",
   note="Trusted: Coq kernel+vm_compute, the hand-written model (checked by sampled correspondence, not proved), harness+facade, python driver. Msg/Bytes aliasing not modelled.",
   technique="Coq proof: stepper append-stability => chunk independence; round-trip by induction; differential correspondence vs real code",
   design="6/C03"),
 "C04": dict(
   text="Coq proof that the engine model (ZmtpEngine as an accumulator stepper) ends in the same protocol state with the same leftover and emits the same action sequence for every two segmentations of every byte string (any configuration, valid transcript or not), that its outputs are prefix-monotone in the received bytes, that well-formed messages are delivered one batch each, and that the session actor queues exactly the engine's deliveries (incl. those made in the read that completes the handshake). Tie: the real ZmtpEngine is driven with honest transcripts under single cuts at every position around the handshake end, byte-by-byte and random cuts and compared with the model; real PULL listeners (tokio and io_uring backends) are fed by a raw TCP peer with controlled write boundaries.",
   note="Trusted: Coq kernel, model faithfulness (sampled correspondence), harness/facade/driver; TCP delivers bytes in order. CURVE/NOISE transcripts are not generated for this property (opaque mechanisms).",
   technique="Coq proof: append-stable stepper => chunk independence of the engine; actor forwarding lemma; differential engine + raw-TCP stack scenarios",
   design="6/C04"),
 "C07": dict(
   text="Coq proofs over the engine model for every configuration and every input history: no panic site is reachable, the handler loop never runs out of fuel, every error closes the engine and Closed absorbs all inputs, with MAXMSGSIZE=m the undecoded leftover stays below max(64, 9+m), a frame of exactly m bytes is accepted and any larger one rejected (both header forms). Tie: hostile hand-written transcripts (>255 MORE frames, invalid UTF-8/truncated/oversized READY metadata, malformed PLAIN tokens, v2 abuse, bad greetings), mutated honest transcripts and random bytes under random segmentation and MAXMSGSIZE values are run on the real engine (catch_unwind, buffer_len logged) and on the model.",
   note="Trusted: as C04. Handshake-deadline and slot release of the session actor are not covered by this check yet (see DESIGN section 6/C07); CURVE/NOISE token parsers are not modelled.",
   technique="Coq proof: invariants by case analysis over every micro-step of the engine model + quiescence bound; mutation-fuzz differential correspondence",
   design="6/C07"),
 "C12": dict(
   text="Coq refinement proof: the subscription trie model (written after trie.rs incl. early return, restore-on-zero, unpruned children) refines a multiset of topics for every subscribe/unsubscribe history; matches t m <-> some active topic is a prefix of m; N subscribes need N unsubscribes; the three subscriber-side filter paths apply the same first-frame predicate and keep order. Publisher side: sequential per-peer send model with the refuted 'never blocks' statement as a witness. Tie: op histories and filtered sends run on the real SubscriptionTrie / FilteredAnonymous sender and on the model; real PUB/SUB sockets over inproc and tcp.",
   note="Trusted: Coq kernel, model faithfulness (sampled), harness. Concurrent match-while-update is not modelled (sequential histories only).",
   technique="Coq proof: refinement of the trie to a topic multiset (induction over topic bytes and op histories); differential correspondence + real PUB/SUB scenarios",
   design="6/C12"),
 "C06": dict(
   text="Coq proof over the engine model, for every configuration with a mechanism enabled and EVERY input history (no grammar, no depth bound): if HandshakeComplete or DeliverMessage is ever emitted then ZMTP/3 was negotiated and a non-NULL mechanism completed (gating invariant by induction over micro-steps); a ZMTP/2.0 greeting is refused when a mechanism is configured; for PLAIN, authentication is reached only by a step decoding HELLO(u,p) with the configured credentials. Tie: attacker streams from the property's grammar against real engines configured with PLAIN/CURVE/NOISE_XX (either role) and raw attackers against a real PLAIN listener on both backends.",
   note="Trusted: as C04. CURVE/NOISE_XX are opaque in the model (an attacker without keys cannot complete them: mech_sound); for those configurations only the security-relevant summary of the real engine's behaviour is compared. Cryptographic soundness of dryoc/snow is not claimed.",
   technique="Coq proof: inductive security invariant over all engine micro-steps and input histories; attacker-grammar differential correspondence",
   design="6/C06"),
 "C11": dict(
   text="Coq proofs: RouterMap invariant and true-peer lookup for every attach/identity/detach/reconnect history with pairwise-distinct identities, exact characterisation under collisions (with refuted witness), envelope round trips DEALER/REQ/REP/ROUTER for every payload shape incl. empty frames, ROUTER_MANDATORY decision theorem, identity-gate labelling. Tie: op histories on the real RouterMap, real strategies/framing functions, and real ROUTER/DEALER/REQ sockets over inproc and tcp.",
   note="Trusted: as C03 plus HashMap iteration order as an oracle input. Per-pipe send permit and event-bus ordering are exercised, not proved. Four genuine defects recorded as known findings (collision detach, part-wise send to unknown identity x2, part-wise send to REQ).",
   technique="Coq proof: map invariants by induction over op histories, envelope algebra; differential correspondence + real-socket scenarios",
   design="6/C11"),
 "C13": dict(
   text="Coq proofs for every add/remove/send history and every readiness oracle: cursor invariant, NoDup peers, exact round-robin cycle, removal keeps the turn order, routing hands a message to exactly one peer or returns it, full peers are skipped, no starvation bound n (tight), DEALER send answer soundness, and wait_for_connection has no lost wake-up on any schedule (with the pinned commit's order kept as refuted witness). Tie: histories with scripted peer readiness and membership changes injected during send calls on the real LoadBalancer/OutgoingMessageOrchestrator, the wait race replayed through a schedule point (single- and multi-thread), real DEALER/ROUTER probe.",
   note="Trusted: as C03; peer readiness is an oracle; tokio Notify semantics (notify_waiters wakes exactly the existing Notified futures) is an assumption taken from the tokio docs. Two genuine defects were found and repaired by fix: commits.",
   technique="Coq proof: invariants and exact rotation arithmetic by induction over histories; small-step interleaving model of the Notify race; schedule-point correspondence",
   design="6/C13"),
 "C14": dict(
   text="Coq proofs over a model of every send method of the three connection objects (session ScaConnectionIface, inproc DirectInprocConnection, io_uring ZmtpSmartConnection: send_message / send_multipart / send_multipart_owned / try_send_multipart_owned_sync) and of the PUSH and DEALER wrappers, with abstract time and an oracle for what the pipe does while the call waits, the timer entering as a function with the law d <= fire d <= d + slack: at SNDTIMEO=0 a full pipe answers at time 0 with the pipe untouched; a positive SNDTIMEO never fails early, answers Timeout/WouldBlock inside [d, d+slack] and does not enqueue; Ok iff the message is on the pipe exactly once, Err implies it is not (no spurious success, handed back exactly for the _owned/_sync methods); RCVTIMEO 0 / positive / -1 likewise for the four recv engines; SNDTIMEO=-1 really waits only in the session's send_multipart_owned (every other path gives up at a 30 s / 300 s fall-back: refuted with witnesses, proved outside); per-connection buffering is bounded by 2*SNDHWM + RCVHWM + one read (sessions, over C01's pipeline model) and 2*RCVHWM + RCVBATCH_COUNT (inproc) in every reachable state; the DEALER pending queue holds at most SNDHWM. Tie: the real connection objects over a bounded fibre channel under a paused tokio clock (answer, virtual elapsed ms, copies on the pipe, what came back) compared exactly with the model; real PUSH/DEALER/ROUTER/REQ sockets at their mark over tcp/inproc x HWM x SNDTIMEO x peer pacing, and idle receivers.",
   note="Trusted: tokio timers fire no earlier than asked (premise fire law); 'one read' bounding the ingress buffer is a premise; ROUTER's private recv path is tied on real sockets only; ROUTER is tested with ROUTER_MANDATORY=1 (silent drop at the mark otherwise is documented ZeroMQ behaviour). Five genuine defects recorded as known findings (three -1 fall-backs, SNDTIMEO snapshot at connect, DEALER queue processor loses a queued message).",
   technique="Coq proof: case analysis over the 12 send methods and 4 recv engines with abstract time (lia), invariant of the admission-guarded pipeline by induction over runs; paused-clock facade correspondence + real-socket scenarios",
   design="6/C14"),
 "C15": dict(
   text="Coq proofs over a transition model of the socket core's ShutdownCoordinator (Running/Lingering/CleaningPipes/Finished, abstract clock, pipe-emptiness inputs) composed with the session's reaction to a stop request and with the C01 data path and the peer's engine: a bounded LINGER d ends the shutdown at the first maintenance tick at or after t0+d (before t0+d+P for tick spacing P) for every queue content, LINGER 0 finishes inside initiate_core_shutdown, LINGER -1 waits exactly for empty pipes; for every LINGER and every schedule (session stopped at any point, any write/read segmentation) what the peer's recv() returns is a prefix of what send() accepted, each message whole (engine lemma: any prefix of a valid stream + EOF delivers the first k messages). 'LINGER -1 transmits everything' is refuted for the code (witnesses: a message in the EgressBuffer, a message still in the pipe - the session reacts to the bus event itself) and proved outside that class. Tie: op scripts on the real coordinator / initiate_core_shutdown / check_and_advance_linger through a facade with scripted pipes on a 40 ms clock grid; real PUSH->PULL pairs over tcp/ipc/inproc for LINGER {-1,0,1,50,500,5000} x queue depth x receiver pacing x close/term/handle drop.",
   note="Trusted: as C01; Instant::now() is not injectable (clock grid with retry); how many messages get through before the session stops is scheduler dependent (D, partial). One genuine defect recorded as a known finding (LINGER is not honoured over tcp/ipc).",
   technique="Coq proof: coordinator invariants and deadline arithmetic (lia), invariant of the composed system by induction over schedules, reuse of the engine prefix-monotonicity; facade scripts + real-socket scenarios",
   design="6/C15"),
 "C16": dict(
   text="Coq proofs: the context WaitGroup counts exactly the actors that hold an ActorDropGuard for every interleaving of spawns, first polls, waive/set_error, exits, aborts and panics (each exit path decrements once, the zero-count branch is unreachable); count = live actors exactly when no spawned task awaits its first poll (refuted witness otherwise); WaitGroup::wait composed with those events sees the guard count, never loses its wake-up and has returned once all guards are dropped; the shutdown state machine reaches Finished from every reachable state for every LINGER and phases only move forward; a transcribed table of (socket type, operation, first check, first await, who wakes it) is complete and every direct operation on a closed socket fails at once, mailbox operations outside one window (refuted inside), every blocked operation except REQ send without a peer is released. Tie: scripts over the real ActorDropGuard/WaitGroup (guards in aborted / panicking / unstarted tasks); ~200 histories on real sockets (ops on closed sockets for all 8 types, racing mailbox commands, blocked recv/send, connect retries, silent handshakes, close/term injected at every call boundary of 4 socket-pair scripts over tcp/ipc/inproc) with latencies, live-actor count, alive tasks, registered sockets/names, re-bind, panics.",
   note="Trusted: as C13 (tokio Notify semantics); the operations table was transcribed by reading the code and is exercised row by row; bounded time is checked against LINGER + 2/2.5 s and 'promptly' as 500 ms on a loaded machine; scheduler starvation is outside the model. Five genuine defects recorded as known findings (undrained mailbox, REQ send never woken, term before first poll, session in handshake ignores stop, session leaked by a connection set up during shutdown).",
   technique="Coq proof: counting invariant by induction over lifecycle event interleavings, simulation into the WaitGroup::wait small-step model, finite table by vm_compute + forallb_forall, coordinator progress; guard-script and real-socket history correspondence",
   design="6/C16"),
 "C17": dict(
   text="Coq proofs: full arithmetic of the reconnect back-off for all (base, max, attempts) incl. u32/Duration saturation (first delay, at most geometric growth, monotone, capped by max, success resets, no wrap), and fault isolation over a transition model of the socket core's event handling (any sequence of connection faults keeps the socket Running and other endpoints untouched; retries scheduled with exactly the back-off delay), with refuted witnesses where the code shuts the whole socket down. Tie: histories on the real ReconnectState; 15 stack scenarios injecting faults next to a healthy connection; measured reconnect pacing.",
   note="Trusted: as C03; the Err-to-loop decision table of the core was transcribed by reading the code; Instant::now() cannot be injected. Three genuine defects recorded as known findings (reconnect race, event-bus lag x2), one repaired (inproc refusal shut the binder down).",
   technique="Coq proof: saturating arithmetic lemmas (lia/nia) + invariants over the event-handling transition system; differential + fault-injection scenarios",
   design="6/C17"),
 "C05": dict(
   text="Coq proofs: generic confluence of a two-node Kahn network of prefix-monotone stream functions; instantiated with the engine model (F monotone by the engine's chunk independence): for ANY two configurations and ANY two delivery schedules (any order, any fragment sizes, byte-by-byte included) that drain both channels, both engines end in the same protocol states having emitted the same actions, and a delivery step is always enabled while bytes are in flight (no deadlock of the staged greeting). On the explicit grid {11 wire socket types}^2 x {NULL, PLAIN ok, PLAIN wrong password, mechanism mismatch either way} x {no ids, 1-byte/255-byte ids} every schedule ends with both sides in Data agreeing on each other's type and id (compatible) or nobody completing and a side failing (incompatible). ZMTP/3 gives exactly the ZMTP/2 table's verdict on all 121 pairs; inproc agrees on the 8 implemented types except DEALER-DEALER (known finding). Tie: pairs of real engines under generated schedules; real socket pairs of all type combinations over tcp and inproc.",
   note="Trusted: as C04. The symbolic claim for arbitrary routing ids/credentials is replaced by the stated finite grid (vm_compute); schedule independence itself is unbounded. EOF propagation after one side closes is the transport's/actor's job.",
   technique="Coq proof: Kahn-network confluence (least fixpoint, prefix order) + engine monotonicity; finite grid by vm_compute lifted with forallb_forall; schedule-driven differential correspondence",
   design="6/C05"),
 "C19": dict(
   text="Coq proofs over the engine model with explicit time, for all (HEARTBEAT_IVL, HEARTBEAT_TIMEOUT), states and times: the complete decision rule of on_tick; a PING is sent only when idle >= IVL with none outstanding, and within two intervals when ticks come at most one interval apart; an unanswered PING closes with Timeout at the next tick after the deadline and ONLY then; PONG clears the flag; a run in which no tick finds a PING outstanding for the timeout never closes (live peer), nor does a connection with traffic inside each interval; every PING is answered by a PONG echoing the context as its own frame; malformed PINGs are ignored; ZMTP/2.0 sessions never ping. Tie: 400 generated timelines (ticks at virtual times away from decision boundaries, PINGs with 0..40-byte contexts, PONGs, malformed commands, data) on the real engine vs the model and an independent reference.",
   note="Trusted: as C04; Instant::now() inside the engine cannot be injected, so network activity is always at harness time ~0 while tick times are virtual; tokio interval regularity is a premise; heartbeats under an encrypted framer are C18's subject, the io_uring backend's tick source C20's.",
   technique="Coq proof: case analysis of the timed decision rule, run-level invariants by induction over input histories; differential correspondence with virtual tick times",
   design="6/C19"),
 "C01": dict(
   text="Coq proofs that every stage of a connection is an order-preserving, loss-free, duplication-free list transducer, for every size mix, limit and schedule: session batch assembly (`batch ++ carry' ++ pipe' = carry ++ pipe`, lifted to any number of cycles; oldest message always progresses), EgressBuffer under arbitrary partial writes (bytes written are a prefix of a layout keeping data chunks in push order with priority chunks only on chunk boundaries), IngressDriver with cancellation at every await point (delivered ++ queue ++ buffer = entered), DEALER pending queue (no loss/dup; order refuted, known finding), inproc accumulator; composed with the engine theorems into C01_end_to_end (received is a prefix of accepted at every moment and equal at quiescence). Tie: real EgressBuffer/EgressDriver and IngressDriver through facades, 168 logged batch-assembly transitions from real sessions replayed on the model, and real socket pairs (PUSH/DEALER/ROUTER/REQ/REP x tcp/ipc/inproc x runtimes x option vectors x first-send timing) with per-sender sequence oracles.",
   note="Trusted: as C03; TCP/ipc/fibre channels are FIFO and reliable (Section hypotheses); select! scheduling of stage activations is abstracted as any order; io_uring sessions are C20's. One defect repaired (carry-over top-up reorder), one recorded (DEALER pending queue).",
   technique="Coq proof: list-transducer equations by induction over op sequences and schedules, composed; function-level, trace-validation and real-socket correspondence",
   design="6/C01"),
 "C02": dict(
   text="Coq proofs for all histories and frame counts: the receiving engines (AnonymousIngressEngine, DEALER/ROUTER frame_recv_buffer) hand out exactly the concatenation of the popped batches, contiguous and in order, under any mix of recv/recv_multipart and attach/detach events; every send_multipart path puts MORE on all but the last frame and never truncates, so the peer's engine reassembles exactly one batch (via data_phase_delivers); exact panic conditions of FrameBatch (255-element VecU8) and the over-long-wire theorem (256+ frames => PeerError, nothing of the message delivered). Tie: op histories on the real FrameBatch and AnonymousIngressEngine, scripted single connections and multi-peer real-socket scenarios over tcp and inproc with (msg id, index, count) tags.",
   note="Trusted: as C03; ReadyPipeQueue is modelled sequentially here (its interleavings are C08's). Defects repaired: cache cleared on deregister, recv_multipart ignoring the frame buffer, ROUTER flag normalisation; recorded: REQ/REP recv truncation, >255-frame panics (sender, ROUTER recv, inproc reader), PUSH part-wise spreading.",
   technique="Coq proof: refinement of the ingress state machines to list concatenation, flag algebra, explicit Panic outcomes; differential + real-socket scenarios",
   design="6/C02"),
 "C08": dict(
   text="Coq proofs over a small-step interleaving model of ReadyPipeQueue at the granularity of its atomic actions, for every program set, capacity and EVERY schedule of steps, cancellations and deregistrations: the invariant (queued/reserved/token accounting, FIFO), no stale pop, no underflow, exactly-once in per-pipe order, no lost wake-up at quiescence, deadlock freedom, pop completes in 5 own steps, cancel safety; a waker layer (which parked consumer is actually woken) with the refuted witness for pop() dropped after wake; WaitGroup::wait safe on every schedule (create-then-check). Tie: 25 schedule points in the real code, one OS thread per model thread, a baton scheduler replaying each schedule one atomic action at a time with real wakers, rows compared step by step; thorough enumerates all schedules of small programs.",
   note="Trusted: as C03; fibre channels are linearizable FIFO queues; atomics are sequentially consistent; premise np <= ready capacity (documented requirement) is not discharged against MAX_CONNECTIONS. One defect repaired (WaitGroup lost wake-up), one recorded (wake-one + dropped pop).",
   technique="Coq proof: inductive invariant over all interleavings of a small-step semantics; schedule-point replay correspondence (exhaustive for small programs)",
   design="6/C08"),
 "C18": dict(
   text="Coq proofs relative to an ideal symbolic AEAD (Section hypotheses: open(seal)=Some, authenticity, length law): the record layer is an append-stable stepper (segmentation independence), every batch of any size decodes to the same frames at the peer (records chunked at 65519 bytes), for every sent sequence and EVERY unforged modified stream the receiver delivers exactly a prefix of the sent messages, whole, then errors (tamper prefix safety), emitted data bytes are length prefixes and seal outputs only, Noise sessions differ; refuted witnesses for heartbeats bypassing the record layer and for CURVE keys depending on static keys only. Tie: real CURVE and NOISE_XX engine pairs (real handshakes), generated batches up to 131100 bytes, all single and sampled double mutations of the record stream, heartbeat ticks, two sessions on equal static keys; the model side runs with a toy executable AEAD with the same 16-byte expansion.",
   note="Trusted: as C04 plus the symbolic idealisation of dryoc's crypto_box / snow's ChaChaPoly (no claim about the primitives or side channels); no-forgery premise `unforged` on attacker streams. One defect repaired (u16 record length wrap), two recorded.",
   technique="Coq proof relative to an ideal symbolic AEAD: append-stable record stepper, lock-step counter induction over arbitrary unforged streams; differential correspondence on real CURVE/NOISE_XX engine pairs",
   design="6/C18"),
 "C20": dict(
   text="Coq proofs for the io_uring backend: the handler's spill-over stash is FIFO for every order of deliver/attach/resume/drain/poll and every pipe-full pattern, is flushed completely once the pipe has room and throttles reads while non-empty; the registered send-buffer pool's free list never holds an id twice and free + held = all ids for every order of acquire/lease/release/drop; the provided-buffer ring lends every slot to the kernel and publishes/reports every buffer id exactly once; at most one successful close per fd; and for every configuration, every segmentation of the peer's bytes, every attach/drain/poll interleaving and pipe pattern the io_uring handler shell and the tokio session shell forward the same deliveries, handshake outcome and error class (built on the engine chunk independence of C04). The configurations in which the shells differ (heartbeats, handshake deadline, protocol error never closing, stash stranded at EOF) are refuted with witnesses. Tie: real SendBufferPool / ProvidedBufferRing on a real ring (the kernel consumes buffers over a socketpair), a real ZmtpUringHandler fed chunked transcripts with attach/drain/poll/EOF events, all compared row by row in Coq; differential runs of raw-peer transcripts, socket pairs around the 255/256, zero-copy and buffer-size thresholds, peer close, heartbeat, handshake deadline, fan-in and connection churn on tokio vs io_uring (x cork, x zerocopy/multishot worker configurations), with fd counts, Close-SQE traces and pool occupancy after quiescence.",
   note="Trusted: as C04; cqe_processor.rs / main_loop.rs / multishot_reader.rs are covered by the differential runs only; SEND_ZC is unreachable in this tree (egress goes through writev), so zerocopy on/off cannot differ; observability counters are compiled out, facade accessors take their place. Seven genuine defects recorded as known findings.",
   technique="Coq proof: invariants by induction over event sequences (spill FIFO, pool/ring conservation, close-once), shell equivalence by reduction to the shared engine stepper; facade correspondence on real ring objects + tokio/io_uring differential scenarios",
   design="6/C20"),
 "C10": dict(
   text="Coq proofs over a small-step model of REQ and REP cut at the code's lock scopes and await points, for every number of tasks, every program and EVERY schedule (induction over schedules): the commit trace of successful calls is accepted by the alternation automaton (send, recv, send, ... on REQ; recv, send, ... on REP; with the code's reset events), a call refused by its opening state check changes nothing, every REP reply is addressed with the routing prefix and pipe of the request returned by the immediately preceding successful recv. Tie: schedule points between state check and state update in the real req_socket.rs / rep_socket.rs; real REQ/REP sockets with scripted ROUTER/DEALER peers; every call future polled by hand so that one token advances one task from point to point; all 2-task (thorough: 3-task) interleavings of every call kind and call orders up to length 3 (5) compared row by row with the model; 4-worker stress as failing-input search.",
   note="Trusted: as C03; one poll of select! is atomic; tokio Notify semantics; SNDTIMEO, closing sockets and full pipes are not modelled. The check-then-act races found on the real code are recorded as known findings (the in-flight-guard repair made an existing test spin and was withdrawn); see known_findings.json.",
   technique="Coq proof: invariant over all interleavings of a small-step model with a ghost commit trace; schedule-point replay correspondence (exhaustive for 2-3 concurrent calls)",
   design="6/C10"),
}
NOT_APPLICABLE = {}

def main():
    props = [json.loads(l)["id"] for l in open("/verif/properties.jsonl")]
    checks = []
    for p in props:
        if p not in CHECKS:
            continue
        c = CHECKS[p]
        checks.append({
            "property_id": p,
            "quick_cmd": "./check %s quick" % p,
            "thorough_cmd": "./check %s thorough" % p,
            "evidence_file": "/verif/evidence/%s.json" % p,
            "replay_cmd_template": "./check %s --replay {path}" % p,
            "engine": "coq-model+correspondence",
            "level_claimed": {"category": "proof", "text": c["text"], "design_ref": c["design"]},
            "level_note": c["note"],
            "technique": c["technique"],
        })
    na = [{"property_id": p, "reason": NOT_APPLICABLE.get(p, "not yet covered by a check in this revision of /verif (work in progress; see DESIGN.md section 11)")}
          for p in props if p not in CHECKS]
    man = {
        "version": 1,
        "setup_cmd": "./setup.sh",
        "hooks": {
            "guard": "rzmq_verif",
            "enable": "RUSTFLAGS=\"--cfg rzmq_verif\" (set in /verif/harness/.cargo/config.toml); facade module core/src/verif",
            "baseline_off_cmd": "cd /repo && cargo nextest run --workspace --no-fail-fast --test-threads 8 --offline || cargo test --workspace --no-fail-fast --offline",
            "source_commits": HOOK_COMMITS,
            "add_only": True,
        },
        "engines": [{"name": "coq-model+correspondence", "path": "/verif/check",
                     "serves_properties": [c["property_id"] for c in checks],
                     "kind_free_text": "Coq 8.16 theorems over hand-written Gallina models + differential correspondence harness (Rust) against /repo"}],
        "checks": checks,
        "not_applicable": na,
        "notes": "See DESIGN.md. Proof level everywhere; the correspondence run is sampling and is labelled as such in evidence.",
    }
    json.dump(man, open("/verif/MANIFEST.json", "w"), indent=1)
    print("manifest: %d checks, %d not claimed" % (len(checks), len(na)))

import subprocess
HOOK_COMMITS = subprocess.run("git -C /repo log --format=%H --grep='^verif hooks' ", shell=True, stdout=subprocess.PIPE).stdout.decode().split()

if __name__ == "__main__":
    main()
