#!/usr/bin/env python3
"""Regenerates MANIFEST.json from the table below (kept in one place so it stays valid)."""
import json

CHECKS = {
 "C03": dict(
   text="Machine-checked proof (Coq) over a branch-for-branch Gallina model of every encoder and decoder entry point: all encoders equal the RFC 23/37 frame rule, decode(encode) round-trips for every frame list and every segmentation, decoding of arbitrary bytes is independent of the cuts, slice/peek decoders agree with the live one under the stated overflow guard. The model is tied to /repo by running the real codec/parser/framer and the model on the same generated cases each run.",
   note="Trusted: Coq kernel+vm_compute, the hand-written model (checked by sampled correspondence, not proved), harness+facade, python driver. Msg/Bytes aliasing not modelled.",
   technique="Coq proof: stepper append-stability => chunk independence; round-trip by induction; differential correspondence vs real code",
   design="6/C03"),
}
NOT_APPLICABLE = {}

def main():
    props = [json.loads(l)["id"] for l in open("/verif/properties.jsonl")]
    checks = []
    for p in props:
        if p not in CHECKS:
            continue
        c = CHECKS[p]
        checks.append({
            "property_id": p,
            "quick_cmd": "./check %s quick" % p,
            "thorough_cmd": "./check %s thorough" % p,
            "evidence_file": "/verif/evidence/%s.json" % p,
            "replay_cmd_template": "./check %s --replay {path}" % p,
            "engine": "coq-model+correspondence",
            "level_claimed": {"category": "proof", "text": c["text"], "design_ref": c["design"]},
            "level_note": c["note"],
            "technique": c["technique"],
        })
    na = [{"property_id": p, "reason": NOT_APPLICABLE.get(p, "not yet covered by a check in this revision of /verif (work in progress; see DESIGN.md section 11)")}
          for p in props if p not in CHECKS]
    man = {
        "version": 1,
        "setup_cmd": "./setup.sh",
        "hooks": {
            "guard": "rzmq_verif",
            "enable": "RUSTFLAGS=\"--cfg rzmq_verif\" (set in /verif/harness/.cargo/config.toml); facade module core/src/verif",
            "baseline_off_cmd": "cd /repo && cargo nextest run --workspace --no-fail-fast --test-threads 8 --offline || cargo test --workspace --no-fail-fast --offline",
            "source_commits": HOOK_COMMITS,
            "add_only": True,
        },
        "engines": [{"name": "coq-model+correspondence", "path": "/verif/check",
                     "serves_properties": [c["property_id"] for c in checks],
                     "kind_free_text": "Coq 8.16 theorems over hand-written Gallina models + differential correspondence harness (Rust) against /repo"}],
        "checks": checks,
        "not_applicable": na,
        "notes": "See DESIGN.md. Proof level everywhere; the correspondence run is sampling and is labelled as such in evidence.",
    }
    json.dump(man, open("/verif/MANIFEST.json", "w"), indent=1)
    print("manifest: %d checks, %d not claimed" % (len(checks), len(na)))

import subprocess
HOOK_COMMITS = subprocess.run("git -C /repo log --format=%H --grep='^verif hooks' ", shell=True, stdout=subprocess.PIPE).stdout.decode().split()

if __name__ == "__main__":
    main()
