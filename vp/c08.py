"""C08 - no lost wake-ups in the ready-pipe queue (and WaitGroup::wait).  See DESIGN.md section 6 (C08).

Schedules are produced by the harness itself (it knows which threads are runnable: real wakers):
  phase 1  `mode=auto` (seeded random choice among runnable events) / `mode=dfs` (ALL schedules of a
           small program up to a preemption bound) -> the event lists actually executed;
  phase 2  every such event list is replayed as an explicit schedule on a fresh queue
           (C.differential): the rows of the replay are compared with the Coq model run on the same
           events and judged by the implementation-side oracle below."""
import json
import os
import random
from . import common as C

PROP = "C08"
REQ = "From RZ Require Import Base.Prelude Model.Rpq Model.RpqWake Model.WgWait Corr.C08Corr."
THEOREMS = ("C08_rpq_inv_reachable, C08_rpq_no_stale_pop, C08_rpq_no_underflow, C08_rpq_exactly_once_in_order, "
            "C08_rpq_no_lost_wakeup*, C08_rpq_pop_completes, C08_rpq_cancel_safe, C08_rpq_arm_never_blocks, "
            "C08_rpq_dead_slot_empty, C08_wake_*, C08_wg_*")
WG_SIG = "C08:waitgroup:notified-created-after-check"
WAKE_SIG = "C08:pop-cancelled-after-wake:next-waiter-sleeps"

BIG = 1 << 62


# ---------------------------------------------------------------- generators

def items_of(op):
    return [op[1]] if op[0] in ("s", "t") else list(op[1]) if op[0] == "b" else []


def gen_prog(rng, small=False):
    np_ = rng.choice([1, 1, 2, 2, 3]) if not small else rng.choice([1, 2])
    caps = [rng.choice([1, 1, 2]) for _ in range(np_)]
    prods = []
    for p in range(np_):
        n = rng.randrange(0, 3 if small else 5)
        ids = [100 * (p + 1) + k for k in range(n)]
        ops = []
        style = rng.choice(["s", "t", "b", "mix", "mix"])
        while ids:
            k = style if style != "mix" else rng.choice(["s", "s", "t", "b"])
            if k == "b":
                m = rng.randrange(1, min(3, len(ids)) + 1)
                ops.append(["b", ids[:m]])
                ids = ids[m:]
            else:
                ops.append([k, ids.pop(0)])
        if rng.random() < 0.1:
            ops.append(["b", []])
        prods.append(ops)
    total = sum(len(items_of(o)) for ops in prods for o in ops)
    nc = rng.choice([1, 1, 2])
    cons = []
    want = total + rng.choice([-1, 0, 0, 1, 2])
    for i in range(nc):
        share = max(0, want // nc + (1 if i < want % nc else 0))
        style = rng.choice(["p", "p", "q", "mix"])
        cons.append([[style if style != "mix" else rng.choice(["p", "q"])] for _ in range(share)])
    rcap = np_ + rng.choice([0, 0, 1])
    return {"k": "rpq", "rcap": rcap, "caps": caps, "prods": prods, "cons": cons}


def gen_auto(rng, small=False):
    c = gen_prog(rng, small)
    c["mode"] = "auto"
    c["seed"] = rng.randrange(1, 1 << 30)
    c["steps"] = 400
    c["stick"] = rng.choice([0, 30, 60, 85])
    if rng.random() < 0.4:
        c["pcancel"] = rng.choice([5, 15, 40])
        c["max_cancel"] = rng.choice([1, 2, 3])
    if rng.random() < 0.3:
        c["dereg_at"] = [[rng.randrange(0, 40), rng.randrange(len(c["caps"]))] for _ in range(rng.choice([1, 1, 2]))]
    return c


def dfs_programs():
    """small programs whose whole (bounded) schedule tree is enumerated in the thorough tier"""
    P = []
    P.append(dict(rcap=1, caps=[1], prods=[[["s", 100]]], cons=[[["p"]]], max_preempt=9, max_cancel=0))
    P.append(dict(rcap=1, caps=[1], prods=[[["s", 100], ["s", 101]]], cons=[[["p"], ["p"]]], max_preempt=3, max_cancel=0))
    P.append(dict(rcap=1, caps=[1], prods=[[["t", 100], ["t", 101]]], cons=[[["q"], ["p"], ["q"]]], max_preempt=3, max_cancel=0))
    P.append(dict(rcap=1, caps=[2], prods=[[["b", [100, 101, 102]]]], cons=[[["p"], ["p"], ["p"]]], max_preempt=3, max_cancel=0))
    P.append(dict(rcap=1, caps=[1], prods=[[["s", 100], ["s", 101]]], cons=[[["p"], ["p"]]], max_preempt=2, max_cancel=1))
    P.append(dict(rcap=2, caps=[1, 1], prods=[[["s", 100]], [["t", 200]]], cons=[[["p"], ["p"]]], max_preempt=3, max_cancel=0))
    P.append(dict(rcap=1, caps=[1], prods=[[["s", 100], ["t", 101]]], cons=[[["p"]], [["p"]]], max_preempt=2, max_cancel=1))
    P.append(dict(rcap=1, caps=[2], prods=[[["s", 100], ["s", 101]]], cons=[[["p"], ["q"]]], max_preempt=2, max_cancel=0, dereg_pipes=[0]))
    P.append(dict(rcap=2, caps=[1, 2], prods=[[["b", [100, 101]]], [["s", 200]]], cons=[[["p"], ["p"], ["p"]]], max_preempt=2, max_cancel=0))
    # a batch whose later item sees the 0 -> 1 transition (the queue was drained in between)
    P.append(dict(rcap=1, caps=[2], prods=[[["t", 100], ["b", [101, 102]]]], cons=[[["p"], ["p"], ["p"]]], max_preempt=3, max_cancel=0))
    # a non-blocking enqueue into a pipe that already holds one message, against two pops (index 10)
    P.append(dict(rcap=1, caps=[2], prods=[[["t", 100], ["t", 101]]], cons=[[["p"], ["p"]]], max_preempt=3, max_cancel=0))
    P.append(dict(rcap=1, caps=[2], prods=[[["s", 100], ["t", 101]]], cons=[[["q"], ["p"], ["p"]]], max_preempt=3, max_cancel=0))
    out = []
    for p in P:
        d = dict(p)
        d.update(k="rpq", mode="dfs", steps=150, max_runs=12000)
        out.append(d)
    return out


def gen_wg(rng):
    """poll / env items; a tiny replica of the waiter's control flow (code after the fix: the future
    is created, the count checked, then the schedule point, then the await) keeps the count from
    underflowing: gap operations only happen when the poll reaches the schedule point"""
    items = []
    st = {"count": 0, "parked": False, "woken": False}

    def apply(ops):
        """returns True if some done() brought the count to zero (notify_waiters was called)"""
        notified = False
        for o in ops:
            if o[0] == "a":
                st["count"] += o[1]
            else:
                st["count"] -= 1
                if st["count"] == 0:
                    notified = True
        return notified

    def ops(maxn):
        out = []
        cnt = st["count"]
        for _ in range(rng.randrange(0, maxn + 1)):
            if cnt > 0 and rng.random() < 0.65:
                out.append(["d"])
                cnt -= 1
            else:
                d = rng.randrange(1, 3)
                out.append(["a", d])
                cnt += d
        return out

    if rng.random() < 0.85:
        o = [["a", rng.randrange(1, 4)]]
        items.append(["env", o])
        apply(o)
    n = rng.choice([2, 3, 5, 8])
    for k in range(n + 1):
        if k == n or rng.random() < 0.55:
            gap = ops(2) if (k < n and rng.random() < 0.6) else []
            items.append(["poll", gap])
            if st["parked"] and not st["woken"]:
                continue                       # the poll finds the future still pending
            st["parked"] = False
            if st["count"] == 0:
                continue                       # returns (fast path / check after the wake-up)
            # future created, count checked non-zero: the schedule point is reached
            if apply(gap) and st["count"] == 0:
                continue                       # the future was notified in the gap; re-check sees zero: returns
            st["parked"], st["woken"] = True, False
        else:
            o = ops(3)
            items.append(["env", o])
            if apply(o) and st["parked"]:
                st["woken"] = True
    return {"k": "wg", "items": items}


# ---------------------------------------------------------------- Coq printers

def nat(n):
    return "%d%%nat" % n


def natlist(xs):
    return "[" + "; ".join(nat(x) for x in xs) + "]"


def c_sop(o):
    if o[0] == "s":
        return "Send %d" % o[1]
    if o[0] == "t":
        return "TrySend %d" % o[1]
    return "TrySendBatch %s" % C.cNlist(o[1])


def c_ev(e):
    return "%s %s" % (["RunP", "RunC", "CancelP", "CancelC", "Dereg"][e[0]], nat(e[1]))


def c_gops(ops):
    return "[" + "; ".join("EAdd %s" % nat(o[1]) if o[0] == "a" else "EDec; ENotify" for o in ops) + "]"


def to_coq(c):
    if c["k"] == "rpq":
        pp = "[" + "; ".join("[" + "; ".join(c_sop(o) for o in ops) + "]" for ops in c["prods"]) + "]"
        cp = "[" + "; ".join("[" + "; ".join("Pop" if o[0] == "p" else "TryPop" for o in ops) + "]" for ops in c["cons"]) + "]"
        es = "[" + "; ".join(c_ev(e) for e in c["sched"]) + "]"
        return "(CRpq %s %s %s %s %s)" % (nat(c["rcap"]), natlist(c["caps"]), pp, cp, es)
    if c["k"] == "wg":
        return "(CWg [%s])" % "; ".join("%s %s" % ("GPoll" if it[0] == "poll" else "GEnv", c_gops(it[1])) for it in c["items"])
    return "(CWgMT %s)" % C.cbool(c["gap"])


# ---------------------------------------------------------------- implementation-side oracle

def split_row(r, np_):
    kind, idx, status = r[:3]
    m = len(r) - (3 * np_ + 3)          # position of the 99 marker
    if m < 3 or r[m] != 99:
        return None
    res = r[3:m]
    sh = r[m + 1:]
    pipes = [tuple(sh[3 * p:3 * p + 3]) for p in range(np_)]
    return kind, idx, status, res, pipes, sh[-2]


def oracle_rpq(c, o):
    np_ = len(c["caps"])
    caps = [max(1, x) for x in c["caps"]]
    rcap = max(1, c["rcap"])
    owner = {}
    pos = {}
    for p, ops in enumerate(c["prods"]):
        k = 0
        for op in ops:
            for x in items_of(op):
                owner[x] = p
                pos[x] = k
                k += 1
    pcur = [0] * np_                      # index of the operation a producer is in / will start next
    ccur = [0] * len(c["cons"])
    handed = [[] for _ in range(np_)]     # items the producer was told are queued
    refused = set()                       # items whose send was cancelled / answered Full / Closed
    started = set()
    takes = []                            # (row number, consumer) of successful try_recv's
    pops = []                             # (row of the take, consumer, pipe, item)
    open_take = {}
    popped = set()
    for n, r in enumerate(o["rows"]):
        sr = split_row(r, np_)
        if sr is None:
            return "row %d is malformed: %s" % (n, r)
        kind, idx, status, res, pipes, rlen = sr
        if status in (90, 91):
            return "row %d: thread parked at an unexpected place (status %d)" % (n, status)
        if status == 97:
            return "row %d: the operation panicked inside rzmq (debug_assert!(prev > 0) / overflow check)" % n
        if status == 98:
            return "row %d: the thread never came back (spinning on a full ready list or blocked)" % n
        for p, (q, rs, ln) in enumerate(pipes):
            if q >= BIG or rs >= BIG:
                return "row %d: counter underflow on pipe %d (queued=%d reserved=%d)" % (n, p, q, rs)
            if rs < q:
                return "row %d: reserved_count %d < queued_count %d on pipe %d" % (n, rs, q, p)
            if rs < ln:
                return "row %d: reserved_count %d < channel length %d on pipe %d (item without reservation)" % (n, rs, ln, p)
            if ln > caps[p]:
                return "row %d: pipe %d holds %d items, capacity %d" % (n, p, ln, caps[p])
        if rlen > rcap:
            return "row %d: ready list longer than its capacity" % n
        if kind in (0, 2) and idx < np_:
            ops = c["prods"][idx]
            if kind == 0 and status != 0 and pcur[idx] < len(ops):
                started.update(items_of(ops[pcur[idx]]))
            if res:
                if pcur[idx] >= len(ops):
                    return "row %d: producer %d reported a result without an operation" % (n, idx)
                op = ops[pcur[idx]]
                pcur[idx] += 1
                started.update(items_of(op))
                if res[0] == 3:
                    xs = items_of(op)
                    if res[1] > len(xs):
                        return "row %d: try_send_batch reports %d items sent out of %d" % (n, res[1], len(xs))
                    handed[idx] += xs[:res[1]]
                    refused.update(xs[res[1]:])
                elif res[1] == 0:
                    handed[idx] += items_of(op)
                else:
                    refused.update(items_of(op))
        if kind in (1, 3) and idx < len(ccur):
            if kind == 1 and status in (4, 9):
                open_take[idx] = n
            if res:
                ccur[idx] += 1
                if len(res) == 4 and res[1] == 0:
                    p, x = res[2], res[3]
                    if x not in owner:
                        return "row %d: recv returned an item (%d) nobody sent" % (n, x)
                    if owner[x] != p:
                        return "row %d: item %d of pipe %d was returned with pipe id %d" % (n, x, owner[x], p)
                    if x in popped:
                        return "row %d: item %d was returned twice" % (n, x)
                    if x in refused:
                        return "row %d: item %d was returned although its send was cancelled / refused" % (n, x)
                    if x not in started:
                        return "row %d: item %d was returned before its send started" % (n, x)
                    popped.add(x)
                    pops.append((open_take.pop(idx, n), idx, p, x))
                else:
                    if idx in open_take:
                        return "row %d: consumer %d took an item from a pipe and then returned without it" % (n, idx)
    # per-pipe order, in the order the items were taken out of the channel
    pops.sort()
    lastpos = {}
    for (_, i, p, x) in pops:
        if p in lastpos and pos[x] < lastpos[p]:
            return "pipe %d: item %d was taken after a later item of the same connection" % (p, x)
        lastpos[p] = pos[x]
    fin = o.get("fin", {})
    if fin.get("dead", 0) == 0 and fin.get("midop", 1) == 0 and not open_take:
        for p in range(np_):
            got = [x for (_, _, pp, x) in pops if pp == p]
            ln = fin["lens"][p]
            if handed[p][:len(got)] != got:
                return "pipe %d: returned %s, handed over %s (not a prefix)" % (p, got, handed[p])
            if len(got) + ln != len(handed[p]):
                return "pipe %d: %d items handed over, %d returned, %d still in the channel (lost or duplicated)" % (
                    p, len(handed[p]), len(got), ln)
        if fin.get("runnable", 1) == 0 and fin.get("parked_pop", 0) > 0 and (sum(fin["lens"]) > 0 or fin["ready_len"] > 0):
            return ("lost wake-up: %d consumer(s) parked in pop(), %d item(s) queued, ready list %d, and no thread can move"
                    % (fin["parked_pop"], sum(fin["lens"]), fin["ready_len"]))
    return None


def oracle(c, o):
    if o.get("panic"):
        # a shrink candidate may call done() on a zero count (WaitGroup::done panics by contract)
        return None if c.get("shrunk") else "harness case panicked"
    rows = o["rows"]
    if c["k"] == "rpq":
        return oracle_rpq(c, o)
    if c["k"] == "wgmt":
        if rows[0][0] == 1 and rows[0][1] == 0:
            return "lost wake-up: WaitGroup::wait still asleep 400 ms after the count reached zero (done() between the check and notified())"
        return None
    for it, r in zip(c["items"], rows):
        if it[0] == "poll":
            if r[1] == 0 and r[2] == 0:
                return "lost wake-up: WaitGroup::wait stays parked although the count is zero"
            if r[1] == 1 and r[2] != 0:
                return "WaitGroup::wait returned although the count is %d" % r[2]
    return None


def signature(c, o, msg):
    if msg and msg.startswith("lost wake-up: WaitGroup"):
        return WG_SIG
    if msg and msg.startswith("lost wake-up:") and c["k"] == "rpq" and len(c["cons"]) >= 2:
        # a pending pop() was dropped after the ready channel had woken it (its bit in the previous
        # row's woken-mask) while another consumer was parked
        np_ = len(c["caps"])
        rows = o["rows"]
        for n in range(1, len(rows)):
            if rows[n][0] == 3 and (rows[n - 1][-1] >> (np_ + rows[n][1])) & 1:
                return WAKE_SIG
    return None


def shrink(c):
    if c["k"] == "wg":
        xs = c["items"]
        for i in range(len(xs)):
            if len(xs) > 1:
                yield dict(c, items=xs[:i] + xs[i + 1:], shrunk=True)
    elif c["k"] == "rpq":
        xs = c["sched"]
        # drop a suffix, then single events
        for cut in (len(xs) // 2, len(xs) - 1):
            if 0 < cut < len(xs):
                yield dict(c, sched=xs[:cut])


def nontrivial(c, o):
    if c["k"] == "rpq":
        return any(len(r) > 6 and r[0] == 1 and r[3] in (4, 5) and r[4] == 0 for r in o["rows"])
    return any(len(r) > 1 and r[1] == 1 for r in o["rows"]) if c["k"] == "wg" else True


def strip(c):
    if c["k"] != "rpq":
        return c
    return {k: c[k] for k in ("k", "rcap", "caps", "prods", "cons", "sched")} | {"mode": "explicit"}


# ---------------------------------------------------------------- main

def schedules_from(res, gen_cases, tag):
    """phase 1: let the harness produce schedules; returns explicit cases"""
    obs, log = C.run_harness("c08", gen_cases, PROP, tag=tag, timeout=1500)
    if obs is None or len(obs) != len(gen_cases):
        res.obligation(False, "harness schedule generation: " + str(log)[-1500:])
        res.violation({"property": PROP, "broken": "harness run crashed while generating schedules", "log": str(log)[-3000:]},
                      found_input=False)
        return []
    out = []
    for g, o in zip(gen_cases, obs):
        base = {k: g[k] for k in ("k", "rcap", "caps", "prods", "cons")}
        if o.get("panic"):
            res.violation({"property": PROP, "broken": "harness panicked while generating a schedule", "case": g}, found_input=False)
            continue
        if g["mode"] == "dfs":
            res.count("dfs:programs")
            res.count("dfs:complete" if o.get("complete") else "dfs:truncated")
            for r in o["runs"]:
                out.append(dict(base, mode="explicit", sched=r["sched"], origin="dfs"))
        else:
            out.append(dict(base, mode="explicit", sched=o["sched"], origin="auto"))
    return out


def main(argv):
    tier, seed = C.tier_and_seed(argv)
    res = C.Result(PROP, tier, seed)
    res.rule = ("cases = programs (<=3 producers x <=4 items over send/try_send/try_send_batch, capacities 1..2, 1..2 consumers "
                "over pop/try_pop, ready capacity >= #pipes) x schedules of single atomic actions chosen by the harness among "
                "runnable threads (seeded random; thorough: all schedules of 9 small programs up to a preemption bound), with "
                "cancellation of pending futures and deregistration; every schedule replayed explicitly and compared row by "
                "row with the Coq model; WaitGroup::wait poll schedules with add/done injected between check and notified(); "
                "all from random.Random(seed) after the corpus; non-trivial = at least one item returned by pop/try_pop "
                "(rpq) / wait returned (wg); distinct by case JSON")
    C.proof_stage(res, PROP, ["theories/Corr/C08Corr.vo"])
    ok, log = C.build_harness()
    if not res.obligation(ok, "harness build against the working tree: " + log[-2000:]):
        res.violation({"property": PROP, "broken": "harness build (facade / schedule points no longer compile)", "log": log[-4000:],
                       "theorems_relying_on_tie": THEOREMS}, found_input=False)
        return res.finish()
    rng = random.Random(seed)
    n_auto, n_wg = (500, 150) if tier == "quick" else (10000, 2000)
    gens = [gen_auto(rng, small=(i % 3 == 0)) for i in range(n_auto)]
    if tier != "quick":
        gens += dfs_programs()
    else:
        # a slice of the exhaustive enumeration also in the quick tier
        gens.append(dict(dfs_programs()[0], max_runs=300))
        gens.append(dict(dfs_programs()[1], max_runs=300))
        gens.append(dict(dfs_programs()[6], max_runs=200))
        gens.append(dict(dfs_programs()[10], max_runs=600))
        gens.append(dict(dfs_programs()[11], max_runs=300))
    cases = C.load_corpus(PROP, "cases")
    cases += schedules_from(res, gens, "gen")
    cases += [gen_wg(rng) for _ in range(n_wg)]
    cases += [{"k": "wgmt", "gap": True}, {"k": "wgmt", "gap": False}]
    for c in cases:
        res.count("kind:" + c["k"] + (":" + c.get("origin", "corpus") if c["k"] == "rpq" else ""))
        if c["k"] == "rpq":
            for e in c["sched"]:
                res.count("ev:" + ["run_p", "run_c", "cancel_p", "cancel_c", "dereg"][e[0]])
    obs = C.differential(res, PROP, "c08", cases, to_coq, REQ, "c08_mismatches", "c08_model", oracle,
                         shrink=shrink, nontrivial=nontrivial, signature=signature, theorems_note=THEOREMS, strip=strip)
    if obs:
        for c, o in zip(cases, obs):
            if c["k"] == "rpq":
                f = o.get("fin", {})
                res.count("end:%s" % ("all-idle" if f.get("runnable") == 0 and f.get("midop") == 0 and f.get("parked_pop") == 0
                                      else "consumer-parked-empty" if f.get("runnable") == 0 else "cut"))
            elif c["k"] == "wg":
                for it, r in zip(c["items"], o["rows"]):
                    if it[0] == "poll":
                        res.count("wg:%s" % ("lost" if (r[1] == 0 and r[2] == 0) else ["parked", "ok", "-", "-"][r[1]]))
    return res.finish(assumptions=[
        "fibre spsc/mpmc channels are linearizable bounded FIFO queues whose pending futures become runnable when "
        "room / an element is available (the harness checks the real wakers: no runnable thread while an item is queued = violation)",
        "atomics are sequentially consistent in the model (AcqRel in the code); the harness runs one thread at a time",
        "one producer per pipe (the channel is spsc); ready_capacity >= number of pipes (documented requirement of ReadyPipeQueue::new)",
        "tokio::sync::Notify: notify_waiters() wakes every Notified future that already exists, polled or not (tokio docs)"])
