"""C11 - ROUTER addresses by true identity; envelopes round-trip unchanged. See DESIGN.md section 6 (C11)."""
import json
import os
import random
from . import common as C

PROP = "C11"
REQ = "From RZ Require Import Base.Prelude Model.Codec Model.RouterMap Model.Envelope Corr.C03Corr Corr.C11Corr."
THEOREMS = ("C11_router_inv, C11_lookup_true_peer, C11_collision_*, C11_envelope_roundtrip, C11_mixed_*, "
            "C11_mandatory_semantics, C11_send_decision, C11_send_reaches_true_peer")


# ------------------------------------------------------------------ small helpers shared by generator and oracle

def fill(n, seed):
    return [(seed + i * 131 + i // 251) % 256 for i in range(n)]


def fbytes(f):
    return list(f["bytes"]) if "bytes" in f else fill(f["len"], f["seed"])


def digest(l):
    a, b = 1, 0
    for x in l:
        a = (a + x) % 65521
        b = (b + a) % 65521
    return [len(l), b * 65536 + a] + l[:8] + l[max(0, len(l) - 8):]


def frame(bs, more=False):
    return {"more": bool(more), "bytes": list(bs)}


def with_flags(frames, sloppy=False, rng=None):
    """MORE on all but the last frame (what a careful application does); sloppy = random flags."""
    out = []
    for i, f in enumerate(frames):
        g = dict(f)
        g["more"] = (rng.random() < 0.5) if sloppy else (i < len(frames) - 1)
        out.append(g)
    return out


# ------------------------------------------------------------------ generators

def gen_body(rng):
    r = rng.random()
    if r < 0.55:
        return {"bytes": [rng.randrange(256) for _ in range(rng.choice([1, 1, 2, 3, 5, 8, 9, 17]))]}
    return {"len": rng.choice([1, 2, 8, 9, 16, 17, 254, 255, 256, 257, 300, 1000]), "seed": rng.randrange(256)}


def gen_payload(rng, min_frames=1, shape=None):
    """payload shapes with empty frames in every position"""
    n = rng.choice([1, 1, 2, 2, 3, 3, 4, 5]) if shape is None else len(shape)
    n = max(n, min_frames)
    if shape is None:
        r = rng.random()
        if r < 0.25:
            shape = [False] * n
        elif r < 0.35:
            shape = [True] * n
        else:
            shape = [rng.random() < 0.4 for _ in range(n)]
    out = []
    for e in shape:
        f = {"bytes": []} if e else gen_body(rng)
        out.append(f)
    return out


ID_POOL = [[65], [66], [67, 67], [0], [255], list(b"pipe:1"), list(b"pipe:2"), fill(255, 7), fill(255, 8), [65, 0], []]


def gen_map_case(rng):
    pool = rng.sample(ID_POOL, rng.choice([2, 3, 4, 5]))
    pipes = [1, 2, 3, 4][:rng.choice([2, 3, 4])]
    ops = []
    for _ in range(rng.randrange(3, 16)):
        r = rng.random()
        p = rng.choice(pipes)
        i = rng.choice(pool)
        u = p if rng.random() < 0.85 else rng.randrange(1, 9)
        if r < 0.25:
            ops.append({"o": "add", "id": i, "p": p, "u": u})
        elif r < 0.55:
            ops.append({"o": "upd", "p": p, "id": i, "u": u, "t": rng.choice([0, 1, 2, 2, 3, 4])})
        elif r < 0.70:
            ops.append({"o": "rmp", "p": p})
        elif r < 0.80:
            ops.append({"o": "rmi", "id": i})
        elif r < 0.90:
            ops.append({"o": "send", "id": i, "idmore": rng.random() < 0.5, "manual": rng.random() < 0.3,
                        "payload": with_flags([{"bytes": fbytes(f)[:12]} for f in gen_payload(rng, 0)][:rng.randrange(0, 4)])})
        else:
            ops.append({"o": "get", "id": i, "p": p})
    return {"k": "map", "ops": ops}


def gen_strat_case(rng):
    n = rng.randrange(0, 5)
    payload = with_flags([{"bytes": fbytes(f)[:10]} for f in gen_payload(rng, 1)][:n], sloppy=rng.random() < 0.3, rng=rng)
    idb = rng.choice([[65], fill(255, 3), [1, 2, 3], []])
    return {"k": "strat", "code": rng.randrange(4), "manual": rng.random() < 0.4,
            "id": {"more": rng.random() < 0.5, "bytes": idb}, "payload": payload}


def gen_framing_case(rng):
    n = rng.randrange(0, 5)
    frames = with_flags([{"bytes": fbytes(f)[:10]} for f in gen_payload(rng, 1)][:n], sloppy=rng.random() < 0.5, rng=rng)
    return {"k": "framing", "which": rng.randrange(8), "manual": rng.random() < 0.4, "frames": frames}


RIDS = [lambda rng: None, lambda rng: None,
        lambda rng: {"bytes": [rng.randrange(1, 256)]},
        lambda rng: {"len": 255, "seed": rng.randrange(256)},
        lambda rng: {"bytes": [rng.randrange(256) for _ in range(rng.choice([2, 5, 16, 40]))]},
        lambda rng: {"bytes": [0] + [rng.randrange(256) for _ in range(3)]}]


def distinct_rid(rng, taken):
    for _ in range(50):
        r = rng.choice(RIDS)(rng)
        if r is None:
            return None
        b = fbytes(r)
        if b and b not in taken and not bytes(b).startswith(b"pipe:"):
            taken.append(b)
            return r
    return None


def gen_stack_case(rng, mixed=False):
    tcp = rng.random() < 0.55
    npeers = rng.choice([1, 2, 2, 3, 3])
    taken = []
    peers = []
    for _ in range(npeers):
        # REQ over inproc (accepted since 4d78554) only sends: the ROUTER does not learn the peer type over inproc,
        # answers through the Default strategy, and the REQ application would see identity + delimiter
        # (C11_default_strategy_to_req_exposes_envelope; reported, not yet recorded) - so no reply is generated
        typ = "req" if rng.random() < (0.3 if tcp else 0.12) else "dealer"
        peers.append({"type": typ, "rid": distinct_rid(rng, taken), "manual": False})
    c = {"k": "stack", "transport": "tcp" if tcp else "inproc", "mandatory": rng.random() < 0.5,
         "router_manual": False, "peers": peers, "steps": [], "settle_ms": 300}
    if mixed:
        c["router_manual"] = rng.random() < 0.6
        for p in peers:
            if p["type"] == "dealer":
                p["manual"] = rng.random() < 0.5
    steps = c["steps"]
    live = []
    closed = []
    expecting = set()
    said_hello = set()

    def payload(min_frames=1):
        return with_flags(gen_payload(rng, min_frames))

    def payload_any_flags():
        # send_multipart is one logical message whatever MORE flags the application left on the frames:
        # all unset (the common way to build a Vec<Msg>), random, or set properly
        fs = gen_payload(rng, 1)
        r = rng.random()
        if r < 0.4:
            return [dict(f, more=False) for f in fs]
        if r < 0.7:
            return with_flags(fs, sloppy=True, rng=rng)
        if r < 0.8:
            return [dict(f, more=True) for f in fs]
        return with_flags(fs)

    def c2r(k):
        if peers[k]["type"] == "req":
            if k in expecting:
                return
            steps.append({"op": "c2r", "peer": k, "payload": with_flags(gen_payload(rng, 1)[:1])})
            expecting.add(k)
        else:
            steps.append({"op": "c2r", "peer": k, "payload": with_flags(gen_payload(rng), sloppy=rng.random() < 0.2, rng=rng)})
        said_hello.add(k)

    def r2c(k):
        if peers[k]["type"] == "req":
            if not tcp:
                return
            if k not in expecting:
                c2r(k)
            steps.append({"op": "r2c", "to": k, "via": "multipart", "payload": payload_any_flags()})
            expecting.discard(k)
        else:
            via = "frames" if rng.random() < 0.35 else "multipart"
            steps.append({"op": "r2c", "to": k, "via": via, "payload": payload() if via == "frames" else payload_any_flags()})

    # joins, each followed (sooner or later) by a first message so that the ROUTER has reported the identity
    order = list(range(npeers))
    late = None
    if npeers >= 2 and rng.random() < 0.3:
        late = order.pop()          # joins later
    for k in order:
        # fused: the peer connects and sends its first message while the ROUTER is already blocked in recv
        steps.append({"op": "join", "peer": k, "fused": rng.random() < 0.6})
        live.append(k)
        c2r(k)
        if rng.random() < 0.5:
            r2c(k)
    for _ in range(rng.randrange(2, 7)):
        r = rng.random()
        if r < 0.35 and live:
            c2r(rng.choice(live))
        elif r < 0.75 and live:
            r2c(rng.choice(live))
        elif r < 0.85:
            unk = rng.choice([list(b"nobody"), [1], fill(255, 99), list(b"pipe:9999")])
            steps.append({"op": "r2c", "to_id": unk, "via": "multipart", "payload": payload_any_flags()})
        elif r < 0.93 and len(live) >= 1 and not mixed:
            k = rng.choice(live)
            steps.append({"op": "close", "peer": k})
            live.remove(k)
            closed.append(k)
            expecting.discard(k)
            if k in said_hello:
                steps.append({"op": "r2c", "to": k, "via": "multipart", "payload": payload_any_flags()})
        elif late is not None:
            k = late
            late = None
            # reconnect with the identity of a closed peer, if there is one
            if closed and peers[closed[0]]["rid"] is not None and rng.random() < 0.7:
                peers[k]["rid"] = peers[closed[0]]["rid"]
                if peers[closed[0]]["type"] == "req" or peers[k]["type"] == "req":
                    peers[k]["type"] = peers[closed[0]]["type"]
            steps.append({"op": "join", "peer": k, "fused": rng.random() < 0.6})
            live.append(k)
            c2r(k)
            r2c(k)
    # leave no REQ waiting (keeps teardown quick)
    for k in list(expecting):
        if k in live:
            r2c(k)
    return c


def probe_cases():
    """Scenarios where reading the code predicts a deviation from the property. They are executed and compared
    with the model (which predicts the deviation); an oracle failure on them is reported as a suspected defect,
    not as a violation (decision fix-vs-record is pending)."""
    A = {"bytes": [65, 65]}
    B = {"bytes": [66, 66]}
    out = []
    for tr in ("tcp", "inproc"):
        out.append({"k": "stack", "probe": "collision-older-detach-erases-live", "transport": tr, "mandatory": True,
                    "router_manual": False, "settle_ms": 300,
                    "peers": [{"type": "dealer", "rid": A, "manual": False}, {"type": "dealer", "rid": A, "manual": False}],
                    "steps": [{"op": "join", "peer": 0}, {"op": "c2r", "peer": 0, "payload": [frame(b"h0")]},
                              {"op": "join", "peer": 1}, {"op": "c2r", "peer": 1, "payload": [frame(b"h1")]},
                              {"op": "close", "peer": 0},
                              {"op": "r2c", "to": 1, "via": "multipart", "payload": [frame(b"m")]}]})
        out.append({"k": "stack", "probe": "parts-unknown-identity-misroute", "transport": tr, "mandatory": False,
                    "router_manual": False, "settle_ms": 300,
                    "peers": [{"type": "dealer", "rid": B, "manual": False}],
                    "steps": [{"op": "join", "peer": 0}, {"op": "c2r", "peer": 0, "payload": [frame(b"h0")]},
                              {"op": "r2c", "to_id": list(b"nobody"), "via": "frames",
                               "payload": [frame([66, 66], True), frame(b"x")]}]})
        out.append({"k": "stack", "probe": "parts-unknown-identity-not-silent", "transport": tr, "mandatory": False,
                    "router_manual": False, "settle_ms": 300,
                    "peers": [{"type": "dealer", "rid": B, "manual": False}],
                    "steps": [{"op": "join", "peer": 0}, {"op": "c2r", "peer": 0, "payload": [frame(b"h0")]},
                              {"op": "r2c", "to_id": list(b"nobody"), "via": "frames", "payload": [frame(b"x")]}]})
    out.append({"k": "stack", "probe": "parts-to-req-exposes-envelope", "transport": "tcp", "mandatory": True,
                "router_manual": False, "settle_ms": 300,
                "peers": [{"type": "req", "rid": A, "manual": False}],
                "steps": [{"op": "join", "peer": 0}, {"op": "c2r", "peer": 0, "payload": [frame(b"q")]},
                          {"op": "r2c", "to": 0, "via": "frames", "payload": [frame(b"r")]}]})
    if True:
        # recorded finding C11:inproc-req-default-strategy-exposes-envelope:
        # over inproc the ROUTER never learns the peer's socket type, send_multipart uses the Default strategy and a
        # REQ peer's application receives [identity, "", payload...]
        out.append({"k": "stack", "probe": "inproc-req-default-strategy-exposes-envelope", "transport": "inproc",
                    "mandatory": True, "router_manual": False, "settle_ms": 300,
                    "peers": [{"type": "req", "rid": A, "manual": False}],
                    "steps": [{"op": "join", "peer": 0}, {"op": "c2r", "peer": 0, "payload": [frame(b"q")]},
                              {"op": "r2c", "to": 0, "via": "multipart", "payload": [frame(b"r")]}]})
    return out


def gate_cases(rng, n):
    """first message vs identity event: the peer connects and sends at once while the ROUTER is already in recv;
    run first, on the idle runtime, where the data path most easily overtakes the identity event"""
    out = []
    for i in range(n):
        rid = [{"bytes": [rng.randrange(1, 256)]}, {"len": 255, "seed": rng.randrange(256)},
               {"bytes": [rng.randrange(256) for _ in range(8)]}][i % 3]
        typ = "req" if i % 4 == 3 else "dealer"
        pl1 = with_flags(gen_payload(rng)[:1] if typ == "req" else gen_payload(rng))
        steps = [{"op": "join", "peer": 0, "fused": i % 2 == 0}, {"op": "c2r", "peer": 0, "payload": pl1},
                 {"op": "r2c", "to": 0, "via": "multipart",
                  "payload": [dict(f, more=False) for f in gen_payload(rng)] if i % 2 else with_flags(gen_payload(rng))}]
        if typ == "dealer":
            steps.append({"op": "c2r", "peer": 0, "payload": with_flags(gen_payload(rng))})
        out.append({"k": "stack", "transport": "tcp", "mandatory": True, "router_manual": False, "settle_ms": 300,
                    "peers": [{"type": typ, "rid": rid, "manual": False}], "steps": steps})
    return out


def gen_cases(rng, tier):
    quick = tier == "quick"
    cases = []
    cases += gate_cases(rng, 8 if quick else 40)
    cases += probe_cases()
    for _ in range(150 if quick else 3000):
        cases.append(gen_map_case(rng))
    for _ in range(80 if quick else 1500):
        cases.append(gen_strat_case(rng))
    for _ in range(60 if quick else 800):
        cases.append(gen_framing_case(rng))
    for _ in range(44 if quick else 700):
        cases.append(gen_stack_case(rng))
    for _ in range(10 if quick else 150):
        cases.append(gen_stack_case(rng, mixed=True))
    return cases


# ------------------------------------------------------------------ Coq printers

def c_fr(f):
    return "(%s, %s)" % (C.cbool(f.get("more", False)), C.cNlist(fbytes(f)))


def c_frs(fs):
    return "[" + "; ".join(c_fr(f) for f in fs) + "]"


def c_pl(f):
    if "bytes" in f:
        return "(PLit %s)" % C.cNlist(f["bytes"])
    return "(PFill %d %d)" % (f["len"], f["seed"])


def c_cfr(f):
    return "(%s, %s)" % (C.cbool(f.get("more", False)), c_pl(f))


def c_cfrs(fs):
    return "[" + "; ".join(c_cfr(f) for f in fs) + "]"


def c_mop(o):
    k = o["o"]
    if k == "add":
        return "MAdd %s %d %d" % (C.cNlist(o["id"]), o["p"], o["u"])
    if k == "upd":
        return "MUpd %d %s %d %d" % (o["p"], C.cNlist(o["id"]), o["u"], o["t"])
    if k == "rmp":
        return "MRmp %d" % o["p"]
    if k == "rmi":
        return "MRmi %s" % C.cNlist(o["id"])
    if k == "send":
        return "MSend %s %s %s %s" % (C.cNlist(o["id"]), C.cbool(o["idmore"]), C.cbool(o["manual"]), c_frs(o["payload"]))
    return "MGet %s %d" % (C.cNlist(o["id"]), o["p"])


def c_step(s):
    k = s["op"]
    if k == "join":
        return "SJoin %d" % s["peer"]
    if k == "close":
        return "SClose %d" % s["peer"]
    if k == "c2r":
        return "SC2R %d %s" % (s["peer"], c_cfrs(s["payload"]))
    tgt = "(Some %d)" % s["to"] if "to" in s else "None"
    return "SR2C %s %s %s %s" % (tgt, C.cNlist(s.get("to_id", [])), C.cbool(s["via"] == "frames"), c_cfrs(s["payload"]))


def to_coq(c):
    k = c["k"]
    if k == "map":
        return "(CMap [" + "; ".join(c_mop(o) for o in c["ops"]) + "])"
    if k == "strat":
        return "(CStrat %d %s %s %s)" % (c["code"], C.cbool(c["manual"]), c_fr(c["id"]), c_frs(c["payload"]))
    if k == "framing":
        return "(CFraming %d %s %s)" % (c["which"], C.cbool(c["manual"]), c_frs(c["frames"]))
    peers = "[" + "; ".join("{| sp_req := %s; sp_rid := %s; sp_manual := %s |}" % (
        C.cbool(p["type"] == "req"), ("Some " + c_pl(p["rid"])) if p["rid"] is not None else "None",
        C.cbool(p.get("manual", False))) for p in c["peers"]) + "]"
    return "(CStack %s %s %s %s [%s])" % (C.cbool(c["transport"] == "tcp"), C.cbool(c["mandatory"]),
                                          C.cbool(c.get("router_manual", False)), peers,
                                          "; ".join(c_step(s) for s in c["steps"]))


# ------------------------------------------------------------------ implementation-side property oracle

def peer_identity(c, k, learned):
    r = c["peers"][k]["rid"]
    if r is not None and fbytes(r):
        return fbytes(r)
    return learned.get(k)


def oracle_stack(c, rows):
    """Checks the PROPERTY on what the real sockets did:
       - identity frame in front of every message the ROUTER receives = the sender's ROUTING_ID, or (anonymous peer)
         the placeholder the ROUTER reported for it the first time; never another peer's identity
       - payload frames arrive unchanged in both directions (AUTO_DELIMITER default at both ends)
       - only the addressed peer receives
       - unroutable identity: HostUnreachable iff ROUTER_MANDATORY, otherwise Ok and nobody receives"""
    peers = c["peers"]
    learned = {}
    live = set()
    closed = set()
    i = 0

    def take():
        nonlocal i
        r = rows[i] if i < len(rows) else None
        i += 1
        return r

    for s, st in enumerate(c["steps"]):
        op = st["op"]
        if op == "join":
            r = take()
            if r is None or r[:1] != [5] or r[2] != 0:
                return "step %d: peer %d could not connect to the ROUTER" % (s, st["peer"])
            live.add(st["peer"])
        elif op == "close":
            r = take()
            if r is None or r[:1] != [6]:
                return "step %d: malformed close row" % s
            live.discard(st["peer"])
            closed.add(st["peer"])
        elif op == "c2r":
            k = st["peer"]
            r = take()
            if r is None or r[:3] != [10, s, k]:
                return "step %d: malformed c2r row %s" % (s, r)
            if r[3] != 0:
                return "step %d: message from peer %d never reached the ROUTER application (status %s)" % (s, k, r[3:])
            idrow = take()
            if idrow is None or idrow[0] != 31:
                return "step %d: ROUTER delivered a message without identity frame" % s
            ident = idrow[2:]
            rid = peers[k]["rid"]
            rid = fbytes(rid) if rid is not None else []
            if rid:
                if ident != rid:
                    return "step %d: peer %d announced ROUTING_ID %s but the ROUTER labelled its message %s" % (s, k, rid[:8], ident[:8])
            else:
                if not ident:
                    return "step %d: empty identity frame for anonymous peer %d" % (s, k)
                if k in learned and learned[k] != ident:
                    return "step %d: placeholder identity of anonymous peer %d changed (%s -> %s)" % (s, k, learned[k], ident)
            for j in range(len(peers)):
                if j != k and j in live and peer_identity(c, j, learned) == ident:
                    if not (rid and peer_identity(c, j, learned) == rid):
                        return "step %d: message of peer %d was labelled with the identity of peer %d" % (s, k, j)
            learned.setdefault(k, ident)
            sent = [fbytes(f) for f in st["payload"]]
            if peers[k]["type"] == "req":
                sent = sent[:1]
            got = []
            while i < len(rows) and rows[i][0] == 32:
                got.append(take())
            if peers[k].get("manual") or c.get("router_manual"):
                if peers[k].get("manual") and c.get("router_manual"):
                    if [g[2:] for g in got] != [digest(x) for x in sent]:
                        return "step %d: raw (manual/manual) DEALER->ROUTER payload changed" % s
                continue
            if [g[2:] for g in got] != [digest(x) for x in sent]:
                return "step %d: payload from peer %d arrived changed at the ROUTER (%d frames sent, %d received)" % (s, k, len(sent), len(got))
            flags = [idrow[1]] + [g[1] for g in got]
            if flags != [1] * (len(flags) - 1) + [0]:
                return "step %d: MORE flags of the message delivered by the ROUTER are wrong: %s" % (s, flags)
        elif op == "r2c":
            r = take()
            if r is None or r[:2] != [20, s]:
                return "step %d: malformed r2c row %s" % (s, r)
            codes = r[2:]
            if "to" in st:
                ident = peer_identity(c, st["to"], learned)
            else:
                ident = st["to_id"]
            owners = [j for j in sorted(live) if peer_identity(c, j, learned) == ident]
            sent = [fbytes(f) for f in st["payload"]]
            # collect what every polled peer got
            recv = {}
            while i < len(rows) and rows[i][0] == 21:
                h = take()
                msgs = recv.setdefault(h[1], [])
                if h[2] == 999:
                    continue
                fr = []
                for _ in range(h[2]):
                    fr.append(take())
                msgs.append(fr)
            mixed = c.get("router_manual") or any(p.get("manual") for p in peers)
            if len(owners) > 1:
                continue   # colliding identities among live peers: no single addressee (characterised in Coq)
            if len(owners) == 1:
                t = owners[0]
                if any(x != 0 for x in codes):
                    return "step %d: send to the live identity of peer %d failed with codes %s" % (s, t, codes)
                for j, msgs in recv.items():
                    if j != t and msgs:
                        return "step %d: message addressed to peer %d was delivered to peer %d" % (s, t, j)
                if t in recv:
                    if len(recv[t]) != 1:
                        return "step %d: addressed peer %d received %d messages instead of 1" % (s, t, len(recv[t]))
                    if not mixed and [g[2:] for g in recv[t][0]] != [digest(x) for x in sent]:
                        return "step %d: payload from the ROUTER arrived changed at peer %d (%d frames sent, %d received)" % (
                            s, t, len(sent), len(recv[t][0]))
                    if not mixed:
                        fl = [g[1] for g in recv[t][0]]
                        if fl != [1] * (len(fl) - 1) + [0]:
                            return "step %d: MORE flags at peer %d wrong: %s" % (s, t, fl)
            else:
                want = 1 if c["mandatory"] else 0
                for j, msgs in recv.items():
                    if msgs:
                        return "step %d: message for an unroutable identity was delivered to peer %d (send codes %s)" % (s, j, codes)
                if codes[:1] != [want] or len(codes) != 1:
                    return "step %d: unroutable identity, ROUTER_MANDATORY=%s: expected %s, send returned codes %s" % (
                        s, c["mandatory"], "HostUnreachable" if want else "silent Ok", codes)
    return None


def parse_map_rows(c, rows):
    """-> list over ops of (pre_rows, fwd{id:(uri,strat)}, rev{pipe:id})"""
    out = []
    i = 0
    for o in c["ops"]:
        pre = []
        while i < len(rows) and rows[i][0] != 100:
            pre.append(rows[i])
            i += 1
        if i >= len(rows):
            return None
        h = rows[i]
        i += 1
        fwd = {}
        rev = {}
        for _ in range(h[1]):
            r = rows[i]
            i += 1
            fwd[tuple(r[3:])] = (r[1], r[2])
        for _ in range(h[2]):
            r = rows[i]
            i += 1
            rev[r[1]] = tuple(r[2:])
        out.append((pre, fwd, rev))
    return out


STRAT_OF_T = {1: 1, 2: 2, 3: 3}


def oracle_map(c, rows):
    """RouterMap level: every forward entry is backed by a live pipe carrying that identity with that pipe's
       uri; while identities have been pairwise distinct among live pipes, forward/reverse are exactly the live
       pipes' identities (lookup by identity finds the true peer)."""
    dumps = parse_map_rows(c, rows)
    if dumps is None:
        return "malformed map dump"
    spec = {}          # pipe -> (id, uri, strat)
    collided = False
    prev_fwd = {}
    for n, (o, (pre, fwd, rev)) in enumerate(zip(c["ops"], dumps)):
        k = o["o"]
        if k in ("add", "upd"):
            i = tuple(o["id"])
            if any(q != o["p"] and v[0] == i for q, v in spec.items()):
                collided = True
            spec[o["p"]] = (i, o["u"], 0 if k == "add" else STRAT_OF_T.get(o["t"], 0))
        elif k == "rmp":
            spec.pop(o["p"], None)
        elif k == "rmi":
            i = tuple(o["id"])
            if i in prev_fwd:
                for q in [q for q, v in spec.items() if v[0] == i]:
                    if not collided:
                        spec.pop(q)
                if collided:
                    # some pipe carrying i lost its reverse entry; mirror the observation
                    for q in [q for q, v in spec.items() if v[0] == i and q not in rev]:
                        spec.pop(q)
        elif k == "send":
            i = tuple(o["id"])
            if pre and pre[0] == [3, 1]:
                wire = [r[2:] for r in pre[1:]]
                pay = [fbytes(f) for f in o["payload"]]
                if pay and wire[-len(pay):] != pay:
                    return "op %d: strategy changed the payload frames" % n
                if i not in prev_fwd:
                    return "op %d: a strategy was found for an identity without forward entry" % n
        prev_fwd = fwd
        # invariant: forward entries are backed
        for i, (uri, st) in fwd.items():
            backers = [q for q, j in rev.items() if j == i and q in spec and spec[q][1] == uri]
            if not backers:
                return "op %d: forward entry %s -> u%d is not backed by any live pipe with that identity and uri" % (n, list(i)[:8], uri)
        for q, v in spec.items():
            if rev.get(q) != v[0]:
                return "op %d: reverse entry of live pipe %d is %s, its identity is %s" % (n, q, rev.get(q), list(v[0])[:8])
        if not collided:
            want_fwd = {v[0]: (v[1], v[2]) for v in spec.values()}
            if fwd != want_fwd:
                return "op %d: distinct identities, but lookup by identity does not lead to the true peer: %s vs %s" % (
                    n, {bytes(k[:6]): v for k, v in fwd.items()}, {bytes(k[:6]): v for k, v in want_fwd.items()})
            if set(rev) != set(spec):
                return "op %d: reverse map has entries for pipes that are not live" % n
    return None


def oracle(c, o):
    if o.get("panic"):
        return "harness case panicked"
    rows = o["rows"]
    if rows and rows[0][0] == 99:
        return "stack scenario could not run (code %s)" % rows[0][1:]
    k = c["k"]
    if k == "stack":
        return oracle_stack(c, rows)
    if k == "map":
        return oracle_map(c, rows)
    if k == "strat":
        wire = [r[2:] for r in rows]
        pay = [fbytes(f) for f in c["payload"]]
        if pay and wire[-len(pay):] != pay:
            return "strategy %d changed the payload frames" % c["code"]
        if not c["manual"] and c["code"] in (0, 1, 2) and (len(wire) < len(pay) + 1 or wire[len(wire) - len(pay) - 1] != []):
            return "strategy %d dropped the delimiter" % c["code"]
        return None
    if k == "framing":
        inp = [fbytes(f) for f in c["frames"]]
        out = [r[2:] for r in rows]
        w = c["which"]
        manual = c["manual"] and w >= 4
        enc = w in (0, 2) or (w >= 4 and w % 2 == 0)
        if manual:
            return None if out == inp else "manual latch changed the frames"
        if enc:
            if w in (2, 6):
                ok = out == [[]] + inp
            else:
                ok = (out == inp[:1] + [[]] + inp[1:]) if inp else out == []
            return None if ok else "auto encode did not insert exactly one empty delimiter at the documented position"
        if w in (3, 7):
            ok = out == inp[1:]
        else:
            ok = out == (inp[:1] + inp[2:] if len(inp) > 1 else inp)
        return None if ok else "auto decode removed something else than the frame at the delimiter position"
    return None


def signature(c, o, msg):
    return c.get("probe")


def shrink(c):
    k = c["k"]
    if k == "map":
        ops = c["ops"]
        for i in range(len(ops)):
            if len(ops) > 1:
                yield dict(c, ops=ops[:i] + ops[i + 1:])
    elif k == "stack":
        st = c["steps"]
        def req_target(x):
            return x["op"] == "r2c" and "to" in x and c["peers"][x["to"]]["type"] == "req"
        for i in range(len(st) - 1, -1, -1):
            if req_target(st[i]):
                continue
            if st[i]["op"] in ("r2c", "close") or (st[i]["op"] == "c2r" and c["peers"][st[i]["peer"]]["type"] != "req"
                                                   and any(x["op"] == "c2r" and x["peer"] == st[i]["peer"] for x in st[:i])):
                yield dict(c, steps=st[:i] + st[i + 1:])
        for i in range(len(st)):
            p = st[i].get("payload")
            if p and len(p) > 1:
                for j in range(len(p)):
                    q = with_flags(p[:j] + p[j + 1:])
                    yield dict(c, steps=st[:i] + [dict(st[i], payload=q)] + st[i + 1:])


def nontrivial(c, o):
    rows = o["rows"]
    if c["k"] == "stack":
        return any(r[0] == 21 and r[2] != 999 for r in rows) or any(r[0] == 10 and r[3] == 0 for r in rows)
    if c["k"] == "map":
        return any(r[0] in (1, 2) for r in rows)
    return len(rows) > 0


def main(argv):
    tier, seed = C.tier_and_seed(argv)
    res = C.Result(PROP, tier, seed)
    res.rule = ("cases = op histories on the real RouterMap (both maps dumped sorted after every op), single strategy / "
                "framing-function calls, and real-socket scenarios (ROUTER + 1..3 DEALER/REQ peers over inproc / tcp "
                "127.0.0.1; distinct/absent/1-byte/255-byte ROUTING_IDs; payloads with empty frames in every position; "
                "ROUTER_MANDATORY on/off with unknown and disconnected identities; reconnect with the same identity); "
                "generated from random.Random(seed); non-trivial = at least one map entry / wire frame / delivered message; "
                "distinct by case JSON")
    C.proof_stage(res, PROP, ["theories/Corr/C11Corr.vo"])
    rng = random.Random(seed)
    cases = gen_cases(rng, tier)
    for c in cases:
        res.count("kind:" + c["k"] + (":probe" if c.get("probe") else ""))
        if c["k"] == "stack":
            res.count("transport:" + c["transport"])
            res.count("mandatory:%s" % c["mandatory"])
            for p in c["peers"]:
                res.count("peer:%s:%s" % (p["type"], "anon" if p["rid"] is None else "rid%d" % len(fbytes(p["rid"]))))
            for s in c["steps"]:
                res.count("step:" + s["op"] + (":" + s["via"] if "via" in s else ""))

    probes_hit = {}

    def oracle_np(c, o):
        msg = oracle(c, o)
        if c.get("probe"):
            probes_hit.setdefault(c["probe"], []).append(msg)
            if msg:
                # genuine defect recorded in known_findings.json (signature = probe name): KNOWN-FINDING if listed,
                # VIOLATION otherwise
                res.violation({"property": PROP, "kind": "implementation violates property oracle", "what": msg,
                               "case": c, "impl_obs": o, "harness": "c11", "signature": "C11:" + c["probe"]},
                              found_input=True, signature="C11:" + c["probe"])
            return None
        return msg

    C.differential(res, PROP, "c11", cases, to_coq, REQ, "c11_mismatches", "c11_model", oracle_np,
                   shrink=shrink, nontrivial=nontrivial, signature=signature, theorems_note=THEOREMS, shards=16)
    # a peer with an announced identity sends several messages and leaves; the application reads the backlog only after
    # the ROUTER has processed the detach: whatever is still delivered must carry the announced identity, never a placeholder
    late = [{"k": "late", "rid": {"bytes": list(b"alice")}, "n": 8, "settle_ms": 700},
            {"k": "late", "rid": {"len": 255, "seed": 9}, "n": 5, "settle_ms": 700}]
    lobs, llog = C.run_harness("c11", late, PROP, tag="late")
    if lobs is None or len(lobs) != len(late):
        res.obligation(False, "late-drain scenarios could not run: " + str(llog)[-500:])
    else:
        for c, o in zip(late, lobs):
            res.evaluations += 1
            r = o["rows"][0]
            if r[0] != 40:
                res.notes.append("late-drain scenario did not run: %s" % o["rows"])
                continue
            res.count("late:%d read after the detach (%d with the announced identity)" % (r[2], r[3]))
            res.nontrivial.add("late:%d" % len(res.nontrivial))
            bad = None
            if not r[1]:
                bad = "the first message of a peer that announced an identity was not reported under it"
            elif r[4]:
                bad = ("%d message(s) of the departed peer were delivered under a first frame that is not the identity it announced "
                       "(first bytes %s - a placeholder?)" % (r[4], o.get("other_identity")))
            if bad:
                res.violation({"property": PROP, "kind": "implementation violates property oracle", "what": bad, "case": c,
                               "impl_obs": o, "harness": "c11"}, found_input=True)
    sus = {}
    for name, msgs in probes_hit.items():
        fired = [m for m in msgs if m]
        sus[name] = fired[0] if fired else "not reproduced in this run"
        res.notes.append("probe %s: %s" % (name, sus[name]))
    res.extra["suspected_defects_reproduced"] = sus
    return res.finish(assumptions=[
        "HashMap iteration order in remove_peer_by_identity is an oracle input of the model (read back from the run)",
        "anonymous peers' placeholders (pipe:N) are read back from the ROUTER's first report",
        "scheduling of the event bus (order of identity events vs first message) is exercised, not enumerated"])
